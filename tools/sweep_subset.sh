#!/bin/bash
out=$1; shift
cd /verif
: > $out
run_one() {
  s=$1
  p=$(python3 -c "import json;print(json.load(open('/verif/seeded/$s/meta.json'))['property'])" 2>/dev/null)
  wt=/tmp/sweep_$s
  rm -rf $wt; git -C /repo worktree add --detach $wt HEAD >/dev/null 2>&1 || { echo "$s $p worktree-failed"; return; }
  if git -C $wt apply /verif/seeded/$s/patch.diff 2>/dev/null; then
    VERIF_WRITE_EVIDENCE= ./check $p --tier quick --repo $wt > /tmp/sweep_$s.log 2>&1; rc=$?
    echo "$s $p exit=$rc"
  else
    echo "$s $p patch-does-not-apply"
  fi
  git -C /repo worktree remove --force $wt >/dev/null 2>&1
  rm -f /tmp/sweep_$s.log
}
export -f run_one
printf "%s\n" "$@" | xargs -P 6 -I{} bash -c 'run_one {}' | tee -a $out
git -C /repo worktree prune
