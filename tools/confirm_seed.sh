#!/bin/bash
# tools/confirm_seed.sh <Cxx> [name]  — confirm a sub-agent's seeded change from /tmp/seed/<Cxx>/out
# in a fresh scratch worktree of /repo HEAD, then store it under /verif/seeded/<name>/.
set -u
id=$1; name=${2:-$1}
src=/tmp/seed/$id/out
wt=/tmp/cs_$name
rm -rf $wt; git -C /repo worktree prune
git -C /repo worktree add --detach $wt HEAD >/dev/null 2>&1 || { echo "worktree failed"; exit 2; }
mkdir -p /verif/seeded/$name
sed -e "s#/tmp/seed/$id/compat#/verif/compat#g" -e "s#/tmp/seed/$id/wt#/repo#g" $src/demo.py > /verif/seeded/$name/demo.py
cp $src/patch.diff /verif/seeded/$name/patch.diff
VERIF_REPO=$wt /venv/bin/python /verif/seeded/$name/demo.py > /tmp/cs_$name.base.log 2>&1; base=$?
if ! git -C $wt apply --check $src/patch.diff 2>/dev/null; then echo "PATCH DOES NOT APPLY to HEAD"; git -C /repo worktree remove --force $wt; exit 3; fi
git -C $wt apply $src/patch.diff
files=$(git -C $wt diff --name-only | grep '\.py$')
comp=0; for f in $files; do /venv/bin/python -m py_compile $wt/$f || comp=1; done
VERIF_REPO=$wt /venv/bin/python /verif/seeded/$name/demo.py > /tmp/cs_$name.mut.log 2>&1; mut=$?
echo "$name: base_exit=$base mutant_exit=$mut compile=$comp files=$files"
tail -2 /tmp/cs_$name.base.log | head -1; tail -1 /tmp/cs_$name.mut.log
python3 - <<PY
import json
m=json.load(open("$src/meta.json"))
m["confirmed"]={"base_demo_exit":$base,"mutant_demo_exit":$mut,"py_compile_ok":$comp==0,
 "how":"fresh worktree of /repo HEAD; demo.py run before and after git apply patch.diff; the pinned test-suite imports site-packages guppylang so it cannot observe /repo edits"}
json.dump(m,open("/verif/seeded/$name/meta.json","w"),indent=1)
PY
git -C /repo worktree remove --force $wt
find $wt -name __pycache__ 2>/dev/null | head -0
