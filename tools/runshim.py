"""tools/runshim.py <pytest args> — run /repo's OWN tests against /repo's sources (through the
compat shim) instead of the installed newer guppylang; used before/after every `fix:` commit to
compare the sets of failing tests (139 failures + 4 collection errors come from the version
mismatch of the sandbox and are the baseline).  Run from the repository root:
  cd /repo && /venv/bin/python /verif/tools/runshim.py tests -q -p no:cacheprovider \
      --continue-on-collection-errors -k "not emulator and not selene" """
import sys
sys.path.insert(0, "/verif/compat")
import guppy_compat  # noqa: F401,E402
import pytest  # noqa: E402
sys.exit(pytest.main(sys.argv[1:]))
