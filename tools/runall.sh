#!/bin/bash
# tools/runall.sh [tier] — run every claimed check on /repo, print the summary lines and exit codes
tier=${1:-quick}
cd /verif
for p in $(python3 -c "import json;print(' '.join(c['property_id'] for c in json.load(open('MANIFEST.json'))['checks']))"); do
  out=$(./check $p --tier $tier 2>&1); rc=$?
  echo "$p exit=$rc $(echo "$out" | grep "^\[$p\]" | tail -1)"
  echo "$out" | grep -E "^(VIOLATION|UNDECIDED|CHECKER)" | head -3
done
