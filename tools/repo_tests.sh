#!/bin/bash
# tools/repo_tests.sh <outfile> [repo-dir] — failing test ids of /repo's own suite run on /repo's sources
out=$1; repo=${2:-/repo}
cd $repo && VERIF_REPO=$repo /venv/bin/python /verif/tools/runshim.py tests -q -p no:cacheprovider --continue-on-collection-errors \
   -k "not emulator and not selene" -x --maxfail=100000 -rfE 2>&1 | grep -E "^(FAILED|ERROR) " | sed 's/ - .*//' | sort > $out
wc -l $out
