#!/bin/bash
# tools/repo_tests.sh <outfile> [repo-dir] — failing test ids of /repo's own suite run on /repo's sources
out=$1; repo=${2:-/repo}
cd $repo && VERIF_REPO=$repo /venv/bin/python /verif/tools/runshim.py tests -q -p no:cacheprovider --continue-on-collection-errors \
   -k "not emulator and not selene" -x --maxfail=100000 -rfE 2>&1 | grep -E "^(FAILED|ERROR) " | sed 's/ - .*//' | sort > $out
wc -l $out
# compare with the failing ids of the PRISTINE pinned tree (tools/repo_tests_baseline.txt, 87 ids, all caused by
# the sandbox's newer hugr / tket-exts): a fix must reproduce exactly this set
sed "s#$repo/##" $out | diff /verif/tools/repo_tests_baseline.txt - > /dev/null && echo "SAME-AS-PRISTINE" || echo "DIFFERS-FROM-PRISTINE (diff /verif/tools/repo_tests_baseline.txt <(sed 's#$repo/##' $out))"
