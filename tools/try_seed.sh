#!/bin/bash
# tools/try_seed.sh <seedname> [Cxx ...]  — apply a seeded change to /repo, run checks, undo.
name=$1; shift
props=${@:-$(python3 -c "import json;print(json.load(open('/verif/seeded/$name/meta.json'))['property'])")}
cd /verif
if ! git -C /repo diff --quiet; then echo "/repo has uncommitted changes"; exit 9; fi
git -C /repo apply /verif/seeded/$name/patch.diff || exit 8
for p in $props; do
  VERIF_WRITE_EVIDENCE= ./check $p --tier quick > /tmp/try_${name}_$p.log 2>&1; rc=$?
  echo "seed=$name check=$p exit=$rc"; grep -E "^(VIOLATION|UNDECIDED|CHECKER|  REFUTED)" /tmp/try_${name}_$p.log | head -5
done
git -C /repo checkout -- .
# evidence was rewritten on a mutated tree: restore it
git -C /verif checkout -- evidence 2>/dev/null
