#!/usr/bin/env python3
"""Regenerates /verif/MANIFEST.json from contracts/registry.py (run from /verif)."""
import json, os, sys
sys.path.insert(0, os.path.dirname(os.path.dirname(os.path.abspath(__file__))))
from contracts.registry import CLAIMED, NOT_APPLICABLE
props = [json.loads(l) for l in open("properties.jsonl")]
hooks_commits = [l.strip() for l in open("hooks_commits.txt")] if os.path.exists("hooks_commits.txt") else []
m = {
 "version": 1,
 "setup_cmd": "cd /verif && ./setup.sh",
 "hooks": {"guard": "CQCL_GUPPYLANG_VERIF",
           "enable": "export CQCL_GUPPYLANG_VERIF=1 (read by the hooked modules; replays set it themselves). The deciding step reads source text and needs no build.",
           "baseline_off_cmd": "cd /repo && env -u CQCL_GUPPYLANG_VERIF /venv/bin/python -m pytest -ra -q -p no:cacheprovider --timeout=900 --continue-on-collection-errors",
           "source_commits": hooks_commits, "add_only": True},
 "engines": [{"name": "pyvc", "path": "/verif/pyvc", "serves_properties": sorted(CLAIMED),
              "kind_free_text": "VC generator: path-wise symbolic execution of the real /repo source (ast) against sidecar contracts in /verif/contracts; obligations discharged by z3 (cvc5 fallback)"}],
 "checks": [],
 "notes": "See DESIGN.md. Exit codes of ./check: 0 held, 1 VIOLATION, 2 undecided (never reported as violation), 3 checker guard/crash.",
 "not_applicable": [],
}
for p in props:
    pid = p["id"]
    if pid in CLAIMED:
        c = CLAIMED[pid]
        m["checks"].append({
            "property_id": pid,
            "quick_cmd": f"./check {pid} --tier quick",
            "thorough_cmd": f"./check {pid} --tier thorough",
            "evidence_file": f"/verif/evidence/{pid}.json",
            "replay_cmd_template": f"./check {pid} --replay {{path}}",
            "engine": "pyvc",
            "level_claimed": {"category": c["category"], "text": c["text"], "design_ref": c["design_ref"]},
            "level_note": c["note"],
            "technique": c["technique"],
        })
    else:
        m["not_applicable"].append({"property_id": pid, "reason": NOT_APPLICABLE.get(pid, "not implemented yet (work in progress; DESIGN.md §6 has the plan)")})
json.dump(m, open("MANIFEST.json", "w"), indent=1)
print("checks:", len(m["checks"]), "n/a:", len(m["not_applicable"]))
