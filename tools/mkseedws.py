#!/usr/bin/env python3
"""tools/mkseedws.py <round-tag> <Cxx> [...] — prepare /tmp/seed/<Cxx>/ for a seeding sub-agent:
a scratch worktree of /repo HEAD, a copy of the compat shim (the only thing taken from /verif: it is
needed to run /repo's sources at all in this sandbox), an empty out/, and PROMPT.md holding the
property text, the working rules and one-line summaries of the changes made in earlier rounds (so
that the new change uses another mechanism).  Prints the prompt path per property."""
import json, os, subprocess, sys, shutil, glob
tag = sys.argv[1]
props = {json.loads(l)["id"]: json.loads(l) for l in open("/verif/properties.jsonl")}
for pid in sys.argv[2:]:
    base = f"/tmp/seed/{pid}"
    if os.path.isdir(base + "/wt"):
        subprocess.run(["git", "-C", "/repo", "worktree", "remove", "--force", base + "/wt"])
    shutil.rmtree(base, ignore_errors=True)
    os.makedirs(base + "/out")
    subprocess.run(["git", "-C", "/repo", "worktree", "prune"])
    subprocess.run(["git", "-C", "/repo", "worktree", "add", "--detach", base + "/wt", "HEAD"],
                   check=True, stdout=subprocess.DEVNULL, stderr=subprocess.DEVNULL)
    shutil.copytree("/verif/compat", base + "/compat", ignore=shutil.ignore_patterns("__pycache__"))
    earlier = []
    for d in sorted(glob.glob(f"/verif/seeded/{pid}*")):
        try:
            m = json.load(open(d + "/meta.json"))
        except Exception:
            continue
        s = m.get("summary") or m.get("change") or m.get("what") or ""
        fs = m.get("files") or ""
        earlier.append(f"- {os.path.basename(d)}: files {fs}: {str(s)[:260]}")
    p = props[pid]
    prompt = f"""You are testing how robust a software project's quality checks are. You work ONLY inside
{base}/ : `wt/` is your own scratch git worktree of the CQCL/guppylang repository (a Python-embedded
quantum-classical language; packages `guppylang/src/guppylang` and
`guppylang-internals/src/guppylang_internals`), `out/` is where you write your results. Never touch
/repo or /verif; do not read /verif.

The property under study (one JSON record; `statement` is what users rely on, `anchors` say where
the code lives):

{json.dumps(p, indent=1)}

TASK. Produce ONE realistic change to the source under `wt/` that BREAKS this property while the code
still compiles (py_compile) and while the repository's existing tests would still pass. It should
look like something a maintainer could plausibly commit (a refactoring, an optimisation, a "simplification",
an off-by-one, a swapped argument, a dropped case, two edits that are each harmless alone...).
It must need something SPECIFIC to manifest — an unusual input, a particular order of operations, a
multi-step sequence, a boundary value, a particular combination of features, two cooperating sites —
not something that ordinary use or a smoke test would expose at once. Keep it small (1-15 lines).
Do not edit tests, golden files, docs or packaging. Do not add comments that reveal the change is deliberate.

Earlier rounds already made these changes for this property; choose a DIFFERENT function or mechanism
(prefer a function or file named in the property's `anchors` that none of them touched, or a helper
those functions rely on; the change may also sit in a caller that feeds them wrong arguments):
{chr(10).join(earlier) if earlier else '- (none)'}

HOW TO RUN THE CODE. The sandbox's installed guppylang (in /venv) is a NEWER release than this
repository, and the repository's test-suite imports that installed copy — so the tests cannot see
your edit at all; do not bother running them. To execute the worktree's sources use
    VERIF_REPO={base}/wt /venv/bin/python your_script.py
with, as the first lines of the script,
    import sys; sys.path.insert(0, "{base}/compat"); import guppy_compat
(a compatibility shim for the newer hugr/tket libraries; it honours VERIF_REPO). With it
`f.check()` and `f.compile_function()` work (inspect the python-level HUGR via
`f.compile_function().modules[0]`), and `f.emulator(n_qubits=k).run().results[0].entries`
executes programs that have NO control flow on bools. If your demonstration needs if/while/for/
comparisons at run time, use `import guppy_plainbool` INSTEAD of `guppy_compat` (same directory; it
lowers Guppy bool to a plain hugr Bool so control flow runs on the emulator; `measure()` still
cannot run — use `project_z(q)` + `discard(q)`; pytket is installed but `tket.circuit` is not (loading circuits needs a stand-in)). Guppy functions must
live in a real .py file (write a temporary module and import it), not in `-c` or exec'd strings.
Modifier `with` blocks and lists need `guppylang.enable_experimental_features()`.
No network. Use /venv/bin/python only.

DELIVERABLES in {base}/out/ :
1. `patch.diff` — `git -C {base}/wt diff` of your change (source files only).
2. `demo.py` — a self-contained script that exits 0 (prints PASS) on the UNCHANGED worktree and
   exits 1 (prints FAIL and what went wrong) with your change applied. It must start with
   `import sys; sys.path.insert(0, "{base}/compat"); import guppy_compat` (or guppy_plainbool) and be
   run as `VERIF_REPO={base}/wt /venv/bin/python {base}/out/demo.py`. It should test the
   property as a user would observe it (behaviour), not grep the source.
3. `meta.json` — {{"property": "{pid}", "summary": "<what you changed and why it looks innocent>",
   "needs": "<what specific input/sequence is needed for it to manifest>", "files": [...],
   "ran": ["<commands you ran and what they printed, for both the unchanged and the changed tree>"]}}
Verify both directions yourself (use `git diff > out/patch.diff` then `git apply -R out/patch.diff` / `git apply out/patch.diff`; NEVER use `git stash`: the stash is shared between all worktrees of the repository and other people work in sibling worktrees) before you finish, and leave the worktree
WITH the change applied. Report in your final message: the change in one paragraph and the two demo results.
ALSO: if, while exploring, you notice behaviour of the UNCHANGED tree that already seems to violate the
property (a wrong result, a spurious rejection, something silently ignored, a crash on a valid program),
list it at the END of your report under the heading "Already on the unchanged tree", each with a minimal
program and what it does versus what the property demands. Do not use such behaviour for your change.
"""
    open(base + "/PROMPT.md", "w").write(prompt)
    print(base + "/PROMPT.md")
