"""Compat shim: lets /repo's guppylang 0.21.6 sources import and run against the newer
hugr / tket-exts installed in /venv.  Used for REPLAY ONLY (never by the deciding step).
Import this module before anything from guppylang / guppylang_internals.

What it does (nothing under /repo is touched):
 * puts $VERIF_REPO (default /repo) sources first on sys.path
 * tket_exts.bool(): synthetic `tket.bool` extension (removed upstream in tket-exts 0.14)
 * hugr Node.metadata property (moved in hugr 0.18)
 * hugr.val.Extension swallows the removed `extensions=` kwarg
"""
import sys, os

REPO = os.environ.get("VERIF_REPO", "/repo")
for p in (f"{REPO}/guppylang/src", f"{REPO}/guppylang-internals/src"):
    if p in sys.path:
        sys.path.remove(p)
    sys.path.insert(0, p)

import hugr.ext as he
import hugr.tys as ht
import hugr.val as hv
import tket_exts

_BOOL_EXT = None


def _bool_ext():
    global _BOOL_EXT
    if _BOOL_EXT is not None:
        return _BOOL_EXT
    ext = he.Extension("tket.bool", he.Version(0, 1, 0))
    td = ext.add_type_def(
        he.TypeDef(name="bool", description="opaque bool", params=[],
                   bound=he.ExplicitBound(ht.TypeBound.Copyable)))
    bt = ht.ExtType(td)
    def op(name, ins, outs):
        ext.add_op_def(he.OpDef(name=name, description=name,
                                signature=he.OpDefSig(ht.FunctionType(ins, outs))))
    op("read", [bt], [ht.Bool])
    op("make_opaque", [ht.Bool], [bt])
    op("not", [bt], [bt])
    for n in ("and", "or", "xor", "eq"):
        op(n, [bt, bt], [bt])
    _BOOL_EXT = ext
    return ext


if not hasattr(tket_exts, "bool"):
    tket_exts.bool = _bool_ext

# hv.Extension(..., extensions=[...]) kwarg was removed
import inspect
if "extensions" not in inspect.signature(hv.Extension.__init__).parameters:
    _orig_init = hv.Extension.__init__
    def _init(self, *a, extensions=None, **kw):
        _orig_init(self, *a, **kw)
    hv.Extension.__init__ = _init

# Node.metadata
from hugr.hugr.node_port import Node
if not hasattr(Node, "metadata"):
    _MD = {}
    def _get_md(self):
        return _MD.setdefault(self.idx, {})
    Node.metadata = property(_get_md)
