"""Plain-bool lowering for NATIVE BOUNDED LAYERS AND REPLAYS ONLY (never the deciding step of a
contract): lets /repo's programs with control flow run on the selene emulator of this sandbox.

/repo (guppylang 0.21.6) lowers Guppy `bool` to the opaque `tket.bool` extension type, which the
installed tket-exts 0.14 / selene no longer know, so every program that branches on a bool fails in
the backend.  Importing this module (instead of `guppy_compat`, which it imports first) replaces
the *lowering target only*:

 * `guppylang_internals.std._internal.compiler.tket_bool` is pre-registered with
   OpaqueBool = hugr Bool, read_bool/make_opaque = Noop, not_op = hugr logic Not,
   OpaqueBoolVal(v) = hugr TRUE/FALSE;
 * `guppylang_internals.std._internal.util.bool_logic_op(name)` returns the hugr `logic`
   extension op of the same name (and/or/xor/eq) over plain Bool.

Nothing of the checker, CFG builder, expression/statement compilers, std library sources or
array/iterator code is touched.  What it changes about the program under test: the HUGR type of a
Guppy bool and the five ops above.  `measure` (MeasureFree now returns tket.measurement) still
cannot run; `project_z` + `discard` can.
"""
import sys
import types

import guppy_compat  # noqa: F401  (paths, synthetic tket.bool for anything that still asks)

from hugr import ops, tys as ht, val as hv

_NAME = "guppylang_internals.std._internal.compiler.tket_bool"
if _NAME in sys.modules and not getattr(sys.modules[_NAME], "_VERIF_PLAIN", False):
    raise ImportError("guppy_plainbool must be imported before guppylang")

_m = types.ModuleType(_NAME)
_m._VERIF_PLAIN = True
_m.OpaqueBool = ht.Bool
_m.BOOL_DEF = None
_m.read_bool = lambda: ops.Noop(ht.Bool)
_m.make_opaque = lambda: ops.Noop(ht.Bool)


def _not_op():
    from hugr.std.logic import Not

    return Not


_m.not_op = _not_op
_m.OpaqueBoolVal = lambda v: hv.TRUE if v else hv.FALSE
_m.OPAQUE_TRUE = hv.TRUE
_m.OPAQUE_FALSE = hv.FALSE
sys.modules[_NAME] = _m

import guppylang_internals.std._internal.util as _util  # noqa: E402


def _bool_logic_op(op_name):
    def op(ty, inst, ctx):
        from hugr.std.logic import EXTENSION

        return ops.ExtOp(
            EXTENSION.get_op(op_name.capitalize()), ht.FunctionType([ht.Bool, ht.Bool], [ht.Bool])
        )

    return op


_util.bool_logic_op = _bool_logic_op
