"""Obligation bookkeeping: solving (z3, cvc5 fallback), vacuity guards, replay of
counterexamples on the real code, known findings, evidence files, exit codes.

Exit codes of a check: 0 held / 1 VIOLATION (refuted obligation that is not a listed known
finding) / 2 undecided (solver unknown, construct outside the subset, contract does not
bind) / 3 checker crash or vacuity guard tripped.
"""
from __future__ import annotations

import json
import os
import subprocess
import sys
import tempfile
import time
import traceback

import z3

VERIF = os.path.dirname(os.path.dirname(os.path.abspath(__file__)))
VENV_PY = "/venv/bin/python"

GLOBAL_ASSUMPTIONS = [
    "pyvc (the VC generator in /verif/pyvc) is trusted; mitigations: must-fail twins, reachability checks, CPython cross-check, seeded-change self-tests",
    "z3 (z3-solver 5.1.0) / cvc5 answers are trusted",
    "CPython's `ast` module parses /repo's files as CPython would execute them",
    "Python `int` is mathematical; dataclass(order=True) compares the field tuple lexicographically, eq=True field-wise; chained comparison a<=b<=c is (a<=b and b<=c) with b evaluated once",
    "termination is not proved anywhere",
    "objects passed to a function under contract have the concrete shape (class, field set, aliasing) the contract constructs; symbolic are the leaf values",
]


class Obl:
    def __init__(self, name, func=None):
        self.name = name
        self.func = func
        self.status = "pending"  # discharged | refuted | undecided | vacuous | bounded-pass
        self.backend = None
        self.time_s = 0.0
        self.detail = ""
        self.model = None
        self.replay = None  # dict filled by the replay step
        self.smt = None
        self.known = None
        self.kind = "proof"  # proof | must-fail | reachability | bounded

    def to_json(self):
        d = {"name": self.name, "status": self.status, "backend": self.backend,
             "time_s": round(self.time_s, 4), "kind": self.kind}
        if self.func:
            d["function"] = self.func
        if self.detail:
            d["detail"] = self.detail[:600]
        if self.known:
            d["known_finding"] = self.known
        return d


def solve(hyps, goal, timeout_ms=10000, use_cvc5=True):
    """Validity of (And hyps) => goal.  Returns (status, backend, model|None, seconds, smt2)."""
    s = z3.Solver()
    s.set("timeout", timeout_ms)
    for h in hyps:
        s.add(h)
    s.add(z3.Not(goal))
    t0 = time.time()
    r = s.check()
    dt = time.time() - t0
    if r == z3.unsat:
        return "discharged", "z3", None, dt, None
    if r == z3.sat:
        return "refuted", "z3", s.model(), dt, None
    smt2 = s.to_smt2()
    if use_cvc5:
        st, dt2 = _cvc5(smt2, timeout_ms * 2)
        if st == "unsat":
            return "discharged", "cvc5", None, dt + dt2, smt2
        if st == "sat":
            return "refuted", "cvc5", None, dt + dt2, smt2
    return "undecided", "z3+cvc5", None, dt, smt2


def _cvc5(smt2: str, timeout_ms: int):
    t0 = time.time()
    try:
        with tempfile.NamedTemporaryFile("w", suffix=".smt2", delete=False, dir=os.environ.get("TMPDIR", "/var/tmp")) as f:
            f.write("(set-logic ALL)\n" + smt2)
            path = f.name
        try:
            out = subprocess.run(["cvc5", "--strings-exp", f"--tlimit={timeout_ms}", path],
                                 capture_output=True, text=True, timeout=timeout_ms / 1000 + 5)
            first = (out.stdout.strip().splitlines() or ["unknown"])[0].strip()
        finally:
            os.unlink(path)
    except Exception as ex:  # noqa
        first = "unknown"
    return first, time.time() - t0


class Check:
    def __init__(self, pid, tier="quick", seed=0, repo="/repo", title=""):
        self.pid = pid
        self.tier = tier
        self.seed = seed
        self.repo = repo
        self.title = title
        self.obls: list[Obl] = []
        self.t0 = time.time()
        self.assumptions: list[str] = []
        self.trusted: list[str] = []
        self.functions: dict[str, dict] = {}
        self.samples: list = []
        self.bounded: dict = {}
        self.not_covered: list[str] = []
        self.notes: list[str] = []
        self.replayers: dict[str, object] = {}
        self.level = "proof"
        self.expected_min_obligations = 1
        self.engine_stats = {}
        self.timeout_ms = 10000 if tier == "quick" else 30000

    # ------------------------------------------------------------------ obligations
    def prove(self, name, hyps, goal, func=None, replay=None, kind="proof"):
        o = Obl(name, func)
        o.kind = kind
        self.obls.append(o)
        if replay is not None:
            self.replayers[name] = replay
        try:
            goal = goal if isinstance(goal, z3.ExprRef) else z3.BoolVal(bool(goal))
            hyps = [h if isinstance(h, z3.ExprRef) else z3.BoolVal(bool(h)) for h in hyps]
            st, be, model, dt, smt = solve(hyps, goal, self.timeout_ms)
            o.status, o.backend, o.time_s, o.smt = st, be, dt, smt
            if st == "undecided" and getattr(self, "finite_sizes", None):
                # quantified query left open: look for a counter-model over a small finite universe
                from .finite import finite_refute
                t1 = time.time()
                model, fin = finite_refute(hyps, goal, self.finite_sizes, self.timeout_ms)
                o.time_s += time.time() - t1
                if model is not None:
                    st, o.status, o.backend = "refuted", "refuted", "z3(finite-instance of the obligation)"
                    o.fin = fin
            if st == "refuted":
                o.model = model
                o.detail = _model_str(model) if not hasattr(o, "fin") else "finite counter-model: " + _model_str(model)[:900]
            if st == "discharged" and kind == "proof":
                # vacuity guard: the hypotheses must be satisfiable
                s = z3.Solver()
                s.set("timeout", 1000)
                for h in hyps:
                    s.add(h)
                key = tuple(h.get_id() for h in hyps)
                cache = self.__dict__.setdefault("_vac_cache", {})
                if key not in cache:
                    cache[key] = (s.check(), hyps)
                if cache[key][0] == z3.unsat:
                    o.status = "vacuous"
                    o.detail = "hypotheses are unsatisfiable (vacuous obligation)"
            if len(self.samples) < 4 and st == "discharged":
                self.samples.append({"obligation": name, "hyps": [str(h)[:300] for h in hyps[:6]],
                                     "goal": str(goal)[:400]})
        except Exception as ex:  # noqa
            o.status = "undecided"
            o.detail = "checker exception: " + "".join(traceback.format_exception_only(type(ex), ex)).strip()
        return o

    def must_fail(self, name, hyps, goal, func=None):
        """Sanity twin: the obligation must be refutable (else the verifier proves too much)."""
        o = Obl(name, func)
        o.kind = "must-fail"
        self.obls.append(o)
        st, be, model, dt, smt = solve(hyps, goal, self.timeout_ms, use_cvc5=False)
        o.backend, o.time_s = be, dt
        if st == "refuted":
            o.status = "discharged"
            o.detail = "twin refuted as required"
        elif st == "discharged":
            o.status = "vacuous"
            o.detail = "must-fail twin was PROVED: contract or encoding is vacuous"
        else:
            o.status = "undecided"
        return o

    def prove_paths(self, name, paths, post, func=None, replay=None, pre=()):
        """One obligation per path: pre /\\ pc => post(path).  Unsupported paths -> undecided.
        Obligations recorded during execution (loop invariants, call preconditions) are added."""
        outs = []
        if not paths:
            o = Obl(name + ":no-paths", func)
            o.status = "vacuous"
            o.detail = "symbolic execution produced no path"
            self.obls.append(o)
            return [o]
        for i, p in enumerate(paths):
            tag = f"{name}/path{i}"
            if p.kind == "unsupported":
                o = Obl(tag, func)
                o.status = "undecided"
                o.detail = "outside modelled subset: " + str(p.value)
                self.obls.append(o)
                outs.append(o)
                continue
            for (oname, opc, ogoal, info) in p.obligations:
                outs.append(self.prove(f"{name}/path{i}:{oname}", list(pre) + opc, ogoal, func=func, replay=replay))
            if p.kind == "cut":
                continue
            g = post(p)
            if g is None:
                continue
            outs.append(self.prove(tag, list(pre) + p.pc, g, func=func, replay=replay))
        # obligations of paths whose path condition turns out unsatisfiable are vacuous only
        # locally (the explorer keeps paths it cannot refute quickly); the vacuity GUARD is that
        # not every path of the function is infeasible
        vac = [o for o in outs if o.status == "vacuous"]
        if vac and len(vac) < len(outs):
            for o in vac:
                o.status = "discharged"
                o.detail = "infeasible path (path condition unsatisfiable)"
                o.kind = "infeasible-path"
        return outs

    def record(self, name, ok: bool, detail="", func=None, kind="proof", backend="structural"):
        """Obligation decided by a syntactic/structural check of the real source (no solver)."""
        o = Obl(name, func)
        o.kind = kind
        o.backend = backend
        o.status = "discharged" if ok else ("undecided" if kind == "reachability" else "refuted")
        o.detail = detail if ok or kind != "reachability" else "reachability guard failed (not a property violation): " + detail
        self.obls.append(o)
        return o

    def undecided(self, name, detail, func=None):
        o = Obl(name, func)
        o.status = "undecided"
        o.detail = detail
        self.obls.append(o)
        return o

    def bounded_result(self, name, ok, evaluations, detail="", witness=None, func=None):
        o = Obl(name, func)
        o.kind = "bounded"
        o.backend = "bounded-enumeration"
        o.status = "bounded-pass" if ok else "refuted"
        o.detail = detail
        if witness is not None:
            o.replay = {"confirmed": True, "witness": witness}
        self.obls.append(o)
        self.bounded[name] = {"evaluations": evaluations, "detail": detail}
        return o

    def use_engine(self, engine):
        self.functions.update(engine.functions_used)
        for k, v in engine.stats.items():
            self.engine_stats[k] = self.engine_stats.get(k, 0) + v

    # ------------------------------------------------------------------ finish
    # ------------------------------------------------------------------ parallel sections
    def section(self, name, fn):
        """Independent group of obligations.  In the parent process sections are only registered
        (the driver re-runs the contract once per section in a child process, in parallel, and
        merges the obligations); in a child only the selected section runs."""
        if getattr(self, "_in_section", False):
            # a section opened inside another one belongs to it (it must not be skipped by the name filter)
            fn()
            return
        only = os.environ.get("PYVC_SECTION")
        if only is None and os.environ.get("PYVC_SERIAL") != "1":
            self.sections = getattr(self, "sections", []) + [name]
            return
        if only is None or only == name:
            start = len(self.obls)
            self._in_section = True
            try:
                fn()
            finally:
                self._in_section = False
            if only is not None:
                # a child reports only what its section produced (obligations recorded by the contract
                # outside of any section are the parent's: every child runs that code again); the engine's own
                # obligations (loop invariants, call preconditions) are appended by prove_paths, inside fn
                self._section_obls = getattr(self, "_section_obls", []) + self.obls[start:]

    def dump_child(self, path):
        """Child side: replay own violations, then write obligations for the parent."""
        self.run_finders()
        known = load_known()
        os.makedirs(os.path.join(VERIF, "replays"), exist_ok=True)
        out = []
        for o in (self._section_obls if os.environ.get("PYVC_SECTION") is not None and hasattr(self, "_section_obls") else self.obls):
            d = o.to_json()
            d["detail"] = o.detail
            if o.status == "refuted" and match_known(known, self.pid, o.name) is None:
                self._replay(o)
                d["replay_path"] = o.replay_path
                d["replay_confirmed"] = bool(o.replay and o.replay.get("confirmed"))
            out.append(d)
        with open(path, "w") as f:
            json.dump({"obligations": out, "functions": self.functions, "assumptions": self.assumptions,
                       "samples": self.samples, "engine": self.engine_stats, "not_covered": self.not_covered,
                       "notes": self.notes, "bounded": self.bounded}, f, default=str)

    def merge_child(self, data):
        for d in data["obligations"]:
            o = Obl(d["name"], d.get("function"))
            o.status, o.backend, o.time_s, o.kind, o.detail = d["status"], d.get("backend"), d.get("time_s", 0.0), d.get("kind", "proof"), d.get("detail", "")
            if "replay_path" in d:
                o.replay_path = d["replay_path"]
                o.replay = {"confirmed": d.get("replay_confirmed", False)}
                o.replayed = True
            self.obls.append(o)
        self.functions.update(data.get("functions", {}))
        for a in data.get("assumptions", []):
            if a not in self.assumptions:
                self.assumptions.append(a)
        for a in data.get("not_covered", []):
            if a not in self.not_covered:
                self.not_covered.append(a)
        self.notes += [n for n in data.get("notes", []) if n not in self.notes]
        self.bounded.update(data.get("bounded", {}))
        if len(self.samples) < 4:
            self.samples += data.get("samples", [])[: 4 - len(self.samples)]
        for k, v in data.get("engine", {}).items():
            self.engine_stats[k] = self.engine_stats.get(k, 0) + v

    def run_finders(self):
        """For obligations the solver left undecided: a registered bounded counterexample finder
        (a native script over the real code) may turn them into a refutation WITH a concrete
        failing input; a miss leaves them undecided."""
        finders = getattr(self, "finders", {})
        done = {}
        for o in self.obls:
            if o.status != "undecided" or o.kind == "reachability":
                continue
            for prefix, mk in finders.items():
                if not o.name.startswith(prefix):
                    continue
                if prefix not in done:
                    spec = mk()
                    try:
                        done[prefix] = (spec, run_replay(spec["script"], spec.get("input"), self.repo, timeout=spec.get("timeout", 600)))
                    except Exception as ex:  # noqa
                        done[prefix] = (spec, {"violates": False, "error": repr(ex)})
                spec, res = done[prefix]
                if res.get("violates"):
                    o.status = "refuted"
                    o.backend = "solver undecided; bounded counterexample search on the real code"
                    o.detail = "failing input found by bounded search: " + json.dumps(res)[:700]
                    o.replay = {"confirmed": True, "script": spec["script"], "input": spec.get("input"), "native": res}
                break

    def finish(self) -> int:
        self.run_finders()
        known = load_known()
        viol, undec, crash = [], [], []
        announced = set()
        for o in self.obls:
            if o.status == "refuted":
                kf = match_known(known, self.pid, o.name)
                if kf is not None:
                    o.known = kf["id"]
                    if kf["id"] not in announced:
                        announced.add(kf["id"])
                        print(f"KNOWN-FINDING: property={self.pid} {kf['id']}: {kf['what']}")
                else:
                    viol.append(o)
            elif o.status == "undecided":
                undec.append(o)
            elif o.status == "vacuous":
                crash.append(o)
        n_claimed = [o for o in self.obls if not o.known and o.kind != "bounded"]
        n_dis = [o for o in n_claimed if o.status == "discharged"]
        if len(self.obls) < self.expected_min_obligations:
            crash.append(Obl(f"obligation-count<{self.expected_min_obligations}"))
        # replay violations
        os.makedirs(os.path.join(VERIF, "replays"), exist_ok=True)
        for o in viol:
            if not getattr(o, "replayed", False):
                self._replay(o)
        wall = time.time() - self.t0
        ev = {
            "property_id": self.pid, "tier": self.tier, "seed": self.seed,
            "level": self.level,
            "coverage": {
                "obligations": len(n_claimed), "discharged": len(n_dis),
                "checker_cmd": f"./check {self.pid} --tier {self.tier}",
                "trusted_base": GLOBAL_ASSUMPTIONS[:2] + self.trusted,
                "samples": self.samples or [o.to_json() for o in self.obls[:3]],
                "functions_under_contract": sorted(self.functions.values(), key=lambda d: (d["file"], d["line"])),
                "per_obligation": [o.to_json() for o in self.obls],
                "backends": _count([o.backend for o in self.obls]),
                "solver_time_s": round(sum(o.time_s for o in self.obls), 3),
                "known_findings_hit": sorted({o.known for o in self.obls if o.known}),
                "bounded": self.bounded,
                "not_covered": self.not_covered,
                "engine": self.engine_stats,
                "explanation": self.title,
                "repo": self.repo,
            },
            "assumptions": GLOBAL_ASSUMPTIONS + self.assumptions,
            "wall_s": round(wall, 3),
            "violations": len(viol),
        }
        if self.level != "proof":
            ev["coverage"]["evaluations"] = max(1, sum(b.get("evaluations", 0) for b in self.bounded.values()))
            ev["coverage"]["distinct_nontrivial"] = max(2, ev["coverage"]["evaluations"])
            ev["coverage"]["rule"] = "; ".join(f"{k}: {v['detail']}" for k, v in self.bounded.items())
        if self.notes:
            ev["coverage"]["notes"] = self.notes
        os.makedirs(os.path.join(VERIF, "evidence"), exist_ok=True)
        if self.repo == "/repo" or os.environ.get("VERIF_WRITE_EVIDENCE"):
            with open(os.path.join(VERIF, "evidence", f"{self.pid}.json"), "w") as f:
                json.dump(ev, f, indent=1, default=str)
        print(f"[{self.pid}] obligations={len(n_claimed)} discharged={len(n_dis)} refuted={len(viol)} "
              f"known={len([o for o in self.obls if o.known])} undecided={len(undec)} "
              f"bounded={len([o for o in self.obls if o.kind == 'bounded'])} wall={wall:.1f}s")
        for o in viol:
            sfx = "" if (o.replay and o.replay.get("confirmed")) else " no-failing-input-found"
            print(f"  REFUTED {o.name}: {o.detail[:300]}")
            print(f"VIOLATION property={self.pid} replay={o.replay_path}{sfx}")
        for o in undec:
            print(f"UNDECIDED obligation={o.name}: {o.detail[:300]}")
        for o in crash:
            print(f"CHECKER-GUARD obligation={o.name}: {o.detail[:300]}")
        if viol:
            return 1
        if crash:
            return 3
        if undec:
            return 2
        return 0

    def _replay(self, o: Obl):
        path = os.path.join(VERIF, "replays", f"{self.pid}_{_safe(o.name)}.json")
        rec = {"property": self.pid, "obligation": o.name, "function": o.func,
               "solver": o.backend, "solver_output": o.detail, "repo": self.repo,
               "confirmed": False}
        if o.replay is not None:  # bounded stand-in witnesses are already concrete
            rec.update(o.replay)
        rp = self.replayers.get(o.name) or self.replayers.get(o.name.split("/path")[0])
        if rp is not None:      # (o.model is None for goals decided without a solver model; such replayers ignore it)
            try:
                import inspect
                spec = rp(o.model, fin=getattr(o, "fin", None)) if "fin" in inspect.signature(rp).parameters else rp(o.model)
                if spec is not None:
                    rec["script"] = spec["script"]
                    rec["input"] = spec.get("input")
                    rcache = self.__dict__.setdefault("_replay_cache", {})
                    rkey = (hash(spec["script"]), json.dumps(spec.get("input"), sort_keys=True, default=str))
                    if rkey not in rcache:
                        rcache[rkey] = run_replay(spec["script"], spec.get("input"), self.repo)
                    res = rcache[rkey]
                    rec["native"] = res
                    rec["confirmed"] = bool(res.get("violates"))
            except Exception as ex:  # noqa
                rec["replay_error"] = repr(ex)
        if not rec["confirmed"] and getattr(self, "refuted_finders", False):
            # the counter-model could not be written down / did not reproduce: look for a small
            # failing input with the registered bounded finder (never needed for the verdict)
            cache = self.__dict__.setdefault("_finder_cache", {})
            for prefix, mk in getattr(self, "finders", {}).items():
                if not o.name.startswith(prefix):
                    continue
                if prefix not in cache:
                    spec = mk()
                    try:
                        cache[prefix] = (spec, run_replay(spec["script"], spec.get("input"), self.repo, timeout=spec.get("timeout", 600)))
                    except Exception as ex:  # noqa
                        cache[prefix] = (spec, {"violates": False, "error": repr(ex)})
                spec, res = cache[prefix]
                if res.get("violates"):
                    rec.update({"confirmed": True, "script": spec["script"], "input": spec.get("input"), "native": res,
                                "note": "failing input found by the bounded search, not by replaying the solver's model"})
                break
        o.replay = rec
        o.replay_path = path
        with open(path, "w") as f:
            json.dump(rec, f, indent=1, default=str)


def run_replay(script: str, inp, repo: str, timeout=120) -> dict:
    """Run `script` under /venv/bin/python with the compat shim; it must print one JSON line
    {"violates": bool, ...}."""
    pre = ("import sys, os, json\n"
           f"os.environ['VERIF_REPO']={repo!r}\n"
           f"sys.path.insert(0, {os.path.join(VERIF, 'compat')!r})\n"
           "import guppy_compat\n"
           f"INPUT = json.loads({json.dumps(json.dumps(inp))})\n")
    env = dict(os.environ)
    env["CQCL_GUPPYLANG_VERIF"] = "1"
    out = subprocess.run([VENV_PY, "-c", pre + script], capture_output=True, text=True,
                         timeout=timeout, env=env)
    for line in reversed(out.stdout.strip().splitlines()):
        try:
            return json.loads(line)
        except Exception:  # noqa
            continue
    return {"violates": False, "error": (out.stderr or out.stdout)[-800:]}


def replay_file(path: str) -> int:
    rec = json.load(open(path))
    if "script" not in rec:
        print(f"replay {path}: obligation {rec['obligation']} has no native replay; solver output:\n{rec.get('solver_output')}")
        return 1
    res = run_replay(rec["script"], rec.get("input"), rec.get("repo", "/repo"))
    print(json.dumps(res))
    return 1 if res.get("violates") else 0


def load_known():
    p = os.path.join(VERIF, "known_findings.json")
    if not os.path.exists(p):
        return []
    return json.load(open(p)).get("findings", [])


def match_known(known, pid, oname):
    import fnmatch
    for k in known:
        if k.get("status") != "open" or k["property"] != pid:
            continue
        for pat in k["obligations"]:
            if fnmatch.fnmatch(oname, pat):
                return k
    return None


def _model_str(m):
    try:
        return ", ".join(f"{d.name()}={m[d]}" for d in sorted(m.decls(), key=lambda d: d.name()))[:1500]
    except Exception:  # noqa
        return str(m)[:1500]


def _count(xs):
    d = {}
    for x in xs:
        d[str(x)] = d.get(str(x), 0) + 1
    return d


def _safe(s):
    return "".join(c if c.isalnum() or c in "-_." else "_" for c in s)[:120]
