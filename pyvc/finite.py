"""Finite-instance refutation of a quantified obligation.

When z3 answers `unknown` on  hyps /\\ not goal  (quantifiers + lambdas over uninterpreted
sorts), the same formula is instantiated over a small finite universe for each uninterpreted
sort: quantifiers are expanded over the universe, array reads are pushed through
Store / Lambda / K / If, and every constant of such a sort is constrained to the universe.  The
result is quantifier-free; `sat` yields a concrete counter-model of the obligation (any finite
interpretation of an uninterpreted sort is admissible), which the caller replays on the real
code.  `unsat` for the finite instance proves nothing and is reported as undecided.
"""
from __future__ import annotations

import itertools

import z3


class Finite:
    def __init__(self, sizes: dict):
        """sizes: {z3 sort: n}"""
        self.dom = {s.name(): [z3.Const(f"{s.name()}!{i}", s) for i in range(n)] for s, n in sizes.items()}
        self.cache = {}
        self.seen_consts = {}

    def in_dom(self, sort):
        return sort.kind() == z3.Z3_UNINTERPRETED_SORT and sort.name() in self.dom

    def expand(self, f):
        k = f.get_id()
        if k in self.cache:
            return self.cache[k][1]
        r = self._expand(f)
        self.cache[k] = (f, r)  # keep `f` alive: z3 reuses ids of freed ASTs
        return r

    def _expand(self, f):
        if z3.is_quantifier(f):
            if f.is_lambda():
                return f
            n = f.num_vars()
            sorts = [f.var_sort(i) for i in range(n)]
            if not all(self.in_dom(s) for s in sorts):
                raise ValueError(f"quantifier over non-finite sort {sorts}")
            parts = []
            for combo in itertools.product(*[self.dom[s.name()] for s in sorts]):
                body = z3.substitute_vars(f.body(), *reversed(combo))
                parts.append(self.expand(body))
            return z3.And(*parts) if f.is_forall() else z3.Or(*parts)
        if z3.is_var(f):
            return f
        if not z3.is_app(f):
            return f
        if f.num_args() == 0:
            if self.in_dom(f.sort()) and f.decl().kind() == z3.Z3_OP_UNINTERPRETED:
                self.seen_consts[f.get_id()] = f
            return f
        if f.decl().kind() == z3.Z3_OP_SELECT:
            a = self.expand(f.arg(0))
            i = self.expand(f.arg(1))
            return self.select(a, i)
        args = [self.expand(f.arg(i)) for i in range(f.num_args())]
        if f.decl().kind() == z3.Z3_OP_UNINTERPRETED and f.decl().name().startswith("card!") and args[0].sort().kind() == z3.Z3_ARRAY_SORT:
            s = args[0].sort().domain()
            if self.in_dom(s):  # exact cardinality on the finite universe
                return z3.Sum(*[z3.If(self.select(args[0], c), z3.IntVal(1), z3.IntVal(0)) for c in self.dom[s.name()]])
        if f.decl().kind() == z3.Z3_OP_EQ and z3.is_array(args[0]):
            return self.array_eq(args[0], args[1])
        k = f.decl().kind()
        if k == z3.Z3_OP_AND:
            return z3.And(*args)
        if k == z3.Z3_OP_OR:
            return z3.Or(*args)
        if k == z3.Z3_OP_NOT:
            return z3.Not(args[0])
        if k == z3.Z3_OP_IMPLIES:
            return z3.Implies(args[0], args[1])
        if k == z3.Z3_OP_EQ:
            return args[0] == args[1]
        if k == z3.Z3_OP_ITE:
            return z3.If(args[0], args[1], args[2])
        if k == z3.Z3_OP_STORE:
            return z3.Store(args[0], args[1], args[2])
        if k == z3.Z3_OP_DISTINCT:
            return z3.Distinct(*args)
        pairs = [(f.arg(i), args[i]) for i in range(f.num_args()) if f.arg(i).get_id() != args[i].get_id()]
        return z3.substitute(f, *pairs) if pairs else f

    def array_eq(self, a, b):
        s = a.sort().domain()
        if not self.in_dom(s):
            return a == b
        parts = []
        for c in self.dom[s.name()]:
            x, y = self.select(a, c), self.select(b, c)
            parts.append(self.array_eq(x, y) if z3.is_array(x) else x == y)
        return z3.And(*parts)

    def select(self, a, i):
        if z3.is_quantifier(a) and a.is_lambda():
            body = z3.substitute_vars(a.body(), i)
            return self.expand(body)
        if z3.is_app(a):
            k = a.decl().kind()
            if k == z3.Z3_OP_STORE:
                base, j, v = a.arg(0), a.arg(1), a.arg(2)
                return z3.If(i == j, v, self.select(base, i))
            if k == z3.Z3_OP_CONST_ARRAY:
                return a.arg(0)
            if k == z3.Z3_OP_ITE:
                return z3.If(a.arg(0), self.select(a.arg(1), i), self.select(a.arg(2), i))
        return z3.Select(a, i)

    def closure(self):
        out = []
        for c in self.seen_consts.values():
            ds = self.dom[c.sort().name()]
            if any(c.get_id() == d.get_id() for d in ds):
                continue
            out.append(z3.Or(*[c == d for d in ds]))
        for ds in self.dom.values():
            if len(ds) > 1:
                out.append(z3.Distinct(*ds))
        return out


def finite_refute(hyps, goal, sizes_list, timeout_ms=20000):
    """Try increasing universes; returns (model, Finite) of the first satisfiable instance."""
    for sizes in sizes_list:
        fin = Finite(sizes)
        try:
            fs = [fin.expand(h) for h in hyps] + [fin.expand(z3.Not(goal))]
        except ValueError:
            return None, None
        s = z3.Solver()
        s.set("timeout", timeout_ms)
        for f in fs:
            s.add(f)
        for c in fin.closure():
            s.add(c)
        if s.check() == z3.sat:
            return s.model(), fin
    return None, None
