"""`match` statements: value, class (positional via dataclass fields / __match_args__ and
keyword), sequence, or-, as-, wildcard patterns and guards."""
from __future__ import annotations

import ast

import z3

from .values import (SInt, SBool, SStr, Sym, SObj, ClassVal, EnumVal, FlagVal, Unsupported, is_symbolic)


def exec_match(it, st, fr):
    subj = it.eval(st.subject, fr)
    for case in st.cases:
        binds = {}
        if match_pattern(it, case.pattern, subj, fr, binds):
            for k, v in binds.items():
                it.store_name(k, v, fr)
            if case.guard is not None and not it.truth(it.eval(case.guard, fr)):
                continue
            it.exec_block(case.body, fr)
            return


def _isinstance(it, v, cls) -> bool:
    return it.builtins["isinstance"].fn(v, cls)


def match_pattern(it, p, v, fr, binds) -> bool:
    if isinstance(p, ast.MatchAs):
        if p.pattern is not None and not match_pattern(it, p.pattern, v, fr, binds):
            return False
        if p.name is not None:
            binds[p.name] = v
        return True
    if isinstance(p, ast.MatchOr):
        for alt in p.patterns:
            b2 = {}
            if match_pattern(it, alt, v, fr, b2):
                binds.update(b2)
                return True
        return False
    if isinstance(p, ast.MatchValue):
        return it.truth(it.cmp("==", v, it.eval(p.value, fr)))
    if isinstance(p, ast.MatchSingleton):
        r = it.identical(v, p.value)
        return it.truth(r)
    if isinstance(p, ast.MatchSequence):
        if isinstance(v, (str, SStr)) or not isinstance(v, (list, tuple)):
            return False
        star = [i for i, e in enumerate(p.patterns) if isinstance(e, ast.MatchStar)]
        if star:
            i = star[0]
            after = len(p.patterns) - i - 1
            if len(v) < len(p.patterns) - 1:
                return False
            for sp, x in zip(p.patterns[:i], v[:i]):
                if not match_pattern(it, sp, x, fr, binds):
                    return False
            if p.patterns[i].name:
                binds[p.patterns[i].name] = list(v[i:len(v) - after])
            for sp, x in zip(p.patterns[i + 1:], v[len(v) - after:] if after else []):
                if not match_pattern(it, sp, x, fr, binds):
                    return False
            return True
        if len(v) != len(p.patterns):
            return False
        return all(match_pattern(it, sp, x, fr, binds) for sp, x in zip(p.patterns, v))
    if isinstance(p, ast.MatchClass):
        cls = it.eval(p.cls, fr)
        from .values import Builtin
        if isinstance(cls, Builtin) and cls.name in it.e.bclasses:
            cls = it.e.bclasses[cls.name]
        if not it.truth(_isinstance(it, v, cls)):
            return False
        builtin_single = isinstance(cls, ClassVal) and cls.builtin and cls.name in (
            "int", "str", "bool", "float", "list", "tuple", "dict", "set", "frozenset", "bytes")
        if p.patterns:
            if builtin_single:
                if len(p.patterns) != 1:
                    it.throw("TypeError", "too many positional sub-patterns")
                if not match_pattern(it, p.patterns[0], v, fr, binds):
                    return False
            else:
                ma = None
                if isinstance(cls, ClassVal):
                    ma, _ = cls.lookup("__match_args__")
                    if ma is None and any(c.dataclass is not None for c in cls.mro()):
                        ma = tuple(cls.dc_fields().keys())
                if ma is None:
                    raise Unsupported(f"positional class pattern for {cls!r}")
                if len(p.patterns) > len(ma):
                    it.throw("TypeError", "too many positional sub-patterns")
                for sp, name in zip(p.patterns, ma):
                    try:
                        x = it.getattr(v, name)
                    except Exception:
                        return False
                    if not match_pattern(it, sp, x, fr, binds):
                        return False
        for name, sp in zip(p.kwd_attrs, p.kwd_patterns):
            from .values import PyRaise
            try:
                x = it.getattr(v, name)
            except PyRaise:
                return False
            if not match_pattern(it, sp, x, fr, binds):
                return False
        return True
    if isinstance(p, ast.MatchMapping):
        if not isinstance(v, dict):
            return False
        for k, sp in zip(p.keys, p.patterns):
            kk = it.eval(k, fr)
            if kk not in v:
                return False
            if not match_pattern(it, sp, v[kk], fr, binds):
                return False
        if p.rest:
            keys = [it.eval(k, fr) for k in p.keys]
            binds[p.rest] = {k: x for k, x in v.items() if k not in keys}
        return True
    raise Unsupported(f"pattern {type(p).__name__}")
