"""Symbolic (unbounded) collections: sets, maps, generators over uninterpreted element sorts."""
from __future__ import annotations

import z3

from .values import Sym, SInt, SBool, SOpq, Unsupported, lift, to_z3


class SGen(Sym):
    """`f(x) for x in coll` over a symbolic collection (lazy, pure)."""

    def __init__(self, coll, fn):
        self.coll = coll
        self.fn = fn


class SRange(Sym):
    def __init__(self, it, *a):
        raise Unsupported("range() with symbolic bounds")


def try_symbolic_genexp(it, n, fr):
    return None


def try_symbolic_dictcomp(it, n, fr):
    return None
