"""Symbolic (unbounded) collections over uninterpreted element sorts.

 * SColl  — immutable finite collection given by a membership array  elem -> Bool
            (lists are modelled as the SET of their elements: see the note in exec_for)
 * SSet   — mutable Python `set`
 * SDict  — mutable Python `dict`; domain array + one or more value columns, values are
            re-wrapped by a codec (so a dict of dicts / of tuples of sets is a dict whose
            columns are arrays of arrays)
 * SGen   — lazy generator  `f(x) for x in coll`
 * STup   — `*args` tuple bound from a starred SGen
Quantified facts are generated only where Python needs them (emptiness, subset, equality).
"""
from __future__ import annotations

import z3

from .values import (Sym, SInt, SBool, SOpq, SObj, Builtin, Unsupported, PyRaise, lift, to_z3)


class sampling:
    """Context: the code inside is evaluated for an arbitrary element satisfying `guard`."""

    def __init__(self, it, guard):
        self.it, self.guard = it, guard

    def __enter__(self):
        g = getattr(self.it.ctx, "guards", None)
        if g is None:
            g = self.it.ctx.guards = []
        g.append(self.guard)

    def __exit__(self, *a):
        self.it.ctx.guards.pop()


class Elem:
    """How elements of a z3 sort appear as interpreter values."""

    def __init__(self, sort, kind):
        self.sort = sort
        self.kind = kind

    def wrap(self, t):
        return SOpq(t, self.kind)

    def unwrap(self, v):
        if isinstance(v, SOpq) and v.kind == self.kind:
            return v.t
        raise Unsupported(f"expected a {self.kind}, got {v!r}")

    def fresh(self, it, base=None):
        return z3.Const(it.ctx.fresh_name(base or self.kind.lower()), self.sort)


class SColl(Sym):
    def __init__(self, elem: Elem, arr):
        self.elem = elem
        self.arr = arr  # z3 Array(elem.sort -> Bool)

    t = property(lambda self: self.arr)

    def member(self, t):
        return z3.simplify(z3.Select(self.arr, t))

    def contains(self, it, x):
        if not (isinstance(x, SOpq) and x.kind == self.elem.kind):
            return False
        return lift(self.member(x.t))

    def nonempty(self, it):
        x = z3.Const("ne!" + self.elem.kind, self.elem.sort)
        return lift(z3.Exists([x], z3.Select(self.arr, x)))

    def truth(self, it):
        return self.nonempty(it)

    def arbitrary(self, it, also=None):
        """A fresh element assumed to be a member (caller must know the collection is non-empty)."""
        c = self.elem.fresh(it)
        it.ctx.assume(z3.Select(self.arr, c))
        if also is not None:
            it.ctx.assume(also(c))
        return self.elem.wrap(c)

    def length(self, it):
        return SLen(self)

    def iterate(self, it):
        raise Unsupported("concrete iteration over a symbolic collection (loop needs a contract)")

    def union_arr(self, other):
        x = z3.Const("u!" + self.elem.kind, self.elem.sort)
        return z3.Lambda([x], z3.Or(z3.Select(self.arr, x), z3.Select(other.arr, x)))

    def binop(self, it, op, other, reflected):
        if isinstance(other, (list, tuple, set, frozenset)) and len(other) == 0 and op in ("+", "|"):
            return type(self)(self.elem, self.arr) if not isinstance(self, SSet) else SSet(self.elem, self.arr)
        if not isinstance(other, SColl) or other.elem.kind != self.elem.kind:
            return NotImplemented
        x = z3.Const("b!" + self.elem.kind, self.elem.sort)
        a, b = (other, self) if reflected else (self, other)
        cls = SSet if isinstance(self, SSet) or isinstance(other, SSet) else SColl
        if op in ("+", "|"):
            return cls(self.elem, z3.Lambda([x], z3.Or(z3.Select(a.arr, x), z3.Select(b.arr, x))))
        if op == "&":
            return cls(self.elem, z3.Lambda([x], z3.And(z3.Select(a.arr, x), z3.Select(b.arr, x))))
        if op == "-":
            return cls(self.elem, z3.Lambda([x], z3.And(z3.Select(a.arr, x), z3.Not(z3.Select(b.arr, x)))))
        return NotImplemented

    def cmp(self, it, op, other):
        if isinstance(other, (set, frozenset, list, tuple)) and len(other) == 0:
            other = SColl(self.elem, z3.K(self.elem.sort, z3.BoolVal(False)))
        if not isinstance(other, SColl):
            if op == "==":
                return False
            if op == "!=":
                return True
            return NotImplemented
        x = z3.Const("c!" + self.elem.kind, self.elem.sort)
        eq = z3.ForAll([x], z3.Select(self.arr, x) == z3.Select(other.arr, x))
        if op == "==":
            return lift(eq)
        if op == "!=":
            return lift(z3.Not(eq))
        if op == "<=":
            return lift(z3.ForAll([x], z3.Implies(z3.Select(self.arr, x), z3.Select(other.arr, x))))
        if op == ">=":
            return lift(z3.ForAll([x], z3.Implies(z3.Select(other.arr, x), z3.Select(self.arr, x))))
        return NotImplemented

    def to_set(self, it):
        return SSet(self.elem, self.arr)

    def filtered(self, pred):
        x = z3.Const("f!" + self.elem.kind, self.elem.sort)
        return SColl(self.elem, z3.Lambda([x], z3.And(z3.Select(self.arr, x), pred(x))))

    def getattr(self, it, name):
        return coll_method(it, self, name)

    def __repr__(self):
        return f"{type(self).__name__}<{self.elem.kind}>({self.arr})"


class SLen(Sym):
    """len() of a symbolic collection: only comparisons with 0 are supported."""

    def __init__(self, coll):
        self.coll = coll
        self.t = None

    def card(self):
        """Cardinality as an uninterpreted function of the membership array (exact on finite
        instances: pyvc.finite expands it to a sum over the universe)."""
        arr = self.coll.arr
        f = z3.Function("card!" + self.coll.elem.kind, arr.sort(), z3.IntSort())
        return f(arr)

    def cmp(self, it, op, other):
        if isinstance(other, SLen):
            a, b = self.card(), other.card()
            it.ctx.assume(z3.And(a >= 0, b >= 0))
            x = z3.Const("cd!" + self.coll.elem.kind, self.coll.elem.sort)
            if other.coll.elem.kind == self.coll.elem.kind:
                it.ctx.assume(z3.Implies(z3.ForAll([x], z3.Select(self.coll.arr, x) == z3.Select(other.coll.arr, x)), a == b))
            f = {"==": lambda p, q: p == q, "!=": lambda p, q: p != q, "<": lambda p, q: p < q,
                 "<=": lambda p, q: p <= q, ">": lambda p, q: p > q, ">=": lambda p, q: p >= q}[op]
            return lift(f(a, b))
        if other != 0 or isinstance(other, bool):
            raise Unsupported("len(symbolic collection) compared with a non-zero value")
        ne = self.coll.nonempty(it)
        neg = lift(z3.Not(ne.t)) if isinstance(ne, SBool) else (not ne)
        if op in (">", "!="):
            return ne
        if op in ("==", "<="):
            return neg
        if op == ">=":
            return True
        if op == "<":
            return False
        return NotImplemented

    def truth(self, it):
        return self.coll.nonempty(it)


class SSet(SColl):
    def note(self, it):
        m = getattr(it.ctx, "mutated", None)
        if m is not None:
            m.add(id(self))

    def copy(self, it=None):
        return SSet(self.elem, self.arr)


def coll_method(it, c: SColl, name):
    e = c.elem

    def need_set():
        if not isinstance(c, SSet):
            raise PyRaise(it.make_exc("AttributeError", f"'list' object has no attribute '{name}'"))

    def as_coll(o):
        if isinstance(o, SColl):
            return o
        if isinstance(o, SDict):
            return o.keyset()
        if isinstance(o, (list, tuple, set, frozenset)):
            arr = z3.K(e.sort, z3.BoolVal(False))
            for x in o:
                arr = z3.Store(arr, e.unwrap(x), z3.BoolVal(True))
            return SColl(e, arr)
        if isinstance(o, SGen):
            return o.as_coll(it)
        raise Unsupported(f"collection argument {o!r}")
    if name == "add":
        need_set()

        def add(x):
            c.arr = z3.Store(c.arr, e.unwrap(x), z3.BoolVal(True))
            c.note(it)
        return Builtin("set.add", add)
    if name in ("update", "extend"):
        def update(*others):
            if name == "update":
                need_set()
            for o in others:
                c.arr = c.union_arr(as_coll(o))
            if isinstance(c, SSet):
                c.note(it)
        return Builtin("set.update", update)
    if name == "append":
        def append(x):
            c.arr = z3.Store(c.arr, e.unwrap(x), z3.BoolVal(True))
        return Builtin("list.append", append)
    if name in ("discard", "remove"):
        def discard(x):
            t = e.unwrap(x)
            if name == "remove" and it.ctx.branch(z3.Not(z3.Select(c.arr, t))):
                it.throw("KeyError", x)
            c.arr = z3.Store(c.arr, t, z3.BoolVal(False))
            if isinstance(c, SSet):
                c.note(it)
        return Builtin("set.discard", discard)
    if name == "pop":
        need_set()

        def pop():
            ne = c.nonempty(it)
            if not it.truth(ne):
                it.throw("KeyError", "pop from an empty set")
            x = e.fresh(it, "popped")
            it.ctx.assume(z3.Select(c.arr, x))
            c.arr = z3.Store(c.arr, x, z3.BoolVal(False))
            c.note(it)
            return e.wrap(x)
        return Builtin("set.pop", pop)
    if name == "copy":
        return Builtin("copy", lambda: SSet(e, c.arr) if isinstance(c, SSet) else SColl(e, c.arr))
    if name in ("union", "intersection", "difference"):
        op = {"union": "|", "intersection": "&", "difference": "-"}[name]

        def f(*others):
            r = SSet(e, c.arr)
            for o in others:
                r = r.binop(it, op, as_coll(o), False)
            return SSet(e, r.arr)
        return Builtin(f"set.{name}", f)
    if name == "issubset":
        return Builtin("issubset", lambda o: c.cmp(it, "<=", as_coll(o)))
    if name == "issuperset":
        return Builtin("issuperset", lambda o: c.cmp(it, ">=", as_coll(o)))
    if name == "isdisjoint":
        def disj(o):
            x = z3.Const("d!" + e.kind, e.sort)
            return lift(z3.ForAll([x], z3.Not(z3.And(z3.Select(c.arr, x), z3.Select(as_coll(o).arr, x)))))
        return Builtin("isdisjoint", disj)
    if name == "keys":
        return Builtin("keys", lambda: c)
    raise Unsupported(f"method {name} of a symbolic {type(c).__name__}")


class Codec:
    """(list of z3 terms) <-> interpreter value, for dict values."""

    def __init__(self, sorts, wrap, unwrap):
        self.sorts, self.wrap, self.unwrap = sorts, wrap, unwrap


def elem_codec(elem: Elem):
    return Codec([elem.sort], lambda ts: elem.wrap(ts[0]), lambda v: [elem.unwrap(v)])


def set_codec(elem: Elem):
    return Codec([z3.ArraySort(elem.sort, z3.BoolSort())], lambda ts: SSet(elem, ts[0]),
                 lambda v: [_as_arr(v, elem)])


def _as_arr(v, elem):
    if isinstance(v, SColl):
        return v.arr
    if isinstance(v, SDict):
        return v.dom
    if isinstance(v, (set, frozenset, list, tuple)):
        arr = z3.K(elem.sort, z3.BoolVal(False))
        for x in v:
            arr = z3.Store(arr, elem.unwrap(x), z3.BoolVal(True))
        return arr
    raise Unsupported(f"expected a set of {elem.kind}, got {v!r}")


def tuple_codec(*codecs):
    sorts = [s for c in codecs for s in c.sorts]

    def wrap(ts):
        out, i = [], 0
        for c in codecs:
            out.append(c.wrap(ts[i:i + len(c.sorts)]))
            i += len(c.sorts)
        return tuple(out)

    def unwrap(v):
        if not isinstance(v, tuple) or len(v) != len(codecs):
            raise Unsupported(f"expected a {len(codecs)}-tuple, got {v!r}")
        return [t for c, x in zip(codecs, v) for t in c.unwrap(x)]
    return Codec(sorts, wrap, unwrap)


def dict_codec(kelem: Elem, vcodec: Codec):
    sorts = [z3.ArraySort(kelem.sort, z3.BoolSort())] + [z3.ArraySort(kelem.sort, s) for s in vcodec.sorts]

    def wrap(ts):
        return SDict(kelem, vcodec, ts[0], list(ts[1:]))

    def unwrap(v):
        if isinstance(v, dict) and not v:
            return [z3.K(kelem.sort, z3.BoolVal(False))] + [z3.K(kelem.sort, _default(s)) for s in vcodec.sorts]
        if not isinstance(v, SDict):
            raise Unsupported(f"expected a dict over {kelem.kind}, got {v!r}")
        return [v.dom] + list(v.cols)
    return Codec(sorts, wrap, unwrap)


def _default(sort):
    return z3.Const("dflt!" + str(sort).replace(" ", "_"), sort)


class SDict(Sym):
    def __init__(self, kelem: Elem, vcodec: Codec, dom, cols):
        self.kelem, self.vcodec, self.dom, self.cols = kelem, vcodec, dom, list(cols)

    t = property(lambda self: self.dom)

    def keyset(self):
        return SSet(self.kelem, self.dom)

    def note(self, it):
        m = getattr(it.ctx, "mutated", None)
        if m is not None:
            m.add(id(self))

    def contains(self, it, x):
        if isinstance(self.kelem, (StrElem, IntElem)):
            try:
                kt = self.kelem.unwrap(x)
            except Exception:
                return False
            if not z3.is_expr(kt) or kt.sort() != self.kelem.sort:
                return False
            return lift(z3.Select(self.dom, kt))
        if not (isinstance(x, SOpq) and x.kind == self.kelem.kind):
            return False
        return lift(z3.Select(self.dom, x.t))

    def getitem(self, it, k):
        kt = self.kelem.unwrap(k)
        if getattr(it.ctx, "guards", None):
            # evaluated for an ARBITRARY element of a comprehension/generator: no fork; the
            # absence of a KeyError for every such element becomes an obligation
            it.ctx.obligate("key-present-for-every-element(no KeyError)", z3.Select(self.dom, kt))
        elif it.ctx.branch(z3.Not(z3.Select(self.dom, kt))):
            it.throw("KeyError", k)
        return self.vcodec.wrap([z3.simplify(z3.Select(c, kt)) for c in self.cols])

    def setitem(self, it, k, v):
        kt = self.kelem.unwrap(k)
        vs = self.vcodec.unwrap(v)
        self.dom = z3.Store(self.dom, kt, z3.BoolVal(True))
        self.cols = [z3.Store(c, kt, x) for c, x in zip(self.cols, vs)]
        self.note(it)

    def length(self, it):
        return SLen(self.keyset())

    def truth(self, it):
        return self.keyset().nonempty(it)

    def iterate(self, it):
        raise Unsupported("concrete iteration over a symbolic dict")

    def merged(self, other):
        """self | other (other wins)"""
        x = z3.Const("m!" + self.kelem.kind, self.kelem.sort)
        dom = z3.Lambda([x], z3.Or(z3.Select(self.dom, x), z3.Select(other.dom, x)))
        cols = [z3.Lambda([x], z3.If(z3.Select(other.dom, x), z3.Select(b, x), z3.Select(a, x)))
                for a, b in zip(self.cols, other.cols)]
        return SDict(self.kelem, self.vcodec, dom, cols)

    def binop(self, it, op, other, reflected):
        if op != "|":
            return NotImplemented
        if isinstance(other, dict) and not other:
            return SDict(self.kelem, self.vcodec, self.dom, self.cols)
        if not isinstance(other, SDict):
            return NotImplemented
        a, b = (other, self) if reflected else (self, other)
        return a.merged(b)

    def cmp(self, it, op, other):
        if isinstance(other, dict) and not other:
            other = SDict(self.kelem, self.vcodec, z3.K(self.kelem.sort, z3.BoolVal(False)), self.cols)
        if not isinstance(other, SDict):
            return NotImplemented
        x = z3.Const("e!" + self.kelem.kind, self.kelem.sort)
        eq = z3.ForAll([x], z3.And(z3.Select(self.dom, x) == z3.Select(other.dom, x),
                                    z3.Implies(z3.Select(self.dom, x),
                                               z3.And(*[z3.Select(a, x) == z3.Select(b, x) for a, b in zip(self.cols, other.cols)]))))
        if op == "==":
            return lift(eq)
        if op == "!=":
            return lift(z3.Not(eq))
        return NotImplemented

    def getattr(self, it, name):
        if name == "keys":
            return Builtin("dict.keys", lambda: SSet(self.kelem, self.dom))
        if name == "items":
            return Builtin("dict.items", lambda: SItems(self))
        if name == "values":
            return Builtin("dict.values", lambda: SValues(self))
        if name == "copy":
            return Builtin("dict.copy", lambda: SDict(self.kelem, self.vcodec, self.dom, self.cols))
        if name == "get":
            def get(k, default=None):
                kt = self.kelem.unwrap(k)
                if it.ctx.branch(z3.Select(self.dom, kt)):
                    return self.vcodec.wrap([z3.Select(c, kt) for c in self.cols])
                return default
            return Builtin("dict.get", get)
        if name == "update":
            def update(o):
                m = self.merged(o)
                self.dom, self.cols = m.dom, m.cols
                self.note(it)
            return Builtin("dict.update", update)
        raise Unsupported(f"dict.{name} on a symbolic dict")

    def inplace_or(self, it, other):
        m = self.merged(other)
        self.dom, self.cols = m.dom, m.cols
        self.note(it)
        return self

    def __repr__(self):
        return f"SDict<{self.kelem.kind}>(dom={self.dom})"


class SItems(Sym):
    def __init__(self, d):
        self.d = d
        self.t = None


class SValues(Sym):
    def __init__(self, d):
        self.d = d
        self.t = None


class SGen(Sym):
    """`fn(x) for x in coll` — fn maps a wrapped element to an interpreter value (may fork/raise)."""

    def __init__(self, coll: SColl, fn, cond=None):
        self.coll, self.fn, self.cond = coll, fn, cond
        self.t = None

    def nonempty(self, it):
        return self.coll.nonempty(it)

    def length(self, it):
        return SLen(self.coll)

    def sample(self, it, name="g"):
        """Evaluate the generator body at a fresh ARBITRARY element k (not assumed to be a
        member): returns (k term, value).  Callers quantify over k."""
        k = self.coll.elem.fresh(it, name)
        with sampling(it, z3.Select(self.coll.arr, k)):
            v = self.fn(self.coll.elem.wrap(k))
        return k, v

    def as_coll(self, it):
        raise Unsupported("materialising a symbolic generator of non-elements")


class STup(Sym):
    """The `*args` tuple of a call whose only starred argument was a symbolic generator."""

    def __init__(self, gen: SGen):
        self.gen = gen
        self.t = None

    def length(self, it):
        return SLen(self.gen.coll)

    def truth(self, it):
        return self.gen.coll.nonempty(it)


class IntElem(Elem):
    def __init__(self):
        super().__init__(z3.IntSort(), "int")

    def wrap(self, t):
        return lift(t)

    def unwrap(self, v):
        return to_z3(v)


class StrElem(Elem):
    """string-keyed symbolic dicts / sets: elements are SStr (or Python str constants)"""

    def __init__(self):
        super().__init__(z3.StringSort(), "str")

    def wrap(self, t):
        return lift(t)

    def unwrap(self, v):
        if isinstance(v, str):
            return z3.StringVal(v)
        t = to_z3(v)
        if t.sort() != z3.StringSort():
            raise Unsupported(f"expected a string, got {v!r}")
        return t


def SRange(it, *a):
    """range(lo, hi) with symbolic bounds and step 1, as the collection {k | lo <= k < hi}."""
    if len(a) == 1:
        lo, hi = z3.IntVal(0), to_z3(a[0])
    elif len(a) == 2:
        lo, hi = to_z3(a[0]), to_z3(a[1])
    else:
        raise Unsupported("range() with symbolic bounds and an explicit step")
    if not (z3.is_int(lo) and z3.is_int(hi)):
        raise Unsupported("range() over non-integer symbolic bounds")
    k = z3.Int("rg!k")
    return SColl(IntElem(), z3.Lambda([k], z3.And(lo <= k, k < hi)))


# ----------------------------------------------------------------------------------------
# comprehensions over symbolic collections
# ----------------------------------------------------------------------------------------
def _single_gen(n):
    return len(n.generators) == 1 and not n.generators[0].is_async


def _inner_frame(it, fr):
    from .interp import Frame
    inner = Frame(fr.module, fr.func, fr)
    inner.globals_decl = fr.globals_decl
    return inner


def _bind_and_conds(it, g, inner, src, k):
    """Bind the comprehension target for element term k of source `src`; return the conjunction
    of the `if` clauses as a z3 term (must not fork)."""
    if isinstance(src, SItems):
        d = src.d
        val = d.vcodec.wrap([z3.Select(c, k) for c in d.cols])
        it.assign(g.target, (d.kelem.wrap(k), val), inner)
    elif isinstance(src, SValues):
        d = src.d
        it.assign(g.target, d.vcodec.wrap([z3.Select(c, k) for c in d.cols]), inner)
    elif isinstance(src, SDict):
        it.assign(g.target, src.kelem.wrap(k), inner)
    else:
        it.assign(g.target, src.elem.wrap(k), inner)
    conds = []
    for c in g.ifs:
        v = it.eval(c, inner)
        v = it.truth_value(v) if not isinstance(v, (bool, SBool)) else v
        conds.append(to_z3(v))
    return z3.And(*conds) if conds else z3.BoolVal(True)


def _src_parts(src):
    if isinstance(src, (SItems, SValues)):
        return src.d.kelem, src.d.dom
    if isinstance(src, SDict):
        return src.kelem, src.dom
    if isinstance(src, SColl):
        return src.elem, src.arr
    return None, None


def try_symbolic_genexp(it, n, fr):
    if not _single_gen(n):
        return None
    g = n.generators[0]
    src = it.eval(g.iter, fr)
    if isinstance(src, STup):
        # generator over *args built from another generator: compose
        outer = src.gen

        def fn(elem):
            inner = _inner_frame(it, fr)
            it.assign(g.target, outer.fn(elem), inner)
            return it.eval(n.elt, inner)
        if g.ifs:
            raise Unsupported("filtered generator over *args")
        return SGen(outer.coll, fn)
    elem, dom = _src_parts(src)
    if elem is None:
        return _concrete_genexp(it, n, fr, src)
    if g.ifs:
        raise Unsupported("filtered generator expression over a symbolic collection")
    coll = SColl(elem, dom)

    def fn(e):
        inner = _inner_frame(it, fr)
        _bind_and_conds(it, g, inner, src, e.t)
        return it.eval(n.elt, inner)
    return SGen(coll, fn)


def _concrete_genexp(it, n, fr, src):
    out = []
    it.comp(n.generators, 0, fr, lambda f: out.append(it.eval(n.elt, f)), pre=("concrete", src))
    return out


def try_symbolic_listcomp(it, n, fr):
    """[x for x in coll if cond(x)] -> filtered collection (element order abstracted)."""
    if not _single_gen(n):
        return None
    g = n.generators[0]
    src = it.eval(g.iter, fr)
    elem, dom = _src_parts(src)
    if elem is None:
        return ("concrete", src)
    import ast as _ast
    if not (isinstance(n.elt, _ast.Name) and isinstance(g.target, _ast.Name) and n.elt.id == g.target.id):
        raise Unsupported("list comprehension over a symbolic collection must be a filter")
    k = z3.Const("lc!" + elem.kind, elem.sort)
    inner = _inner_frame(it, fr)
    with sampling(it, z3.Select(dom, k)):
        cond = _bind_and_conds(it, g, inner, src, k)
    return ("sym", SColl(elem, z3.Lambda([k], z3.And(z3.Select(dom, k), cond))))


def try_symbolic_dictcomp(it, n, fr):
    if not _single_gen(n):
        return None
    g = n.generators[0]
    src = it.eval(g.iter, fr)
    elem, dom = _src_parts(src)
    if elem is None:
        return ("concrete", src)
    import ast as _ast
    k = z3.Const(it.ctx.fresh_name("dc!" + elem.kind), elem.sort)
    inner = _inner_frame(it, fr)
    with sampling(it, z3.Select(dom, k)):
        cond = _bind_and_conds(it, g, inner, src, k)
        key = it.eval(n.key, inner)
        if not (isinstance(key, SOpq) and z3.eq(key.t, k)):
            raise Unsupported("dict comprehension over a symbolic collection must be keyed by the loop variable")
        with sampling(it, cond):
            val = it.eval(n.value, inner)
    vcodec = guess_codec(it, val)
    cols = [z3.Lambda([k], t) for t in vcodec.unwrap(val)]
    return ("sym", SDict(elem, vcodec, z3.Lambda([k], z3.And(z3.Select(dom, k), cond)), cols))


def guess_codec(it, val):
    reg = getattr(it.e, "elems", {})
    if isinstance(val, SOpq):
        return elem_codec(reg[val.kind])
    if isinstance(val, SSet) or isinstance(val, SColl):
        return set_codec(val.elem)
    if isinstance(val, SDict):
        return dict_codec(val.kelem, val.vcodec)
    if isinstance(val, tuple):
        return tuple_codec(*[guess_codec(it, v) for v in val])
    if isinstance(val, dict) and not val and hasattr(it.e, "empty_dict_codec"):
        return it.e.empty_dict_codec
    raise Unsupported(f"cannot store {val!r} in a symbolic dict")


def set_algebra(it, kind, args):
    """set.union(*xs) / set.intersection(*xs) with a symbolic generator of sets."""
    if len(args) == 1 and isinstance(args[0], tuple) and args[0] and args[0][0] == "*sym":
        gen = args[0][1]
        k, v = gen.sample(it, "su")
        if not isinstance(v, SColl):
            raise Unsupported("set algebra over a generator of non-sets")
        x = z3.Const("sx!" + v.elem.kind, v.elem.sort)
        body = z3.Select(v.arr, x)
        mem = z3.Select(gen.coll.arr, k)
        if kind == "union":
            return SSet(v.elem, z3.Lambda([x], z3.Exists([k], z3.And(mem, body))))
        ne = gen.coll.nonempty(it)
        if not it.truth(ne):
            it.throw("TypeError", "descriptor 'intersection' of 'set' object needs an argument")
        return SSet(v.elem, z3.Lambda([x], z3.ForAll([k], z3.Implies(mem, body))))
    sets = list(args)
    if not sets:
        if kind == "union":
            return set()
        it.throw("TypeError", "descriptor 'intersection' of 'set' object needs an argument")
    r = sets[0]
    if isinstance(r, SColl):
        r = SSet(r.elem, r.arr)
    for s in sets[1:]:
        r = it.binop("|" if kind == "union" else "&", r, s)
    return r
