"""Models of Python builtins and of the few standard-library names the verified functions use."""
from __future__ import annotations

import z3

from .values import (SInt, SBool, SStr, SOpq, Sym, SObj, ClassVal, EnumVal, FlagVal, FuncVal,
                     BoundMethod, Builtin, ExtVal, ModuleRef, PyRaise, Unsupported, to_z3, lift,
                     is_symbolic)


def make_builtins(it):
    B = {}
    bc = it.e.bclasses

    def reg(name):
        def deco(f):
            B[name] = Builtin(name, f)
            return f
        return deco

    @reg("len")
    def _len(x):
        if isinstance(x, Sym) and hasattr(x, "length"):
            return x.length(it)
        if isinstance(x, SStr):
            return lift(z3.Length(x.t))
        if isinstance(x, SObj):
            f, _ = x.cls.lookup("__len__")
            if f is None:
                it.throw("TypeError", "object has no len()")
            return it.call(f, [x], {})
        if isinstance(x, ClassVal) and x.enum_kind:
            return len(x.members)
        try:
            return len(x)
        except TypeError:
            raise Unsupported(f"len of {x!r}")

    def class_matches(v, c) -> bool | SBool:
        if isinstance(c, tuple):
            if c and c[0] == "union":
                return class_matches_any(v, [c[1], c[2]])
            return class_matches_any(v, list(c))
        if c is None:
            return v is None
        if isinstance(c, Builtin) and c.name in bc:
            c = bc[c.name]
        if isinstance(c, ExtVal):
            h = it.e.ext_models.get("isinstance:" + c.name)
            if h is not None:
                return h(it, v)
            if isinstance(v, SObj):
                return any(b.name == c.name for b in v.cls.mro())
            if isinstance(v, (int, str, bool, float, list, tuple, dict, set)) or v is None or isinstance(v, (SInt, SBool, SStr)):
                return False
            raise Unsupported(f"isinstance against external {c.name} for {v!r}")
        if not isinstance(c, ClassVal):
            raise Unsupported(f"isinstance against {c!r}")
        if isinstance(v, Sym) and hasattr(v, "isinstance"):
            r = v.isinstance(it, c)
            if r is not NotImplemented:
                return r
        if isinstance(v, SObj):
            return v.cls.is_subclass(c)
        if isinstance(v, (EnumVal, FlagVal)):
            return v.cls.is_subclass(c)
        n = c.name if c.builtin else None
        if n is None:
            return False
        if n == "object":
            return True
        if isinstance(v, (bool, SBool)):
            return n in ("bool", "int")
        if isinstance(v, (SInt,)) or (isinstance(v, int)):
            return n == "int"
        if isinstance(v, (str, SStr)):
            return n == "str"
        if isinstance(v, float):
            return n == "float"
        if v is None:
            return n == "NoneType"
        if isinstance(v, list):
            return n in ("list", "Sequence", "Iterable")
        if isinstance(v, tuple):
            return n in ("tuple", "Sequence", "Iterable")
        if isinstance(v, dict):
            return n in ("dict", "Mapping", "Iterable")
        if isinstance(v, (set, frozenset)):
            return n in ("set", "frozenset", "Iterable")
        if isinstance(v, (FuncVal, BoundMethod, Builtin)):
            return n in ("Callable",)
        if isinstance(v, ClassVal):
            return n == "type"
        return False

    def class_matches_any(v, cs):
        res = False
        for c in cs:
            r = class_matches(v, c)
            if r is True:
                return True
            if isinstance(r, SBool):
                res = r if res is False else lift(z3.Or(res.t, r.t))
        return res

    @reg("isinstance")
    def _isinstance(v, c):
        return class_matches(v, c)

    @reg("issubclass")
    def _issubclass(a, b):
        if isinstance(b, tuple):
            return any(_issubclass(a, x) for x in b)
        if isinstance(a, ClassVal) and isinstance(b, ClassVal):
            return a.is_subclass(b)
        raise Unsupported("issubclass")

    @reg("type")
    def _type(v):
        if isinstance(v, SObj):
            return v.cls
        if isinstance(v, (EnumVal, FlagVal)):
            return v.cls
        if isinstance(v, (bool, SBool)):
            return bc["bool"]
        if isinstance(v, (int, SInt)):
            return bc["int"]
        if isinstance(v, (str, SStr)):
            return bc["str"]
        if isinstance(v, float):
            return bc["float"]
        if isinstance(v, list):
            return bc["list"]
        if isinstance(v, tuple):
            return bc["tuple"]
        if isinstance(v, dict):
            return bc["dict"]
        if v is None:
            return bc["NoneType"]
        if isinstance(v, Sym) and hasattr(v, "pytype"):
            return v.pytype(it)
        raise Unsupported(f"type({v!r})")

    def minmax(name, pick_second):
        def f(*args, key=None, default=None):
            if len(args) == 1 and key is None and default is None and isinstance(args[0], Sym) and hasattr(args[0], "reduce_min"):
                return args[0].reduce_min(it, name)
            if len(args) == 1 and key is not None and isinstance(args[0], Sym) and type(args[0]).__name__ in ("SSet", "SColl"):
                # min / max of a SYMBOLIC set under a key: which element wins depends on keys the proof does
                # not track; the result is modelled as an arbitrary element of the set (an over-approximation:
                # whatever is proved holds for every choice)
                c_ = args[0]
                if not it.truth(c_.nonempty(it)):
                    it.throw("ValueError", f"{name}() arg is an empty sequence")
                x_ = c_.elem.fresh(it, "selected")
                it.ctx.assume(z3.Select(c_.arr, x_))
                return c_.elem.wrap(x_)
            items = it.iterate(args[0]) if len(args) == 1 else list(args)
            if not items:
                if default is not None:
                    return default
                it.throw("ValueError", f"{name}() arg is an empty sequence")
            best = items[0]
            bk = it.call(key, [best], {}) if key else best
            for x in items[1:]:
                xk = it.call(key, [x], {}) if key else x
                # python: max keeps the first maximal, min keeps the first minimal
                c = it.cmp(">" if name == "max" else "<", xk, bk)
                if isinstance(c, SBool) and _scalar(best) and _scalar(x):
                    best = lift(z3.If(c.t, to_z3(x), to_z3(best)))
                    bk = lift(z3.If(c.t, to_z3(xk), to_z3(bk))) if _scalar(xk) and _scalar(bk) else bk
                    continue
                if it.truth(c):
                    best, bk = x, xk
            if getattr(it.e, "let_bind", False) and isinstance(best, SInt) and not z3.is_const(best.t):
                # name the result (definitional equation) so that later terms stay small
                v = z3.Int(it.ctx.fresh_name(name))
                it.ctx.assume(v == best.t)
                return lift(v)
            return best
        return f
    B["max"] = Builtin("max", minmax("max", True))
    B["min"] = Builtin("min", minmax("min", False))

    @reg("abs")
    def _abs(x):
        if isinstance(x, SInt):
            return lift(z3.If(x.t >= 0, x.t, -x.t))
        if isinstance(x, SObj):
            return it.call_method(x, "__abs__", [])
        return abs(x)

    @reg("all")
    def _all(xs):
        items = it.iterate(xs)
        vals = [it.truth_value(x) for x in items]
        if any(v is False for v in vals):
            return False
        sym = [v.t for v in vals if isinstance(v, SBool)]
        return lift(z3.And(*sym)) if sym else True

    @reg("any")
    def _any(xs):
        items = it.iterate(xs)
        vals = [it.truth_value(x) for x in items]
        if any(v is True for v in vals):
            return True
        sym = [v.t for v in vals if isinstance(v, SBool)]
        return lift(z3.Or(*sym)) if sym else False

    @reg("sum")
    def _sum(xs, start=0):
        acc = start
        for x in it.iterate(xs):
            acc = it.binop("+", acc, x)
        return acc

    @reg("range")
    def _range(*a):
        if any(is_symbolic(x) for x in a):
            from .symcoll import SRange
            return SRange(it, *a)
        return range(*a)

    @reg("zip")
    def _zip(*xs, strict=False):
        ls = [it.iterate(x) for x in xs]
        if strict and len({len(l) for l in ls}) > 1:
            it.throw("ValueError", "zip() arguments have different lengths")
        return list(zip(*ls))

    @reg("enumerate")
    def _enum(xs, start=0):
        if isinstance(start, SInt):
            return [(lift(start.t + i), x) for i, x in enumerate(it.iterate(xs))]
        return list(enumerate(it.iterate(xs), start))

    @reg("reversed")
    def _rev(xs):
        return list(reversed(it.iterate(xs)))

    @reg("sorted")
    def _sorted(xs, key=None, reverse=False):
        items = it.iterate(xs)
        if getattr(key, "cmpfn", None) is not None:
            # sorted(key=functools.cmp_to_key(cmp)): K(x) < K(y) <=> cmp(x, y) < 0; stable insertion sort
            # (any stable comparison sort gives this result when cmp is a consistent total preorder)
            out2: list = []
            for x in items:
                pos = len(out2)
                for j in range(len(out2)):
                    if it.truth(it.cmp("<", it.call(key.cmpfn, [x, out2[j]], {}), 0)):
                        pos = j
                        break
                out2.insert(pos, x)
            if reverse:
                out2.reverse()
            return out2
        ks = [it.call(key, [x], {}) if key else x for x in items]
        if any(is_symbolic(k) or isinstance(k, SObj) for k in ks):
            # insertion sort with forking comparisons (stable)
            out: list = []
            for x, k in zip(items, ks):
                pos = len(out)
                for j in range(len(out)):
                    if it.truth(it.cmp("<", k, out[j][1])):
                        pos = j
                        break
                out.insert(pos, (x, k))
            res = [x for x, _ in out]
        else:
            order = sorted(range(len(items)), key=lambda i: ks[i])
            res = [items[i] for i in order]
        if reverse:
            res.reverse()
        return res

    @reg("list")
    def _list(xs=()):
        return list(it.iterate(xs))

    @reg("tuple")
    def _tuple(xs=()):
        return tuple(it.iterate(xs))

    @reg("set")
    def _set(xs=()):
        if isinstance(xs, Sym) and hasattr(xs, "to_set"):
            return xs.to_set(it)
        return set(it.hashable(x) for x in it.iterate(xs))

    @reg("frozenset")
    def _fset(xs=()):
        return frozenset(it.hashable(x) for x in it.iterate(xs))

    @reg("dict")
    def _dict(xs=(), **kw):
        d = {}
        if isinstance(xs, dict):
            d.update(xs)
        else:
            for k, v in it.iterate(xs):
                d[it.hashable(k)] = v
        d.update(kw)
        return d

    @reg("str")
    def _str(x=""):
        return it.to_str(x)

    @reg("repr")
    def _repr(x):
        if isinstance(x, SObj):
            f, _ = x.cls.lookup("__repr__")
            if f is not None:
                return it.call(f, [x], {})
            return f"<{x.cls.name} object>"
        if isinstance(x, Sym):
            if isinstance(x, SStr):
                raise Unsupported("repr of symbolic string")
            return it.to_str(x)
        return repr(x)

    @reg("int")
    def _int(x=0, base=None):
        if isinstance(x, SInt):
            return x
        if isinstance(x, SBool):
            return lift(z3.If(x.t, z3.IntVal(1), z3.IntVal(0)))
        if isinstance(x, SStr):
            raise Unsupported("int() of a symbolic string")
        if isinstance(x, SObj):
            return it.call_method(x, "__int__", [])
        try:
            return int(x) if base is None else int(x, base)
        except ValueError as ex:
            it.throw("ValueError", *ex.args)

    @reg("bool")
    def _bool(x=False):
        return it.truth_value(x) if isinstance(x, (bool, SBool)) else it.truth(x)

    @reg("float")
    def _float(x=0.0):
        if is_symbolic(x):
            raise Unsupported("float() of symbolic value")
        return float(x)

    @reg("getattr")
    def _getattr(o, name, *default):
        if isinstance(name, SStr):
            raise Unsupported("getattr with symbolic name")
        it._probing = bool(default)      # getattr with a default probes: a stub without the attribute answers AttributeError
        try:
            return it.getattr(o, name)
        except PyRaise as pr:
            if default and pr.exc.cls.is_subclass(bc["AttributeError"]):
                return default[0]
            raise
        finally:
            it._probing = False

    @reg("setattr")
    def _setattr(o, name, v):
        it.setattr(o, name, v)

    @reg("delattr")
    def _delattr(o, name):
        if isinstance(o, SObj) and name in o.fields:
            del o.fields[name]
            return
        it.throw("AttributeError", name)

    @reg("hasattr")
    def _hasattr(o, name):
        it._probing = True
        try:
            it.getattr(o, name)
            return True
        except PyRaise as pr:
            if pr.exc.cls.is_subclass(bc["AttributeError"]):
                return False
            raise
        finally:
            it._probing = False

    @reg("callable")
    def _callable(o):
        return isinstance(o, (FuncVal, BoundMethod, Builtin, ClassVal)) or (
            isinstance(o, SObj) and o.cls.lookup("__call__")[0] is not None)

    @reg("print")
    def _print(*a, **k):
        return None

    @reg("id")
    def _id(o):
        if isinstance(o, SObj):
            return o.oid
        if isinstance(o, Sym) and hasattr(o, "identity"):
            return o.identity(it)
        return id(o)

    @reg("hash")
    def _hash(o):
        raise Unsupported("hash()")

    @reg("iter")
    def _iter(o):
        return list(it.iterate(o))

    @reg("next")
    def _next(o, *default):
        if isinstance(o, Counter):
            v = o.n
            o.n += o.step
            return v
        if isinstance(o, list):
            if o:
                return o.pop(0)
            if default:
                return default[0]
            it.throw("StopIteration")
        raise Unsupported("next()")

    @reg("divmod")
    def _divmod(a, b):
        return (it.binop("//", a, b), it.binop("%", a, b))

    @reg("pow")
    def _pow(a, b, m=None):
        if m is not None:
            raise Unsupported("3-arg pow")
        return it.binop("**", a, b)

    @reg("round")
    def _round(x, n=None):
        if is_symbolic(x):
            raise Unsupported("round of symbolic")
        return round(x, n) if n is not None else round(x)

    @reg("ord")
    def _ord(c):
        if is_symbolic(c):
            raise Unsupported("ord symbolic")
        return ord(c)

    @reg("chr")
    def _chr(c):
        if is_symbolic(c):
            raise Unsupported("chr symbolic")
        return chr(c)

    @reg("vars")
    def _vars(o):
        if isinstance(o, SObj):
            return o.fields
        raise Unsupported("vars")

    @reg("map")
    def _map(f, *xs):
        ls = [it.iterate(x) for x in xs]
        return [it.call(f, list(a), {}) for a in zip(*ls)]

    @reg("filter")
    def _filter(f, xs):
        return [x for x in it.iterate(xs) if it.truth(it.call(f, [x], {}) if f is not None else x)]

    B["super"] = Builtin("super", lambda *a: (_ for _ in ()).throw(Unsupported("super(args)")))
    B["NotImplemented"] = NotImplemented
    B["Ellipsis"] = Ellipsis
    B["True"] = True
    B["False"] = False
    B["None"] = None
    B["__name__"] = "__pyvc__"
    B["staticmethod"] = Builtin("staticmethod", lambda f: f)
    B["classmethod"] = Builtin("classmethod", lambda f: f)
    B["property"] = Builtin("property", lambda f: f)
    return B


class Counter:
    """itertools.count"""

    def __init__(self, start=0, step=1):
        self.n = start
        self.step = step


def _scalar(v):
    return isinstance(v, (SInt, SBool, SStr, int, bool, str)) and not isinstance(v, SObj)


# ----------------------------------------------------------------------------------------
# standard-library names
# ----------------------------------------------------------------------------------------
def external(it, qual: str):
    bc = it.e.bclasses
    mod, _, name = qual.rpartition(".")
    if mod == "ast":
        from .astmodel import external_ast
        v = external_ast(it, name)
        if v is not None:
            return v
        return ExtVal(qual)
    if mod in ("typing", "typing_extensions", "collections.abc", "abc", "types"):
        if name in bc:
            return bc[name]
        if name == "TYPE_CHECKING":
            return False
        if name == "cast":
            return Builtin("cast", lambda t, v: v)
        if name in ("abstractmethod", "overload", "final", "override", "no_type_check"):
            return Builtin(name, lambda f: f)
        if name == "TypeVar" or name == "ParamSpec":
            return Builtin(name, lambda *a, **k: ExtVal("typing.TypeVar"))
        if name == "NamedTuple":
            return bc["NamedTuple"]
        return ExtVal(qual)
    if qual == "collections.deque":
        from .values import Deque
        return Builtin("collections.deque", lambda xs=(): Deque(it.iterate(xs)))
    if mod == "dataclasses":
        if name == "replace":
            return Builtin("dataclasses.replace", lambda o, **ch: dc_replace(it, o, ch))
        if name == "fields":
            return Builtin("dataclasses.fields", lambda o: dc_fields(it, o))
        if name in ("dataclass", "field"):
            return ExtVal(qual)
        if name == "is_dataclass":
            return Builtin(name, lambda o: isinstance(o, SObj) and any(c.dataclass for c in o.cls.mro()))
    if mod == "enum":
        if name in bc:
            return bc[name]
        return ExtVal(qual)
    if mod == "contextlib":
        if name == "suppress":
            from .loops import NativeCM

            def suppress(*classes):
                def ex(exc):
                    return exc is not None and any(exc.cls.is_subclass(c) for c in classes)
                return NativeCM(lambda: None, ex)
            return Builtin("suppress", suppress)
        if name == "contextmanager":
            return Builtin("contextmanager", lambda f: f)
        if name == "nullcontext":
            from .loops import NativeCM
            return Builtin("nullcontext", lambda v=None: NativeCM(lambda: v, lambda exc: False))
    if mod == "functools":
        if name in ("cache", "lru_cache"):
            # memoisation is observable (identity of the returned object): model it faithfully
            def cache(f=None, **kw):
                if f is None or not isinstance(f, (FuncVal, BoundMethod, Builtin)):
                    return Builtin(name, lambda g: cache(g))
                memo = it.ctx.ghost.setdefault(("functools.cache", id(f.node) if isinstance(f, FuncVal) else id(f)), {})

                def call(*a, **k):
                    key = (tuple(a), tuple(sorted(k.items())))
                    try:
                        hash(key)
                    except TypeError:
                        raise Unsupported("functools.cache with unhashable arguments")
                    if any(is_symbolic(x) for x in a) or any(is_symbolic(x) for x in k.values()):
                        raise Unsupported("functools.cache with symbolic arguments")
                    if key not in memo:
                        memo[key] = it.call(f, list(a), dict(k))
                    return memo[key]
                return Builtin(f"cached:{getattr(f, 'qualname', name)}", call)
            return Builtin(name, cache)
        if name == "cmp_to_key":
            def cmp_to_key(f):
                k = Builtin("cmp_to_key-key", lambda x: (_ for _ in ()).throw(Unsupported("cmp_to_key key object used outside sorted()")))
                k.cmpfn = f
                return k
            return Builtin("cmp_to_key", cmp_to_key)
        if name == "total_ordering":
            def total_ordering(c):
                if isinstance(c, ClassVal):
                    c.total_ordering = True
                return c
            return Builtin("total_ordering", total_ordering)
        if name in ("cached_property", "wraps"):
            return Builtin(name, lambda f=None, **k: f)
        if name == "reduce":
            def reduce(f, xs, *init):
                items = it.iterate(xs)
                acc = init[0] if init else items.pop(0)
                for x in items:
                    acc = it.call(f, [acc, x], {})
                return acc
            return Builtin("reduce", reduce)
    if mod == "itertools":
        if name == "chain":
            return Builtin("chain", lambda *xs: [y for x in xs for y in it.iterate(x)])
        if name == "count":
            return Builtin("itertools.count", lambda start=0, step=1: Counter(start, step))
    if mod == "textwrap" and name == "dedent":
        import textwrap as _tw

        def dedent(s):
            if not isinstance(s, str):
                raise Unsupported("textwrap.dedent of a symbolic string")
            return _tw.dedent(s)
        return Builtin("textwrap.dedent", dedent)
    if mod == "copy":
        if name in ("copy",):
            return Builtin("copy.copy", lambda o: shallow_copy(it, o))
        if name == "deepcopy":
            return Builtin("copy.deepcopy", lambda o, memo=None: deep_copy(it, o, {}))
    if mod == "builtins":
        if name in it.builtins:
            return it.builtins[name]
    if mod == "" and name in ("ast", "builtins", "sys", "os", "itertools", "functools", "copy", "dataclasses", "typing", "contextlib", "textwrap", "inspect"):
        return ExtVal(name)
    return None


def dc_replace(it, o, changes):
    if not isinstance(o, SObj):
        raise Unsupported("dataclasses.replace on non-object")
    fields = o.cls.dc_fields()
    kw = {}
    for n in fields:
        from .classes import _field_init
        if not _field_init(o.cls, n):
            continue
        kw[n] = o.fields[n] if n in o.fields else it.getattr(o, n)
    for k, v in changes.items():
        if k not in fields:
            it.throw("TypeError", f"replace() got an unexpected field name '{k}'")
        kw[k] = v
    return it.call(o.cls, [], kw)


def dc_fields(it, o):
    cls = o.cls if isinstance(o, SObj) else o
    out = []
    for n in cls.dc_fields():
        f = SObj(it.e.bclasses["object"], {"name": n})
        out.append(f)
    return tuple(out)


def deep_copy(it, o, memo):
    """copy.deepcopy on interpreter values: containers and objects are duplicated (sharing inside
    the copied graph is preserved), symbolic leaves and immutable scalars are shared."""
    k = id(o)
    if k in memo:
        return memo[k]
    if isinstance(o, SObj):
        if o.cls.lookup("__deepcopy__")[0] is not None:
            raise Unsupported("user-defined __deepcopy__")
        c = SObj(o.cls, {})
        memo[k] = c
        for f, v in o.fields.items():
            c.fields[f] = deep_copy(it, v, memo)
        return c
    if isinstance(o, list):
        c = []
        memo[k] = c
        c.extend(deep_copy(it, x, memo) for x in o)
        return c
    if isinstance(o, tuple):
        return tuple(deep_copy(it, x, memo) for x in o)
    if isinstance(o, dict):
        c = {}
        memo[k] = c
        for kk, v in o.items():
            c[kk] = deep_copy(it, v, memo)
        return c
    if isinstance(o, set):
        return set(o)
    return o


def shallow_copy(it, o):
    if isinstance(o, SObj):
        c = SObj(o.cls, dict(o.fields))
        return c
    if isinstance(o, (list, dict, set)):
        return o.copy()
    if isinstance(o, Sym) and hasattr(o, "copy"):
        return o.copy(it)
    return o
