"""Attribute and item access."""
from __future__ import annotations

import z3

from .values import (SInt, SBool, SStr, SOpq, Sym, SObj, ClassVal, EnumVal, FlagVal, FuncVal,
                     BoundMethod, Builtin, ExtVal, ModuleRef, PyRaise, Unsupported, to_z3, lift,
                     is_symbolic)


def _bind(it, f, o, owner_cls=None):
    if isinstance(f, FuncVal):
        if f.kind == "function":
            return BoundMethod(f, o)
        if f.kind == "staticmethod":
            return f
        if f.kind == "classmethod":
            return BoundMethod(f, owner_cls if owner_cls is not None else (o.cls if isinstance(o, SObj) else o))
        if f.kind == "property":
            return it.call(f, [o], {})
    return f


def get_attr(it, o, name):
    if isinstance(o, SObj):
        if name in o.fields:
            return o.fields[name]
        if name == "__class__":
            return o.cls
        if name == "__dict__":
            return o.fields
        f, owner = o.cls.lookup(name)
        if f is not None or (owner is not None):
            if isinstance(f, tuple) and f and f[0] == "field":
                pass
            else:
                if isinstance(f, FuncVal) and f.kind == "property" and _is_cached(f):
                    v = it.call(f, [o], {})
                    o.fields[name] = v
                    return v
                return _bind(it, f, o)
        if name == "args" and any(c.name == "BaseException" for c in o.cls.mro()):
            return ()
        ga, _ = o.cls.lookup("__getattr__")
        if ga is not None:
            return it.call(ga, [o, name], {})
        if name in ("__setattr__", "__delattr__", "__getattribute__", "__init__", "__eq__", "__hash__", "__repr__", "__str__", "__ne__"):
            return _object_method(it, name, o)
        if o.cls.builtin and not getattr(it, "_probing", False):
            # a harness stub that does not model this attribute: a limit of the harness, not an
            # AttributeError of the program under verification
            raise Unsupported(f"attribute {name} of the stub object {o.cls.name}")
        raise PyRaise(it.make_exc("AttributeError", f"'{o.cls.name}' object has no attribute '{name}'"))
    if isinstance(o, ClassVal):
        if name == "__name__":
            return o.name
        if name == "__qualname__":
            return o.qualname
        if name == "__mro__":
            return tuple(o.mro())
        if name == "__members__" and o.enum_kind:
            return dict(o.members)
        f, owner = o.lookup(name)
        if f is not None or owner is not None:
            if isinstance(f, FuncVal) and f.kind == "classmethod":
                return BoundMethod(f, o)
            return f
        if name in ("__setattr__", "__getattribute__", "__init__", "__new__", "__eq__", "__hash__"):
            return _object_method(it, name, None)
        if o.builtin:
            return ExtVal(f"{o.name}.{name}")
        raise PyRaise(it.make_exc("AttributeError", f"type object '{o.name}' has no attribute '{name}'"))
    if isinstance(o, ModuleRef):
        sub = it.e.module(o.module.name + "." + name)
        if name not in o.module.defs and sub is not None:
            return ModuleRef(sub)
        return it.lookup_global(o.module, name)
    if isinstance(o, tuple) and len(o) == 3 and o[0] == "super":
        _, after, inst = o
        cls = inst.cls if isinstance(inst, SObj) else inst
        mro = cls.mro()
        idx = mro.index(after)
        for c in mro[idx + 1:]:
            if name in c.attrs:
                f = c.attrs[name]
                if isinstance(f, FuncVal) and f.kind == "classmethod":
                    return BoundMethod(f, cls)
                return _bind(it, f, inst)
        if name == "__init__" and isinstance(inst, SObj):
            astbase = next((c for c in mro[idx + 1:] if getattr(c, "is_ast", False)), None)
            if astbase is not None:
                # ast.AST.__init__: positional arguments fill _fields in order, keywords set attributes
                def ast_init(*a, **k):
                    fields, _ = inst.cls.lookup("_fields")      # type(self)._fields, as CPython does
                    if len(a) > len(fields):
                        it.throw("TypeError", f"{astbase.name} constructor takes at most {len(fields)} positional arguments")
                    for n, v in zip(fields, a):
                        inst.fields[n] = v
                    for kk, v in k.items():
                        inst.fields[kk] = v
                return Builtin("ast.AST.__init__", ast_init)
        if name == "__init__" and isinstance(inst, SObj):
            dcbase = next((c for c in mro[idx + 1:] if c.dataclass is not None and c.dataclass.get("init", True)), None)
            if dcbase is not None:
                # the __init__ synthesised by @dataclass for the base class
                def dc_init(*a, **k):
                    from .classes import _dataclass_init
                    _dataclass_init(it, inst, dcbase, list(a), dict(k))
                    post, _ = dcbase.lookup("__post_init__")
                    if post is not None:
                        it.call(post, [inst], {})
                return Builtin("dataclass.__init__", dc_init)
        if name in ("__init__", "__post_init__", "__init_subclass__"):
            return Builtin(name, lambda *a, **k: None)
        if name in ("__setattr__",):
            return Builtin(name, lambda k, v: inst.fields.__setitem__(k, v))
        raise PyRaise(it.make_exc("AttributeError", f"super has no attribute {name}"))
    if isinstance(o, SOpq):
        h = it.e.opaque_attr.get(o.kind)
        if h is None:
            raise Unsupported(f"attribute {name} of opaque {o.kind}")
        return h(it, o, name)
    if isinstance(o, Sym) and hasattr(o, "getattr"):
        return o.getattr(it, name)
    if isinstance(o, EnumVal):
        if name == "name":
            return o.name
        if name == "value":
            return o.value
        f, _ = o.cls.lookup(name)
        if f is not None:
            return _bind(it, f, o)
        raise PyRaise(it.make_exc("AttributeError", name))
    if isinstance(o, FlagVal):
        if name == "value":
            return o.value
        if name == "name":
            for m in o.cls.members.values():
                if m.value == o.value:
                    return m.name
            return None
        f, _ = o.cls.lookup(name)
        if f is not None:
            return _bind(it, f, o)
        raise PyRaise(it.make_exc("AttributeError", name))
    if isinstance(o, ExtVal):
        q = f"{o.name}.{name}"
        return it.external(q)
    if isinstance(o, FuncVal):
        if name == "__name__":
            return o.node.name if hasattr(o.node, "name") else "<lambda>"
        if name == "__qualname__":
            return o.qualname
        if name == "__globals__":
            return it.ctx.mod_globals(o.module)
        if name == "__doc__":
            import ast
            return ast.get_docstring(o.node) if hasattr(o.node, "body") and isinstance(o.node.body, list) else None
        raise Unsupported(f"function attribute {name}")
    if isinstance(o, BoundMethod):
        if name == "__self__":
            return o.self_val
        if name == "__func__":
            return o.func
        return get_attr(it, o.func, name)
    if isinstance(o, Builtin) and o.name == "list" and name == "__setitem__":
        # the unbound method of the builtin class, applied to a concrete list at a concrete index
        def list_setitem(lst, i, v):
            if not isinstance(lst, list) or not isinstance(i, int) or isinstance(i, bool):
                raise Unsupported("list.__setitem__ on a non-list receiver or a symbolic index")
            lst[i] = v
            return None
        return Builtin("list.__setitem__", list_setitem)
    if isinstance(o, Builtin) and o.name == "dict" and name == "fromkeys":
        return Builtin("dict.fromkeys", lambda keys, value=None: {it.hashable(k): value for k in it.iterate(keys)})
    if isinstance(o, Builtin) and o.name in ("set", "frozenset") and name in ("union", "intersection"):
        from .symcoll import set_algebra
        return Builtin(f"set.{name}", lambda *a: set_algebra(it, name, list(a)))
    if isinstance(o, Builtin) and o.name in ("set", "frozenset") and name in ("issubset", "issuperset", "isdisjoint"):
        def setrel(a, b, name=name):
            from .values import is_symbolic
            def conc(x):
                if isinstance(x, (set, frozenset, list, tuple)) or type(x).__name__ in ("dict_keys",):
                    xs = list(x)
                    if any(is_symbolic(v) or isinstance(v, SObj) for v in xs):
                        raise Unsupported(f"set.{name} over symbolic / heap members")
                    return set(xs)
                raise Unsupported(f"set.{name} of {x!r}")
            return getattr(conc(a), name)(conc(b))
        return Builtin(f"set.{name}", setrel)
    if isinstance(o, SStr):
        return _sstr_method(it, o, name)
    if isinstance(o, SInt):
        if name in ("real", "numerator"):
            return o
        if name == "bit_length":
            return Builtin("int.bit_length", lambda: _bit_length(it, o))
        raise Unsupported(f"int attribute {name}")
    if isinstance(o, (str, list, dict, tuple, set, frozenset, int, float, bool, range)) or o is None:
        return _native_method(it, o, name)
    if type(o).__name__ in ("dict_keys", "dict_values", "dict_items"):
        return _native_method(it, o, name)
    raise Unsupported(f"attribute {name} of {o!r}")


def _is_cached(f: FuncVal) -> bool:
    from .interp import _dotted
    import ast
    return any(_dotted(d.func if isinstance(d, ast.Call) else d).split(".")[-1] == "cached_property"
               for d in f.decorators)


def _object_method(it, name, o):
    if name == "__setattr__":
        def f(*a):
            if o is None:
                obj, k, v = a
            else:
                k, v = a
                obj = o
            obj.fields[k] = v
        return Builtin("object.__setattr__", f)
    if name == "__init__":
        return Builtin("object.__init__", lambda *a, **k: None)
    if name == "__eq__":
        return Builtin("object.__eq__", lambda *a: a[-2] is a[-1] if o is None else o is a[0])
    raise Unsupported(f"object.{name}")


def _native_method(it, o, name):
    """Methods of concrete Python containers / scalars holding interpreter values."""
    from .values import Deque
    if isinstance(o, Deque) and name in ("popleft", "appendleft"):
        def dq(*args):
            if name == "appendleft":
                o.insert(0, args[0])
                return None
            if not o:
                raise PyRaise(it.make_exc("IndexError", "pop from an empty deque"))
            return o.pop(0)
        return Builtin(f"deque.{name}", dq)
    if name in ("keys", "values", "items", "get", "append", "extend", "pop", "insert", "copy",
                "update", "add", "discard", "remove", "clear", "setdefault", "index", "count",
                "union", "intersection", "difference", "issubset", "issuperset", "isdisjoint",
                "reverse", "popitem", "symmetric_difference", "difference_update",
                "intersection_update"):
        real = getattr(o, name, None)
        if real is None:
            raise PyRaise(it.make_exc("AttributeError", name))

        def call(*args, **kwargs):
            if name == "pop" and isinstance(o, set) and not args:
                # set.pop() returns an unspecified element: canonical choice, reversed on demand
                if not o:
                    raise PyRaise(it.make_exc("KeyError", "pop from an empty set"))
                items = it.iterate(o)
                o.discard(items[0])
                return items[0]
            for a in args:
                if is_symbolic(a) and not isinstance(a, SOpq):
                    if name in ("append", "extend", "insert", "setdefault", "get", "update") and not (
                            name in ("get", "setdefault") and is_symbolic(args[0])):
                        continue
                    raise Unsupported(f"{type(o).__name__}.{name} with symbolic argument")
            try:
                if name in ("update", "extend", "union", "intersection", "difference", "issubset", "issuperset") and args:
                    args = tuple(it.iterate(a) if not isinstance(a, (dict, set, frozenset)) else a for a in args)
                    if name == "update" and isinstance(o, dict):
                        args = tuple(dict(a) if not isinstance(a, dict) else a for a in args)
                return real(*args, **kwargs)
            except KeyError as ex:
                raise PyRaise(it.make_exc("KeyError", *ex.args))
            except IndexError as ex:
                raise PyRaise(it.make_exc("IndexError", *ex.args))
            except ValueError as ex:
                raise PyRaise(it.make_exc("ValueError", *ex.args))
        return Builtin(f"{type(o).__name__}.{name}", call)
    if name == "sort" and isinstance(o, list):
        def sort(key=None, reverse=False):
            res = it.builtins["sorted"].fn(o, key=key, reverse=reverse)
            o[:] = res
        return Builtin("list.sort", sort)
    if isinstance(o, str):
        real = getattr(o, name, None)
        if real is None:
            raise PyRaise(it.make_exc("AttributeError", name))

        def scall(*args, **kwargs):
            if any(isinstance(a, SStr) for a in args):
                return it.call(_sstr_method(it, SStr(z3.StringVal(o)), name), list(args), kwargs)
            if name == "join":
                items = it.iterate(args[0])
                if any(isinstance(x, SStr) for x in items):
                    parts = []
                    for i, x in enumerate(items):
                        if i:
                            parts.append(z3.StringVal(o))
                        parts.append(to_z3(x))
                    return lift(z3.Concat(*parts)) if len(parts) > 1 else (items[0] if items else "")
                return o.join(items)
            if name == "format":
                if any(is_symbolic(a) for a in list(args) + list(kwargs.values())):
                    raise Unsupported("str.format with symbolic arguments")
            try:
                return real(*args, **kwargs)
            except (ValueError, KeyError, IndexError) as ex:
                raise PyRaise(it.make_exc(type(ex).__name__, *ex.args))
        return Builtin(f"str.{name}", scall)
    if isinstance(o, (int, float)) and not isinstance(o, bool) or isinstance(o, bool):
        real = getattr(o, name, None)
        if real is not None:
            if callable(real):
                return Builtin(f"{type(o).__name__}.{name}", real)
            return real
    if isinstance(o, tuple):
        real = getattr(o, name, None)
        if real is not None:
            return Builtin(f"tuple.{name}", real)
    if isinstance(o, (list, dict, tuple)) and name in ("__getitem__", "__contains__", "__len__", "__iter__"):
        # bound item protocol of a container (e.g. `key=xs.__getitem__`): route through the interpreter's own protocols
        return Builtin(f"{type(o).__name__}.{name}", {"__getitem__": lambda k: it.getitem(o, k), "__contains__": lambda x: it.contains(o, x),
                                                      "__len__": lambda: len(o), "__iter__": lambda: list(it.iterate(o))}[name])
    if isinstance(o, (list, dict, set, frozenset, tuple)) and hasattr(o, name):
        # a real attribute of a Python container that the model does not cover: not a program error
        raise Unsupported(f"attribute {name} of {type(o).__name__}")
    raise PyRaise(it.make_exc("AttributeError", f"'{type(o).__name__}' object has no attribute '{name}'"))


def _sstr_method(it, s: SStr, name):
    t = s.t
    if name == "startswith":
        def f(p, *rest):
            if rest:
                raise Unsupported("startswith with offsets")
            if isinstance(p, tuple):
                return lift(z3.Or(*[z3.PrefixOf(to_z3(x), t) for x in p]))
            return lift(z3.PrefixOf(to_z3(p), t))
        return Builtin("str.startswith", f)
    if name == "endswith":
        def f(p):
            if isinstance(p, tuple):
                return lift(z3.Or(*[z3.SuffixOf(to_z3(x), t) for x in p]))
            return lift(z3.SuffixOf(to_z3(p), t))
        return Builtin("str.endswith", f)
    if name == "removeprefix":
        def f(p):
            pz = to_z3(p)
            return lift(z3.If(z3.PrefixOf(pz, t), z3.SubString(t, z3.Length(pz), z3.Length(t) - z3.Length(pz)), t))
        return Builtin("str.removeprefix", f)
    if name == "removesuffix":
        def f(p):
            pz = to_z3(p)
            return lift(z3.If(z3.SuffixOf(pz, t), z3.SubString(t, 0, z3.Length(t) - z3.Length(pz)), t))
        return Builtin("str.removesuffix", f)
    if name == "find":
        return Builtin("str.find", lambda p: lift(z3.IndexOf(t, to_z3(p), 0)))
    if name == "replace":
        raise Unsupported("str.replace (replace-all) on symbolic string")
    raise Unsupported(f"str.{name} on symbolic string")


def set_attr(it, o, name, v):
    if isinstance(o, SObj):
        sa, owner = o.cls.lookup("__setattr__")
        if sa is not None and not getattr(o, "_in_setattr", False) and not o.frozen_ok:
            o._in_setattr = True
            try:
                it.call(sa, [o, name, v], {})
            finally:
                o._in_setattr = False
            return
        dc = None
        for c in o.cls.mro():
            if c.dataclass is not None:
                dc = c.dataclass
                break
        if dc is not None and dc.get("frozen") and not o.frozen_ok:
            raise PyRaise(it.make_exc("AttributeError", f"cannot assign to field '{name}' (FrozenInstanceError)"))
        # property setter?
        o.fields[name] = v
        return
    if isinstance(o, ClassVal):
        o.attrs[name] = v
        return
    if isinstance(o, ModuleRef):
        it.ctx.mod_globals(o.module)[name] = v
        return
    if isinstance(o, SOpq) and getattr(it.e, "opaque_setattr", {}).get(o.kind):
        return it.e.opaque_setattr[o.kind](it, o, name, v)
    if isinstance(o, Sym) and hasattr(o, "setattr"):
        return o.setattr(it, name, v)
    raise Unsupported(f"attribute store on {o!r}")


def get_item(it, o, k):
    if isinstance(o, Sym) and hasattr(o, "getitem"):
        return o.getitem(it, k)
    if isinstance(o, ClassVal) and o.enum_kind and isinstance(k, str):
        # EnumClass["NAME"]: member lookup by name
        if k in o.members:
            return o.attrs[k] if k in o.attrs else o.members[k]
        raise PyRaise(it.make_exc("KeyError", k))
    if isinstance(o, SObj):
        f, _ = o.cls.lookup("__getitem__")
        if f is not None:
            return it.call(f, [o, k], {})
        if getattr(o.cls, "namedtuple", False) or any(getattr(c, "namedtuple", False) for c in o.cls.mro()):
            return get_item(it, tuple(o.fields[n] for n in o.cls.dc_fields()), k)
        raise PyRaise(it.make_exc("TypeError", "object is not subscriptable"))
    if isinstance(o, (list, tuple, str)):
        if isinstance(k, slice):
            if any(is_symbolic(x) for x in (k.start, k.stop, k.step)):
                raise Unsupported("symbolic slice bounds on concrete sequence")
            return o[k]
        if isinstance(k, SInt):
            n = len(o)
            if n == 0 or it.ctx.branch(z3.Or(k.t >= n, k.t < -n)):
                it.throw("IndexError", "index out of range")
            idx = z3.If(k.t < 0, k.t + n, k.t)
            # fork on the index (concrete-shape sequences are short)
            for i in range(n):
                if i == n - 1 or it.ctx.branch(idx == i):
                    return o[i]
        if isinstance(k, bool) or not isinstance(k, int):
            if isinstance(k, SBool):
                raise Unsupported("bool index")
            it.throw("TypeError", "indices must be integers")
        try:
            return o[k]
        except IndexError:
            it.throw("IndexError", "index out of range")
    if isinstance(o, dict):
        if is_symbolic(k) and not isinstance(k, SOpq):
            # lookup of a symbolic scalar key in a concrete dict: fork over the keys
            for kk in list(o.keys()):
                if it.truth(it.cmp("==", k, kk)):
                    return o[kk]
            it.throw("KeyError", k)
        try:
            return o[k]
        except KeyError:
            it.throw("KeyError", k)
        except TypeError:
            raise Unsupported(f"unhashable dict key {k!r}")
    if isinstance(o, SStr):
        if isinstance(k, slice):
            if k.step is not None:
                raise Unsupported("string slice with step")
            n = z3.Length(o.t)

            def norm(x, dflt):
                if x is None:
                    return dflt
                xz = to_z3(x)
                xz = z3.If(xz < 0, xz + n, xz)
                return z3.If(xz < 0, z3.IntVal(0), z3.If(xz > n, n, xz))
            lo, hi = norm(k.start, z3.IntVal(0)), norm(k.stop, n)
            return lift(z3.SubString(o.t, lo, z3.If(hi > lo, hi - lo, z3.IntVal(0))))
        kz = to_z3(k)
        n = z3.Length(o.t)
        if it.ctx.branch(z3.Or(kz >= n, kz < -n)):
            it.throw("IndexError", "string index out of range")
        return lift(z3.SubString(o.t, z3.If(kz < 0, kz + n, kz), 1))
    if isinstance(o, range):
        return o[k]
    raise Unsupported(f"subscript of {o!r}")


def set_item(it, o, k, v):
    if isinstance(o, Sym) and hasattr(o, "setitem"):
        return o.setitem(it, k, v)
    if isinstance(o, SObj):
        f, _ = o.cls.lookup("__setitem__")
        if f is not None:
            return it.call(f, [o, k, v], {})
    if isinstance(o, list):
        if isinstance(k, slice):
            o[k] = it.iterate(v)
            return
        if is_symbolic(k):
            raise Unsupported("symbolic index store in concrete list")
        try:
            o[k] = v
        except IndexError:
            it.throw("IndexError", "list assignment index out of range")
        return
    if isinstance(o, dict):
        if is_symbolic(k) and not isinstance(k, SOpq):
            raise Unsupported("symbolic key store in concrete dict")
        o[k] = v
        return
    raise Unsupported(f"item store on {o!r}")


_BITLEN_MAX = 160


def _bit_length(it, o):
    """int.bit_length() of a symbolic int: a fresh b with the exact characterisation
    b > k  <=>  |v| >= 2**k  for every k in [0, 160] (so b is determined exactly whenever
    |v| < 2**160, and comparisons of b with constants up to 160 are exact for every v)."""
    import z3
    b = it.ctx.fresh_int("bitlen")
    v = o.t
    it.ctx.assume(b.t >= 0)
    for k in range(_BITLEN_MAX + 1):
        p = 1 << k
        it.ctx.assume((b.t > k) == z3.Or(v >= p, v <= -p))
    return b
