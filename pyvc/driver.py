"""Driver: ./check Cxx [--tier quick|thorough] [--replay file] [--repo dir]"""
from __future__ import annotations

import argparse
import importlib
import json
import os
import subprocess
import sys
import tempfile
import traceback
from concurrent.futures import ThreadPoolExecutor

from .report import Check, replay_file, VERIF


def _run_section(pid, tier, repo, name):
    fd, path = tempfile.mkstemp(suffix=".json", dir=os.environ.get("TMPDIR", "/var/tmp"))
    os.close(fd)
    env = dict(os.environ)
    env["PYVC_SECTION"] = name
    env["PYVC_SECTION_OUT"] = path
    try:
        p = subprocess.run([sys.executable, "-m", "pyvc.driver", pid, "--tier", tier, "--repo", repo],
                           cwd=VERIF, env=env, capture_output=True, text=True)
        try:
            with open(path) as f:
                data = json.load(f)
        except Exception:  # noqa
            data = None
        return name, p.returncode, data, (p.stdout + p.stderr)[-3000:]
    finally:
        if os.path.exists(path):
            os.unlink(path)


def main(argv=None):
    ap = argparse.ArgumentParser()
    ap.add_argument("pid")
    ap.add_argument("--tier", default=os.environ.get("VERIF_TIER", "quick"))
    ap.add_argument("--replay")
    ap.add_argument("--repo", default=os.environ.get("VERIF_REPO", "/repo"))
    a = ap.parse_args(argv)
    if a.replay:
        return replay_file(a.replay)
    if a.tier not in ("quick", "thorough"):
        a.tier = "quick"
    seed = int(os.environ.get("VERIF_SEED", "0") or 0)
    os.environ["VERIF_REPO"] = a.repo
    sys.path.insert(0, VERIF)
    try:
        mod = importlib.import_module(f"contracts.{a.pid}")
    except ModuleNotFoundError as ex:
        if ex.name == f"contracts.{a.pid}":
            print(f"no contract module for {a.pid}")
            return 3
        raise
    chk = Check(a.pid, a.tier, seed, a.repo, title=getattr(mod, "TITLE", ""))
    try:
        # the evidence level is the category claimed in MANIFEST.json (generated from the same registry)
        from contracts.registry import CLAIMED
        chk.level = CLAIMED.get(a.pid, {}).get("category", chk.level)
    except Exception:  # noqa
        pass
    child_out = os.environ.get("PYVC_SECTION_OUT")
    try:
        mod.run(chk)
    except Exception:  # noqa
        traceback.print_exc()
        print(f"CHECKER-CRASH property={a.pid}")
        return 3
    if child_out:
        chk.dump_child(child_out)
        return 0
    secs = getattr(chk, "sections", [])
    if secs:
        with ThreadPoolExecutor(max_workers=min(16, len(secs))) as ex:
            results = list(ex.map(lambda n: _run_section(a.pid, a.tier, a.repo, n), secs))
        for name, rc, data, log in results:
            if data is None:
                print(f"CHECKER-CRASH property={a.pid} section={name}\n{log}")
                return 3
            chk.merge_child(data)
    return chk.finish()


if __name__ == "__main__":
    sys.exit(main())
