"""Driver: ./check Cxx [--tier quick|thorough] [--replay file] [--repo dir]"""
from __future__ import annotations

import argparse
import importlib
import os
import sys
import traceback

from .report import Check, replay_file, VERIF


def main(argv=None):
    ap = argparse.ArgumentParser()
    ap.add_argument("pid")
    ap.add_argument("--tier", default=os.environ.get("VERIF_TIER", "quick"))
    ap.add_argument("--replay")
    ap.add_argument("--repo", default=os.environ.get("VERIF_REPO", "/repo"))
    a = ap.parse_args(argv)
    if a.replay:
        return replay_file(a.replay)
    if a.tier not in ("quick", "thorough"):
        a.tier = "quick"
    seed = int(os.environ.get("VERIF_SEED", "0") or 0)
    os.environ["VERIF_REPO"] = a.repo
    sys.path.insert(0, VERIF)
    try:
        mod = importlib.import_module(f"contracts.{a.pid}")
    except ModuleNotFoundError:
        print(f"no contract module for {a.pid}")
        return 3
    chk = Check(a.pid, a.tier, seed, a.repo, title=getattr(mod, "TITLE", ""))
    try:
        mod.run(chk)
    except Exception:  # noqa
        traceback.print_exc()
        print(f"CHECKER-CRASH property={a.pid}")
        return 3
    return chk.finish()


if __name__ == "__main__":
    sys.exit(main())
