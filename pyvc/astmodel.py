"""Model of the standard `ast` module for interpreted code: node classes are stubs generated
from the running CPython's `ast` (names, bases, _fields); NodeVisitor / NodeTransformer /
iter_fields / iter_child_nodes / walk / copy_location are the CPython definitions re-stated in
the interpreted subset (PRELUDE) and executed by pyvc itself."""
from __future__ import annotations

import ast as _ast

from .values import ClassVal, SObj, Builtin, Unsupported, Sym

PRELUDE = '''
from ast import AST

def iter_fields(node):
    out = []
    for field in node._fields:
        if hasattr(node, field):
            out.append((field, getattr(node, field)))
    return out

def iter_child_nodes(node):
    out = []
    for name, field in iter_fields(node):
        if isinstance(field, AST):
            out.append(field)
        elif isinstance(field, list):
            for item in field:
                if isinstance(item, AST):
                    out.append(item)
    return out

def walk(node):
    todo = [node]
    out = []
    while todo:
        node = todo.pop(0)
        todo.extend(iter_child_nodes(node))
        out.append(node)
    return out

def copy_location(new_node, old_node):
    for attr in ('lineno', 'col_offset', 'end_lineno', 'end_col_offset'):
        if attr in old_node._attributes and attr in new_node._attributes:
            value = getattr(old_node, attr, None)
            if value is not None or (hasattr(old_node, attr) and attr.startswith("end_")):
                setattr(new_node, attr, value)
    return new_node

def fix_missing_locations(node):
    return node

class NodeVisitor:
    def visit(self, node):
        method = 'visit_' + node.__class__.__name__
        visitor = getattr(self, method, self.generic_visit)
        return visitor(node)

    def generic_visit(self, node):
        for field, value in iter_fields(node):
            if isinstance(value, list):
                for item in value:
                    if isinstance(item, AST):
                        self.visit(item)
            elif isinstance(value, AST):
                self.visit(value)

class NodeTransformer(NodeVisitor):
    def generic_visit(self, node):
        for field, old_value in iter_fields(node):
            if isinstance(old_value, list):
                new_values = []
                for value in old_value:
                    if isinstance(value, AST):
                        value = self.visit(value)
                        if value is None:
                            continue
                        elif not isinstance(value, AST):
                            new_values.extend(value)
                            continue
                    new_values.append(value)
                old_value[:] = new_values
            elif isinstance(old_value, AST):
                new_node = self.visit(old_value)
                if new_node is None:
                    delattr(node, field)
                else:
                    setattr(node, field, new_node)
        return node
'''

PRELUDE_NAME = "_pyvc_ast_prelude"


def ast_classes(engine):
    if hasattr(engine, "_ast_classes"):
        return engine._ast_classes
    out = {}

    def get(c):
        if c is object:
            return engine.bclasses["object"]
        if c.__name__ in out:
            return out[c.__name__]
        base = get(c.__mro__[1])
        cv = ClassVal(c.__name__, [base], builtin=True)
        cv.is_ast = True
        cv.attrs["_fields"] = tuple(c._fields)
        cv.attrs["_attributes"] = tuple(getattr(c, "_attributes", ()))
        cv.attrs["__match_args__"] = tuple(c._fields)
        out[c.__name__] = cv
        return cv
    for n in dir(_ast):
        c = getattr(_ast, n)
        if isinstance(c, type) and issubclass(c, _ast.AST):
            get(c)
    # node classes of Python 3.12 (PEP 695) that the code under contract mentions; the host running pyvc
    # may be older
    for name, base, fields in (("type_param", "AST", ()), ("TypeVar", "type_param", ("name", "bound")), ("ParamSpec", "type_param", ("name",)),
                               ("TypeVarTuple", "type_param", ("name",))):
        if name not in out:
            cv = ClassVal(name, [out[base]], builtin=True)
            cv.is_ast = True
            cv.attrs["_fields"] = fields
            cv.attrs["_attributes"] = ("lineno", "col_offset", "end_lineno", "end_col_offset")
            cv.attrs["__match_args__"] = fields
            out[name] = cv
    engine._ast_classes = out
    return out


def is_ast_class(cls) -> bool:
    return any(getattr(c, "is_ast", False) for c in cls.mro())


def instantiate_ast(it, cls, args, kwargs):
    o = SObj(cls)
    fields, _ = cls.lookup("_fields")
    if len(args) > len(fields):
        it.throw("TypeError", f"{cls.name} constructor takes at most {len(fields)} positional arguments")
    for n, v in zip(fields, args):
        o.fields[n] = v
    for k, v in kwargs.items():
        o.fields[k] = v
    return o


def to_sobj(it, node):
    """real ast node -> interpreted node"""
    if isinstance(node, _ast.AST):
        cls = ast_classes(it.e)[type(node).__name__]
        o = SObj(cls)
        for f in node._fields:
            if hasattr(node, f):
                o.fields[f] = to_sobj(it, getattr(node, f))
        for a in getattr(node, "_attributes", ()):
            if hasattr(node, a):
                o.fields[a] = getattr(node, a)
        return o
    if isinstance(node, list):
        return [to_sobj(it, x) for x in node]
    return node


def to_real(o):
    """interpreted node -> real ast node (all fields must be concrete)"""
    if isinstance(o, SObj) and is_ast_class(o.cls):
        c = getattr(_ast, o.cls.name)
        kw = {}
        for k, v in o.fields.items():
            if k in c._fields or k in getattr(c, "_attributes", ()):
                kw[k] = to_real(v)
        return c(**kw)
    if isinstance(o, list):
        return [to_real(x) for x in o]
    if isinstance(o, (Sym, SObj)):
        raise Unsupported("symbolic value inside an AST being unparsed")
    return o


def external_ast(it, name):
    classes = ast_classes(it.e)
    if name in classes:
        return classes[name]
    if name in ("iter_fields", "iter_child_nodes", "walk", "copy_location", "fix_missing_locations",
                "NodeVisitor", "NodeTransformer"):
        from .interp import Module
        m = it.e.modules.get(PRELUDE_NAME)
        if m is None:
            m = Module(PRELUDE_NAME, "<pyvc ast prelude>", PRELUDE)
            it.e.modules[PRELUDE_NAME] = m
        return it.lookup_global(m, name)
    if name == "parse":
        def parse(src, *a, **k):
            if not isinstance(src, str):
                raise Unsupported("ast.parse of symbolic source")
            try:
                return to_sobj(it, _ast.parse(src, *[x for x in a if isinstance(x, str)], **{kk: v for kk, v in k.items() if kk == "mode"}))
            except SyntaxError as ex:
                it.throw("ValueError", str(ex))
        return Builtin("ast.parse", parse)
    if name == "unparse":
        return Builtin("ast.unparse", lambda n: _ast.unparse(to_real(n)))
    if name == "dump":
        return Builtin("ast.dump", lambda n, **k: _ast.dump(to_real(n)))
    if name == "get_docstring":
        return Builtin("ast.get_docstring", lambda n, clean=True: _ast.get_docstring(to_real(n), clean))
    if name == "literal_eval":
        return Builtin("ast.literal_eval", lambda n: _ast.literal_eval(to_real(n) if isinstance(n, SObj) else n))
    return None
