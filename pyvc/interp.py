"""pyvc: path-wise symbolic interpreter for the Python subset used by the functions under
contract.  It parses the *current* source files under the repository root on every run,
executes a named function on symbolic arguments, forks at every branch on a symbolic
condition (DART-style re-execution with a decision prefix) and returns one `Path` per
feasible execution: path condition, outcome (return value / raised exception), final state.

Nothing is hand-copied from /repo: the executed text is the AST of the file on disk.
Constructs outside the subset raise `Unsupported` -> the obligation is UNDECIDED.
"""
from __future__ import annotations

import ast
import hashlib
import os
import operator
from typing import Any

import z3

from .values import (SInt, SBool, SStr, SOpq, Sym, SObj, ClassVal, EnumVal, FlagVal, FuncVal,
                     BoundMethod, Builtin, ExtVal, ModuleRef, PyRaise, _Return, _Break,
                     _Continue, Unsupported, PathEnd, to_z3, lift, is_symbolic)

MAX_PATHS = 4000
MAX_UNROLL = 64


# ----------------------------------------------------------------------------------------
# modules
# ----------------------------------------------------------------------------------------
class Module:
    def __init__(self, name, path, source):
        self.name = name
        self.path = path
        self.source = source
        self.tree = ast.parse(source, filename=path)
        self.defs: dict[str, list[ast.stmt]] = {}
        self._index(self.tree.body)

    def _index(self, body):
        for st in body:
            if isinstance(st, (ast.FunctionDef, ast.AsyncFunctionDef, ast.ClassDef)):
                self.defs.setdefault(st.name, []).append(st)
            elif isinstance(st, ast.Assign):
                for t in st.targets:
                    for n in _target_names(t):
                        self.defs.setdefault(n, []).append(st)
            elif isinstance(st, ast.AnnAssign):
                if st.value is not None:
                    for n in _target_names(st.target):
                        self.defs.setdefault(n, []).append(st)
            elif isinstance(st, ast.AugAssign):
                for n in _target_names(st.target):
                    self.defs.setdefault(n, []).append(st)
            elif isinstance(st, (ast.Import, ast.ImportFrom)):
                for a in st.names:
                    n = a.asname or a.name.split(".")[0]
                    self.defs.setdefault(n, []).append(st)
            elif isinstance(st, ast.If):
                # `if TYPE_CHECKING:` blocks are typing-only; other top-level ifs are indexed
                if _is_type_checking(st.test):
                    for s2 in st.body:
                        if isinstance(s2, (ast.Import, ast.ImportFrom)):
                            for a in s2.names:
                                n = a.asname or a.name.split(".")[0]
                                self.defs.setdefault(n, []).append(s2)
                    self._index(st.orelse)
                else:
                    self._index(st.body)
                    self._index(st.orelse)
            elif isinstance(st, ast.Try):
                self._index(st.body)

    def find(self, qualname: str):
        """AST node of a (possibly nested) function/class `A.B.f`."""
        parts = qualname.split(".")
        body = self.tree.body
        node = None
        for p in parts:
            node = None
            for st in _walk_defs(body):
                if isinstance(st, (ast.FunctionDef, ast.AsyncFunctionDef, ast.ClassDef)) and st.name == p:
                    node = st
            if node is None:
                raise KeyError(f"{qualname} not found in {self.path}")
            body = node.body
        return node

    def segment(self, node) -> str:
        return ast.get_source_segment(self.source, node) or ""


def _walk_defs(body):
    for st in body:
        yield st
        if isinstance(st, ast.If):
            yield from _walk_defs(st.body)
            yield from _walk_defs(st.orelse)
        elif isinstance(st, ast.Try):
            yield from _walk_defs(st.body)


def _is_type_checking(test):
    return (isinstance(test, ast.Name) and test.id == "TYPE_CHECKING") or (
        isinstance(test, ast.Attribute) and test.attr == "TYPE_CHECKING")


def _target_names(t):
    if isinstance(t, ast.Name):
        return [t.id]
    if isinstance(t, (ast.Tuple, ast.List)):
        out = []
        for e in t.elts:
            out += _target_names(e)
        return out
    if isinstance(t, ast.Starred):
        return _target_names(t.value)
    return []


class Frame:
    def __init__(self, module, func=None, parent=None):
        self.module = module
        self.func = func
        self.parent = parent  # closure parent
        self.locals: dict[str, Any] = {}
        self.globals_decl: set[str] = set()
        self.nonlocals: set[str] = set()
        self.cls: ClassVal | None = None  # for class bodies
        self.with_body = None  # hook used for @contextmanager inline expansion


# ----------------------------------------------------------------------------------------
# built-in classes (exception hierarchy etc.)
# ----------------------------------------------------------------------------------------
def _mk_builtin_classes():
    C = {}

    def mk(name, *bases):
        C[name] = ClassVal(name, [C[b] for b in bases], builtin=True)
    mk("object")
    mk("BaseException", "object")
    mk("Exception", "BaseException")
    for n in ("ArithmeticError", "LookupError", "AssertionError", "AttributeError", "NameError",
              "RuntimeError", "TypeError", "ValueError", "StopIteration", "NotImplementedError_",
              "OSError", "ImportError"):
        mk(n, "Exception")
    mk("KeyError", "LookupError")
    mk("IndexError", "LookupError")
    mk("ZeroDivisionError", "ArithmeticError")
    mk("OverflowError", "ArithmeticError")
    mk("NotImplementedError", "RuntimeError")
    mk("RecursionError", "RuntimeError")
    mk("UnboundLocalError", "NameError")
    mk("KeyboardInterrupt", "BaseException")
    mk("GeneratorExit", "BaseException")
    for n in ("int", "bool", "str", "float", "list", "tuple", "dict", "set", "frozenset", "type",
              "NoneType", "bytes", "complex"):
        mk(n, "object")
    C["bool"].bases = [C["int"]]
    # typing / abc placeholders usable as base classes
    for n in ("ABC", "Generic", "Protocol", "NamedTuple", "Enum", "Flag", "IntEnum", "Sequence",
              "Mapping", "Iterable", "Iterator", "Callable", "Hashable", "Sized", "Any"):
        mk(n, "object")
    return C


class Path:
    def __init__(self, ctx, kind, value):
        self.ctx = ctx
        self.pc = list(ctx.pc)
        self.kind = kind  # 'return' | 'raise' | 'unsupported' | 'cut'
        self.value = value
        self.obligations = list(ctx.obligations)
        self.events = list(ctx.events)
        self.decisions = list(ctx.taken)

    def raised(self, engine, clsname) -> bool:
        if self.kind != "raise":
            return False
        return any(c.name == clsname for c in self.value.cls.mro())

    def __repr__(self):
        return f"<Path {self.kind} {self.value!r} pc={self.pc}>"


class Ctx:
    """State of one execution (one path)."""

    def __init__(self, engine, prefix):
        self.engine = engine
        self.prefix = list(prefix)
        self.taken: list[bool] = []
        self.pc: list[Any] = []
        self.obligations: list[tuple[str, list, Any, dict]] = []
        self.events: list[tuple] = []
        self.assumed: list[str] = []
        self.globals: dict[str, dict[str, Any]] = {}
        self.counters: dict[str, int] = {}
        self.pending: list[list[bool]] = []
        self.ghost: dict[str, Any] = {}
        self.depth = 0
        self.steps = 0

    # ---- naming
    def fresh_name(self, base):
        n = self.counters.get(base, 0)
        self.counters[base] = n + 1
        return f"{base}!{n}"

    def fresh_int(self, base="i"):
        return SInt(z3.Int(self.fresh_name(base)))

    def fresh_bool(self, base="b"):
        return SBool(z3.Bool(self.fresh_name(base)))

    def fresh_str(self, base="s"):
        return SStr(z3.String(self.fresh_name(base)))

    # ---- path condition
    def assume(self, f):
        f = z3.simplify(f) if isinstance(f, z3.ExprRef) else z3.BoolVal(bool(f))
        if z3.is_true(f):
            return
        if z3.is_false(f):
            raise PathEnd("assume false")
        self.pc.append(f)

    def feasible(self, extra=None) -> bool:
        s = z3.Solver()
        s.set("timeout", self.engine.feas_timeout_ms)
        for f in self.pc:
            s.add(f)
        if extra is not None:
            s.add(extra)
        r = s.check()
        self.engine.stats["feasibility_queries"] += 1
        return r != z3.unsat

    def branch(self, cond) -> bool:
        """Decide a (possibly symbolic) condition; forks the exploration when both outcomes
        are feasible under the current path condition."""
        if isinstance(cond, bool):
            return cond
        if isinstance(cond, SBool):
            t = z3.simplify(cond.t)
        elif isinstance(cond, z3.ExprRef):
            t = z3.simplify(cond)
        else:
            raise Unsupported(f"branch on {cond!r}")
        if z3.is_true(t):
            return True
        if z3.is_false(t):
            return False
        i = len(self.taken)
        if i < len(self.prefix):
            d = self.prefix[i]
        else:
            ft = self.feasible(t)
            ff = self.feasible(z3.Not(t))
            if ft and ff:
                d = True
                self.pending.append(self.taken + [False])
            elif ft:
                d = True
                self.taken.append(d)
                return d  # implied by pc; nothing to add
            elif ff:
                d = False
                self.taken.append(d)
                return d
            else:
                raise PathEnd("infeasible")
        self.taken.append(d)
        self.pc.append(t if d else z3.Not(t))
        return d

    def obligate(self, name, goal, **info):
        """Record a proof obligation `pc => goal` generated in the middle of an execution."""
        self.obligations.append((name, list(self.pc) + list(getattr(self, "guards", [])), goal, info))

    def event(self, *ev):
        self.events.append(ev)

    def mod_globals(self, module) -> dict:
        return self.globals.setdefault(module.name, {})


class Engine:
    def __init__(self, repo="/repo"):
        self.repo = repo
        self.roots = [os.path.join(repo, "guppylang-internals", "src"),
                      os.path.join(repo, "guppylang", "src")]
        self.modules: dict[str, Module] = {}
        self.models: dict[str, Any] = {}      # 'mod:qualname' -> callable(ctx, args, kwargs)
        self.ext_models: dict[str, Any] = {}  # 'pkg.name' -> value
        self.opaque_attr: dict[str, Any] = {}  # kind -> handler(interp, obj, attr)
        self.bclasses = _mk_builtin_classes()
        self.feas_timeout_ms = 2000
        self.stats = {"feasibility_queries": 0, "paths": 0, "runs": 0}
        self.functions_used: dict[str, dict] = {}
        self.unmodelled: set[str] = set()

    # ---- module loading
    def module(self, name: str) -> Module | None:
        if name in self.modules:
            return self.modules[name]
        rel = name.replace(".", "/")
        for root in self.roots:
            for cand in (os.path.join(root, rel + ".py"), os.path.join(root, rel, "__init__.py")):
                if os.path.isfile(cand):
                    with open(cand) as f:
                        src = f.read()
                    m = Module(name, cand, src)
                    self.modules[name] = m
                    return m
        return None

    def func_info(self, modname, qualname) -> dict:
        m = self.module(modname)
        node = m.find(qualname)
        seg = m.segment(node)
        info = {"module": modname, "qualname": qualname,
                "file": os.path.relpath(m.path, self.repo), "line": node.lineno,
                "sha256": hashlib.sha256(seg.encode()).hexdigest()[:16]}
        self.functions_used[f"{modname}:{qualname}"] = info
        return info

    # ---- exploration
    def explore(self, thunk, max_paths=MAX_PATHS) -> list[Path]:
        """Run `thunk(interp)` once per feasible path."""
        work: list[list[bool]] = [[]]
        paths: list[Path] = []
        while work:
            prefix = work.pop()
            ctx = Ctx(self, prefix)
            it = Interp(self, ctx)
            self.stats["runs"] += 1
            try:
                v = thunk(it)
                paths.append(Path(ctx, "return", v))
            except PyRaise as e:
                paths.append(Path(ctx, "raise", e.exc))
            except PathEnd as e:
                p = Path(ctx, "cut", str(e))
                if ctx.obligations:
                    paths.append(p)
            except Unsupported as e:
                paths.append(Path(ctx, "unsupported", str(e)))
            except RecursionError:
                paths.append(Path(ctx, "unsupported", "recursion limit"))
            work.extend(ctx.pending)
            if len(paths) > max_paths:
                paths.append(Path(ctx, "unsupported", f"more than {max_paths} paths"))
                break
        self.stats["paths"] += len(paths)
        return paths


# ----------------------------------------------------------------------------------------
# the interpreter
# ----------------------------------------------------------------------------------------
_BINOPS = {ast.Add: "+", ast.Sub: "-", ast.Mult: "*", ast.FloorDiv: "//", ast.Mod: "%",
           ast.Pow: "**", ast.LShift: "<<", ast.RShift: ">>", ast.BitOr: "|", ast.BitAnd: "&",
           ast.BitXor: "^", ast.Div: "/", ast.MatMult: "@"}
_DUNDER = {"+": "add", "-": "sub", "*": "mul", "//": "floordiv", "%": "mod", "**": "pow",
           "<<": "lshift", ">>": "rshift", "|": "or", "&": "and", "^": "xor", "/": "truediv",
           "@": "matmul"}
_CMPOPS = {ast.Eq: "==", ast.NotEq: "!=", ast.Lt: "<", ast.LtE: "<=", ast.Gt: ">", ast.GtE: ">="}
_CMP_DUNDER = {"==": "__eq__", "!=": "__ne__", "<": "__lt__", "<=": "__le__", ">": "__gt__", ">=": "__ge__"}
_CMP_SWAP = {"==": "==", "!=": "!=", "<": ">", "<=": ">=", ">": "<", ">=": "<="}
_PYOPS = {"+": operator.add, "-": operator.sub, "*": operator.mul, "//": operator.floordiv,
          "%": operator.mod, "**": operator.pow, "<<": operator.lshift, ">>": operator.rshift,
          "|": operator.or_, "&": operator.and_, "^": operator.xor, "/": operator.truediv,
          "==": operator.eq, "!=": operator.ne, "<": operator.lt, "<=": operator.le,
          ">": operator.gt, ">=": operator.ge}


def py_floordiv(a, b):
    """Python floor division on z3 Ints (z3's div is Euclidean)."""
    q = a / b
    r = a % b
    return z3.If(b > 0, q, z3.If(r == 0, q, q - 1))


def py_mod(a, b):
    r = a % b
    return z3.If(b > 0, r, z3.If(r == 0, r, r + b))


class Interp:
    def __init__(self, engine: Engine, ctx: Ctx):
        self.e = engine
        self.ctx = ctx
        from . import builtins_model
        self.builtins = builtins_model.make_builtins(self)

    # ------------------------------------------------------------------ exceptions helpers
    def make_exc(self, clsname, *args):
        cls = self.e.bclasses[clsname]
        o = SObj(cls, {"args": tuple(args)})
        return o

    def throw(self, clsname, *args):
        raise PyRaise(self.make_exc(clsname, *args))

    # ------------------------------------------------------------------ module globals
    def lookup_global(self, module: Module, name: str):
        g = self.ctx.mod_globals(module)
        if name in g:
            return g[name]
        presets = getattr(self.e, "global_presets", None)
        if presets and (module.name, name) in presets:
            g[name] = presets[(module.name, name)]
            return g[name]
        if name in module.defs:
            # evaluate the (last) defining statement(s) lazily
            fr = Frame(module)
            fr.locals = g
            g[name] = _PENDING
            try:
                for st in module.defs[name]:
                    self.exec_module_stmt(st, fr, name)
            finally:
                if g.get(name) is _PENDING:
                    del g[name]
            if name in g:
                return g[name]
        if name in self.builtins:
            return self.builtins[name]
        if name in self.e.bclasses:
            return self.e.bclasses[name]
        raise PyRaise(self.make_exc("NameError", f"name '{name}' is not defined"))

    def exec_module_stmt(self, st, fr, wanted):
        if isinstance(st, ast.ImportFrom):
            self.do_importfrom(st, fr, only=wanted)
        elif isinstance(st, ast.Import):
            self.do_import(st, fr)
        else:
            self.exec_stmt(st, fr)

    def resolve_modname(self, module: Module, st: ast.ImportFrom) -> str:
        if st.level:
            base = module.name.split(".")
            if not module.path.endswith("__init__.py"):
                base = base[:-1]
            base = base[: len(base) - (st.level - 1)]
            return ".".join(base + ([st.module] if st.module else []))
        return st.module or ""

    def do_importfrom(self, st, fr, only=None):
        modname = self.resolve_modname(fr.module, st)
        m = self.e.module(modname)
        for a in st.names:
            bind = a.asname or a.name
            if only is not None and bind != only:
                continue
            if m is not None:
                sub = self.e.module(modname + "." + a.name)
                if a.name in m.defs or sub is None:
                    fr.locals[bind] = self.lookup_global(m, a.name)
                else:
                    fr.locals[bind] = ModuleRef(sub)
            else:
                fr.locals[bind] = self.external(modname + "." + a.name)

    def do_import(self, st, fr):
        for a in st.names:
            m = self.e.module(a.name)
            if a.asname:
                fr.locals[a.asname] = ModuleRef(m) if m else self.external(a.name)
            else:
                top = a.name.split(".")[0]
                mt = self.e.module(top)
                fr.locals[top] = ModuleRef(mt) if mt else self.external(top)

    def external(self, qual: str):
        if qual in self.e.ext_models:
            mdl = self.e.ext_models[qual]
            import types
            if isinstance(mdl, (types.FunctionType, types.MethodType)):
                return Builtin(qual, lambda *a, **k: mdl(self, list(a), k))
            return mdl
        from . import builtins_model
        v = builtins_model.external(self, qual)
        if v is not None:
            return v
        return ExtVal(qual)

    # ------------------------------------------------------------------ name lookup
    def load_name(self, name: str, fr: Frame):
        f = fr
        first = True
        while f is not None:
            if first and name in f.globals_decl:
                break
            if name in f.locals and not (f.cls is not None and not first):
                return f.locals[name]
            f = f.parent
            first = False
        return self.lookup_global(fr.module, name)

    def store_name(self, name: str, val, fr: Frame):
        if name in fr.globals_decl:
            self.ctx.mod_globals(fr.module)[name] = val
            return
        if name in fr.nonlocals:
            f = fr.parent
            while f is not None:
                if name in f.locals:
                    f.locals[name] = val
                    return
                f = f.parent
        fr.locals[name] = val

    # ------------------------------------------------------------------ statements
    def exec_block(self, stmts, fr):
        for st in stmts:
            self.exec_stmt(st, fr)

    def exec_stmt(self, st, fr):
        self.ctx.steps += 1
        if self.ctx.steps > 200000:
            raise Unsupported("step budget exceeded")
        m = getattr(self, "s_" + type(st).__name__, None)
        if m is None:
            raise Unsupported(f"statement {type(st).__name__} at {fr.module.path}:{st.lineno}")
        return m(st, fr)

    def s_Expr(self, st, fr):
        self.eval(st.value, fr)

    def s_Pass(self, st, fr):
        pass

    def s_Global(self, st, fr):
        fr.globals_decl.update(st.names)

    def s_Nonlocal(self, st, fr):
        fr.nonlocals.update(st.names)

    def s_Import(self, st, fr):
        self.do_import(st, fr)

    def s_ImportFrom(self, st, fr):
        self.do_importfrom(st, fr)

    def s_Return(self, st, fr):
        raise _Return(self.eval(st.value, fr) if st.value is not None else None)

    def s_Break(self, st, fr):
        raise _Break()

    def s_Continue(self, st, fr):
        raise _Continue()

    def s_Assign(self, st, fr):
        v = self.eval(st.value, fr)
        for t in st.targets:
            self.assign(t, v, fr)

    def s_AnnAssign(self, st, fr):
        if fr.cls is not None and isinstance(st.target, ast.Name):
            fr.cls.annotations[st.target.id] = st.annotation
        if st.value is not None:
            self.assign(st.target, self.eval(st.value, fr), fr)

    def s_AugAssign(self, st, fr):
        op = _BINOPS[type(st.op)]
        if isinstance(st.target, ast.Name):
            cur = self.load_name(st.target.id, fr)
            new = self.binop(op, cur, self.eval(st.value, fr), inplace=True)
            self.store_name(st.target.id, new, fr)
        elif isinstance(st.target, ast.Attribute):
            o = self.eval(st.target.value, fr)
            cur = self.getattr(o, st.target.attr)
            new = self.binop(op, cur, self.eval(st.value, fr), inplace=True)
            self.setattr(o, st.target.attr, new)
        elif isinstance(st.target, ast.Subscript):
            o = self.eval(st.target.value, fr)
            k = self.eval_index(st.target.slice, fr)
            cur = self.getitem(o, k)
            new = self.binop(op, cur, self.eval(st.value, fr), inplace=True)
            self.setitem(o, k, new)
        else:
            raise Unsupported("augassign target")

    def s_Delete(self, st, fr):
        for t in st.targets:
            if isinstance(t, ast.Subscript):
                o = self.eval(t.value, fr)
                k = self.eval_index(t.slice, fr)
                self.delitem(o, k)
            elif isinstance(t, ast.Name):
                fr.locals.pop(t.id, None)
            else:
                raise Unsupported("del target")

    def s_If(self, st, fr):
        if self.truth(self.eval(st.test, fr)):
            self.exec_block(st.body, fr)
        else:
            self.exec_block(st.orelse, fr)

    def s_Assert(self, st, fr):
        if not self.truth(self.eval(st.test, fr)):
            msg = self.eval(st.msg, fr) if st.msg is not None else None
            ex = self.make_exc("AssertionError", *([msg] if msg is not None else []))
            ex.where = f"{fr.module.path}:{st.lineno}"
            raise PyRaise(ex)

    def s_Raise(self, st, fr):
        if st.exc is None:
            cur = getattr(fr, "current_exc", None)
            f = fr
            while cur is None and f is not None:
                cur = getattr(f, "current_exc", None)
                f = f.parent
            if cur is None:
                raise Unsupported("bare raise outside handler")
            raise PyRaise(cur)
        exc = self.eval(st.exc, fr)
        if isinstance(exc, ClassVal):
            exc = self.call(exc, [], {})
        if st.cause is not None:
            self.eval(st.cause, fr)
        if isinstance(exc, SObj) and not hasattr(exc, "where"):
            exc.where = f"{fr.module.path}:{st.lineno}"
        raise PyRaise(exc)

    def s_FunctionDef(self, st, fr):
        fv = self.make_function(st, fr)
        # decorators whose effect is observable and modelled are applied (functools.cache)
        for d in reversed(st.decorator_list):
            name = _dotted(d.func if isinstance(d, ast.Call) else d)
            if name.split(".")[-1] in ("cache", "lru_cache"):
                fv = self.call(self.eval(d, fr), [fv], {})
        self.store_name(st.name, fv, fr)

    def make_function(self, st, fr, owner=None):
        qual = st.name
        if owner is not None:
            qual = owner.qualname + "." + st.name
        elif fr.func is not None:
            qual = fr.func.qualname + ".<locals>." + st.name
        fv = FuncVal(st, fr.module, fr if (fr.func is not None or getattr(fr, 'is_snippet', False) or fr.cls is not None and fr.parent) else None, qual, owner)
        if fr.cls is not None:
            fv.closure = fr.parent if fr.parent is not None and fr.parent.func is not None else None
        for d in st.decorator_list:
            name = _dotted(d.func if isinstance(d, ast.Call) else d)
            last = name.split(".")[-1] if name else ""
            if last in ("staticmethod", "classmethod", "property", "cached_property"):
                fv.kind = "property" if last == "cached_property" else last
            elif last == "setter":
                fv.kind = "setter"
            fv.decorators.append(d)
        return fv

    def s_ClassDef(self, st, fr):
        from .classes import build_class
        cv = build_class(self, st, fr)
        self.store_name(st.name, cv, fr)

    def s_While(self, st, fr):
        from .loops import exec_while
        exec_while(self, st, fr)

    def s_For(self, st, fr):
        from .loops import exec_for
        exec_for(self, st, fr)

    def s_Try(self, st, fr):
        try:
            try:
                self.exec_block(st.body, fr)
            except PyRaise as pr:
                exc = pr.exc
                for h in st.handlers:
                    if h.type is None or self.exc_matches(exc, self.eval(h.type, fr)):
                        if h.name:
                            fr.locals[h.name] = exc
                        old = getattr(fr, "current_exc", None)
                        fr.current_exc = exc
                        try:
                            self.exec_block(h.body, fr)
                        finally:
                            fr.current_exc = old
                        break
                else:
                    raise
            else:
                self.exec_block(st.orelse, fr)
        finally:
            # NB: python-level `finally` also runs for PathEnd/Unsupported, which is harmless
            # except that finalbody must not run on abandoned paths
            import sys
            et = sys.exc_info()[0]
            if st.finalbody and not (et is not None and issubclass(et, (PathEnd, Unsupported))):
                self.exec_block(st.finalbody, fr)

    def exc_matches(self, exc, spec) -> bool:
        if isinstance(spec, tuple):
            return any(self.exc_matches(exc, s) for s in spec)
        if isinstance(spec, ClassVal):
            return isinstance(exc, SObj) and exc.cls.is_subclass(spec)
        raise Unsupported(f"except clause with {spec!r}")

    def s_With(self, st, fr):
        from .loops import exec_with
        exec_with(self, st, fr, 0)

    def s_Match(self, st, fr):
        from .match import exec_match
        exec_match(self, st, fr)

    # ------------------------------------------------------------------ assignment targets
    def assign(self, t, v, fr):
        if isinstance(t, ast.Name):
            self.store_name(t.id, v, fr)
        elif isinstance(t, ast.Attribute):
            self.setattr(self.eval(t.value, fr), t.attr, v)
        elif isinstance(t, ast.Subscript):
            self.setitem(self.eval(t.value, fr), self.eval_index(t.slice, fr), v)
        elif isinstance(t, (ast.Tuple, ast.List)) and isinstance(v, Sym) and hasattr(v, "unpack"):
            star = [i for i, e in enumerate(t.elts) if isinstance(e, ast.Starred)]
            if star:
                i = star[0]
                first, mid, last = v.unpack(self, i, len(t.elts) - i - 1, True)
                for e, x in zip(t.elts[:i], first):
                    self.assign(e, x, fr)
                self.assign(t.elts[i].value, mid, fr)
                for e, x in zip(t.elts[i + 1:], last):
                    self.assign(e, x, fr)
            else:
                first, _, _ = v.unpack(self, len(t.elts), 0, False)
                for e, x in zip(t.elts, first):
                    self.assign(e, x, fr)
        elif isinstance(t, (ast.Tuple, ast.List)):
            items = self.iterate(v)
            star = [i for i, e in enumerate(t.elts) if isinstance(e, ast.Starred)]
            if star:
                i = star[0]
                after = len(t.elts) - i - 1
                if len(items) < len(t.elts) - 1:
                    self.throw("ValueError", "not enough values to unpack")
                for e, x in zip(t.elts[:i], items[:i]):
                    self.assign(e, x, fr)
                self.assign(t.elts[i].value, list(items[i:len(items) - after]), fr)
                for e, x in zip(t.elts[i + 1:], items[len(items) - after:]):
                    self.assign(e, x, fr)
            else:
                if len(items) != len(t.elts):
                    self.throw("ValueError", "unpack length mismatch")
                for e, x in zip(t.elts, items):
                    self.assign(e, x, fr)
        else:
            raise Unsupported(f"assignment target {type(t).__name__}")

    # ------------------------------------------------------------------ expressions
    def eval(self, node, fr):
        m = getattr(self, "e_" + type(node).__name__, None)
        if m is None:
            raise Unsupported(f"expression {type(node).__name__} at {fr.module.path}:{getattr(node, 'lineno', '?')}")
        return m(node, fr)

    def e_Constant(self, n, fr):
        return n.value

    def e_Name(self, n, fr):
        return self.load_name(n.id, fr)

    def e_Tuple(self, n, fr):
        return tuple(self.eval_elts(n.elts, fr))

    def e_List(self, n, fr):
        return list(self.eval_elts(n.elts, fr))

    def e_Set(self, n, fr):
        return set(self.eval_elts(n.elts, fr))

    def eval_elts(self, elts, fr):
        out = []
        for e in elts:
            if isinstance(e, ast.Starred):
                out.extend(self.iterate(self.eval(e.value, fr)))
            else:
                out.append(self.eval(e, fr))
        return out

    def e_Dict(self, n, fr):
        d = {}
        for k, v in zip(n.keys, n.values):
            if k is None:
                d.update(self.as_dict(self.eval(v, fr)))
            else:
                d[self.hashable(self.eval(k, fr))] = self.eval(v, fr)
        return d

    def as_dict(self, v):
        if isinstance(v, dict):
            return v
        raise Unsupported("** of non-dict")

    def hashable(self, k):
        if isinstance(k, (SInt, SBool, SStr)):
            raise Unsupported("symbolic key in a concrete dict/set")
        return k

    def e_JoinedStr(self, n, fr):
        parts = []
        for v in n.values:
            if isinstance(v, ast.Constant):
                parts.append(v.value)
            else:
                x = self.eval(v.value, fr)
                if v.conversion == ord("r"):
                    x = self.builtins["repr"].fn(x)
                if v.format_spec is not None:
                    spec = self.eval(v.format_spec, fr)
                    if is_symbolic(x) or is_symbolic(spec):
                        raise Unsupported("format spec on symbolic value")
                    parts.append(format(x, spec))
                else:
                    parts.append(self.to_str(x))
        if all(isinstance(p, str) for p in parts):
            return "".join(parts)
        if getattr(self.e, "rope_mode", False):
            from .rope import Rope
            out = Rope([])
            for p in parts:
                out = out.binop(self, "+", Rope.of(p, self), False)
            return out
        return lift(z3.Concat(*[to_z3(p) for p in parts])) if len(parts) > 1 else parts[0]

    def to_str(self, x):
        if isinstance(x, SStr):
            return x
        if isinstance(x, Sym) and hasattr(x, "to_str"):
            return x.to_str(self)
        if isinstance(x, SInt) and getattr(self.e, "rope_mode", False):
            from .rope import Rope
            return Rope.dec(self, x)
        if isinstance(x, SInt):
            # str(int) for symbolic ints: int.to.str only covers non-negatives
            return SStr(z3.If(x.t >= 0, z3.IntToStr(x.t), z3.Concat(z3.StringVal("-"), z3.IntToStr(-x.t))))
        if isinstance(x, SBool):
            return SStr(z3.If(x.t, z3.StringVal("True"), z3.StringVal("False")))
        if isinstance(x, SObj):
            f, _ = x.cls.lookup("__str__")
            if f is not None:
                return self.call(f, [x], {})
            f, _ = x.cls.lookup("__repr__")
            if f is not None:
                return self.call(f, [x], {})
            return f"<{x.cls.name} object>"
        if isinstance(x, (EnumVal, FlagVal, ClassVal, FuncVal)):
            return repr(x)
        if isinstance(x, (list, tuple, dict, set)):
            return repr(x)
        return str(x)

    def e_Attribute(self, n, fr):
        return self.getattr(self.eval(n.value, fr), n.attr)

    def e_Subscript(self, n, fr):
        o = self.eval(n.value, fr)
        if isinstance(o, (FuncVal, Builtin)) and getattr(self.e, "guppy_generic_subscript", False):
            return o  # Guppy mode: `nothing[T]` is a type application, not an item access
        if isinstance(o, ClassVal) and o.enum_kind:
            return self.getitem(o, self.eval_index(n.slice, fr))       # EnumClass["NAME"]
        if isinstance(o, (ClassVal, ExtVal)) or (isinstance(o, Builtin) and o.name in self.e.bclasses):
            # generic alias such as list[int], Generic[T]
            return o
        return self.getitem(o, self.eval_index(n.slice, fr))

    def eval_index(self, s, fr):
        if isinstance(s, ast.Slice):
            return slice(self.eval(s.lower, fr) if s.lower else None,
                         self.eval(s.upper, fr) if s.upper else None,
                         self.eval(s.step, fr) if s.step else None)
        return self.eval(s, fr)

    def e_Starred(self, n, fr):
        raise Unsupported("starred expression outside call/collection")

    def e_Lambda(self, n, fr):
        return FuncVal(n, fr.module, fr, "<lambda>")

    def e_IfExp(self, n, fr):
        if self.truth(self.eval(n.test, fr)):
            return self.eval(n.body, fr)
        return self.eval(n.orelse, fr)

    def e_NamedExpr(self, n, fr):
        v = self.eval(n.value, fr)
        self.assign(n.target, v, fr)
        return v

    def e_BoolOp(self, n, fr):
        is_and = isinstance(n.op, ast.And)
        v = None
        for i, e in enumerate(n.values):
            v = self.eval(e, fr)
            if i == len(n.values) - 1:
                return v
            t = self.truth(v)
            if is_and and not t:
                return v
            if not is_and and t:
                return v
        return v

    def e_UnaryOp(self, n, fr):
        v = self.eval(n.operand, fr)
        return self.unop(type(n.op), v)

    def unop(self, op, v):
        if isinstance(v, Sym) and hasattr(v, "unop"):
            out = v.unop(self, op)
            if out is not NotImplemented:
                return out
        if op is ast.Not:
            if isinstance(v, SBool):
                return lift(z3.Not(v.t))
            return not self.truth(v)
        if op is ast.USub:
            if isinstance(v, SInt):
                return lift(-v.t)
            if isinstance(v, SObj):
                return self.call_method(v, "__neg__", [])
            return -v
        if op is ast.UAdd:
            if isinstance(v, SInt):
                return v
            if isinstance(v, SObj):
                return self.call_method(v, "__pos__", [])
            return +v
        if op is ast.Invert:
            if isinstance(v, SInt):
                return lift(-v.t - 1)
            if isinstance(v, FlagVal):
                allbits = 0
                for m in v.cls.members.values():
                    allbits |= m.value
                return FlagVal(v.cls, allbits & ~v.value)
            if isinstance(v, SObj):
                return self.call_method(v, "__invert__", [])
            return ~v
        raise Unsupported("unary op")

    def e_BinOp(self, n, fr):
        l = self.eval(n.left, fr)
        r = self.eval(n.right, fr)
        return self.binop(_BINOPS[type(n.op)], l, r)

    def e_Compare(self, n, fr):
        left = self.eval(n.left, fr)
        result = True
        terms = []
        for op, rn in zip(n.ops, n.comparators):
            right = self.eval(rn, fr)
            r = self.compare(op, left, right)
            if len(n.ops) == 1:
                return r
            # chained comparison: `a op b op c` == `a op b and b op c`, b evaluated once;
            # short-circuit evaluation of later operands is respected by forking
            if not self.truth(r):
                return r if not isinstance(r, SBool) else False
            left = right
            result = r
        return True if isinstance(result, SBool) else result

    def compare(self, op, l, r):
        if isinstance(op, ast.Is):
            return self.identical(l, r)
        if isinstance(op, ast.IsNot):
            v = self.identical(l, r)
            return lift(z3.Not(v.t)) if isinstance(v, SBool) else (not v)
        if isinstance(op, ast.In):
            return self.contains(r, l)
        if isinstance(op, ast.NotIn):
            v = self.contains(r, l)
            return lift(z3.Not(v.t)) if isinstance(v, SBool) else (not v)
        return self.cmp(_CMPOPS[type(op)], l, r)

    def identical(self, l, r):
        if l is None or r is None:
            if isinstance(l, Sym) or isinstance(r, Sym):
                other = l if r is None else r
                h = getattr(other, "is_none", None)
                if h is not None:
                    return h()
                return False
            return l is r
        if isinstance(l, (bool, int, str)) and isinstance(r, (bool, int, str)):
            return type(l) is type(r) and l == r
        if isinstance(l, SOpq) and isinstance(r, SOpq):
            return lift(l.t == r.t)
        if isinstance(l, Sym) or isinstance(r, Sym):
            raise Unsupported("`is` on symbolic scalars")
        return l is r

    # ------------------------------------------------------------------ truthiness
    def truth(self, v) -> bool:
        if isinstance(v, bool):
            return v
        if isinstance(v, SBool):
            return self.ctx.branch(v.t)
        if isinstance(v, SInt):
            return self.ctx.branch(v.t != 0)
        if isinstance(v, SStr):
            return self.ctx.branch(z3.Length(v.t) > 0)
        if isinstance(v, Sym):
            h = getattr(v, "truth", None)
            if h is not None:
                return self.truth(h(self))
            raise Unsupported(f"truth of {v!r}")
        if isinstance(v, SObj):
            f, _ = v.cls.lookup("__bool__")
            if f is not None:
                return self.truth(self.call(f, [v], {}))
            f, _ = v.cls.lookup("__len__")
            if f is not None:
                return self.truth(self.cmp("!=", self.call(f, [v], {}), 0))
            return True
        if isinstance(v, FlagVal):
            return v.value != 0
        if isinstance(v, (EnumVal, ClassVal, FuncVal, BoundMethod, Builtin, ExtVal, ModuleRef)):
            return True
        return bool(v)

    # ------------------------------------------------------------------ operators
    def binop(self, op, l, r, inplace=False):
        if inplace and op == "|":
            from .symcoll import SDict, SSet, SColl
            if isinstance(l, SDict) and isinstance(r, (SDict, dict)):
                if isinstance(r, dict):
                    if r:
                        raise Unsupported("symbolic dict |= concrete non-empty dict")
                    return l
                return l.inplace_or(self, r)
            if isinstance(l, SSet) and isinstance(r, SColl):
                l.arr = l.union_arr(r)
                l.note(self)
                return l
        if inplace and op in ("&", "-", "^"):
            # set.__iand__ / __isub__ / __ixor__ mutate the left operand (every alias sees it)
            from .symcoll import SSet, SColl
            if isinstance(l, SSet) and isinstance(r, SColl):
                if op == "^":
                    raise Unsupported("symbolic set ^=")
                out = l.binop(self, op, r, False)
                if out is NotImplemented:
                    raise Unsupported(f"symbolic set {op}= {r!r}")
                l.arr = out.arr
                l.note(self)
                return l
        if inplace and type(l) is set and isinstance(r, (set, frozenset)) and op in ("|", "&", "-", "^") \
                and not any(isinstance(x, SObj) for x in l) and not any(isinstance(x, SObj) for x in r):
            if op == "|":
                l |= r
            elif op == "&":
                l &= r
            elif op == "-":
                l -= r
            else:
                l ^= r
            return l
        # symbolic ints
        if isinstance(l, (SInt, SBool)) or isinstance(r, (SInt, SBool)):
            if _intlike(l) and _intlike(r):
                return self.int_binop(op, l, r)
        if op == "*" and getattr(self.e, "rope_mode", False) and ((isinstance(l, str) and isinstance(r, SInt)) or (isinstance(r, str) and isinstance(l, SInt))):
            from .rope import Rope
            return Rope.rep(self, l, r) if isinstance(l, str) else Rope.rep(self, r, l)
        if isinstance(l, SStr) or isinstance(r, SStr):
            if op == "+" and _strlike(l) and _strlike(r):
                return lift(z3.Concat(to_z3(l), to_z3(r)))
            if op == "*":
                raise Unsupported("string repetition with symbolic operand")
        if isinstance(l, Sym) and hasattr(l, "binop"):
            out = l.binop(self, op, r, False)
            if out is not NotImplemented:
                return out
        if isinstance(r, Sym) and hasattr(r, "binop"):
            out = r.binop(self, op, l, True)
            if out is not NotImplemented:
                return out
        if isinstance(l, FlagVal) and isinstance(r, FlagVal) and op in ("|", "&", "^"):
            return FlagVal(l.cls, _PYOPS[op](l.value, r.value))
        if isinstance(l, SObj) or isinstance(r, SObj):
            name = _DUNDER[op]
            if isinstance(l, SObj):
                if inplace:
                    f, _ = l.cls.lookup(f"__i{name}__")
                    if f is not None:
                        return self.call(f, [l, r], {})
                f, _ = l.cls.lookup(f"__{name}__")
                if f is not None:
                    out = self.call(f, [l, r], {})
                    if out is not NotImplemented:
                        return out
            if isinstance(r, SObj):
                f, _ = r.cls.lookup(f"__r{name}__")
                if f is not None:
                    out = self.call(f, [r, l], {})
                    if out is not NotImplemented:
                        return out
            self.throw("TypeError", f"unsupported operand type(s) for {op}")
        def _tylike(x):
            return isinstance(x, (ClassVal, ExtVal)) or x is None or (isinstance(x, Builtin) and x.name in self.e.bclasses) \
                or (isinstance(x, tuple) and len(x) == 3 and x[0] == "union")
        if op == "|" and _tylike(l) and _tylike(r):
            return ("union", l, r)  # typing union
        if isinstance(l, tuple) and l and l[0] == "union" and op == "|":
            return ("union", l, r)
        if isinstance(l, Sym) or isinstance(r, Sym):
            raise Unsupported(f"binary {op} on {l!r}, {r!r}")
        if isinstance(l, dict) and isinstance(r, dict) and op == "|":
            return {**l, **r}
        if op in ("&", "|", "-", "^") and self._setlike(l) and self._setlike(r) and (any(isinstance(x, SObj) for x in l) or any(isinstance(x, SObj) for x in r)):
            # set algebra over heap objects: members are compared with the objects' own equality
            L, R = list(l), list(r)

            def eq(a, b):
                if a is b:
                    return True
                if isinstance(a, SObj) and isinstance(b, SObj):
                    c = self.cmp("==", a, b)
                    if isinstance(c, bool):
                        return c
                    raise Unsupported("symbolic equality between set members")
                return not isinstance(a, SObj) and not isinstance(b, SObj) and not is_symbolic(a) and not is_symbolic(b) and a == b
            inter = [a for a in L if any(eq(a, b) for b in R)]
            only_r = [b for b in R if not any(eq(a, b) for a in L)]
            if op == "&":
                res = set(inter)
            elif op == "-":
                res = {a for a in L if not any(eq(a, b) for b in R)}
            elif op == "|":
                res = set(L) | set(only_r)
            else:
                res = {a for a in L if not any(eq(a, b) for b in R)} | set(only_r)
            if inplace and type(l) is set:
                l.clear()
                l.update(res)          # `s &= t` mutates s (aliases see it)
                return l
            return res
        if op == "+" and inplace and type(l).__name__ == "Deque" and isinstance(r, (list, tuple)):
            l.extend(r)
            return l
        if op == "+" and type(l) is list and type(r) is list:
            if inplace:
                l.extend(r)          # `xs += ys` mutates xs (aliases see it)
                return l
            return l + r
        if op == "+" and type(l) is list and inplace and type(r) is tuple:
            l.extend(r)
            return l
        if op == "+" and type(l) is tuple and type(r) is tuple:
            return l + r
        if not (_plain(l) and _plain(r)):
            raise Unsupported(f"binary {op} on {l!r}, {r!r}")
        try:
            return _PYOPS[op](l, r)
        except ZeroDivisionError:
            self.throw("ZeroDivisionError")
        except TypeError as ex:
            self.throw("TypeError", str(ex))

    def int_binop(self, op, l, r):
        a, b = _as_int(l), _as_int(r)
        if isinstance(l, (bool, SBool)) and isinstance(r, (bool, SBool)) and op in ("&", "|", "^"):
            la, rb = to_z3(l), to_z3(r)
            return lift({"&": z3.And, "|": z3.Or, "^": z3.Xor}[op](la, rb))
        if op == "+":
            return lift(a + b)
        if op == "-":
            return lift(a - b)
        if op == "*":
            return lift(a * b)
        if op in ("//", "%"):
            if self.ctx.branch(b == 0):
                self.throw("ZeroDivisionError")
            return lift(py_floordiv(a, b) if op == "//" else py_mod(a, b))
        if op == "**":
            if isinstance(r, int) and not isinstance(r, bool) and 0 <= r <= 64:
                out = z3.IntVal(1)
                for _ in range(r):
                    out = out * a
                return lift(out)
            if isinstance(l, int) and l == 2:
                raise Unsupported("2 ** symbolic")
        if op == "<<":
            if isinstance(r, int) and 0 <= r <= 4096:
                return lift(a * z3.IntVal(1 << r))
        if op == ">>":
            if isinstance(r, int) and 0 <= r <= 4096:
                return lift(py_floordiv(a, z3.IntVal(1 << r)))
        raise Unsupported(f"integer operator {op} on symbolic operands")

    def cmp(self, op, l, r):
        if isinstance(l, (SInt, SBool)) or isinstance(r, (SInt, SBool)):
            if _intlike(l) and _intlike(r):
                if isinstance(l, (bool, SBool)) and isinstance(r, (bool, SBool)) and op in ("==", "!="):
                    t = to_z3(l) == to_z3(r)
                    return lift(t if op == "==" else z3.Not(t))
                return lift(_PYOPS[op](_as_int(l), _as_int(r)))
            if op == "==":
                return False
            if op == "!=":
                return True
        if isinstance(l, SStr) or isinstance(r, SStr):
            if _strlike(l) and _strlike(r):
                a, b = to_z3(l), to_z3(r)
                if op == "==":
                    return lift(a == b)
                if op == "!=":
                    return lift(a != b)
                if op == "<":
                    return lift(a < b)
                if op == "<=":
                    return lift(a <= b)
                if op == ">":
                    return lift(b < a)
                if op == ">=":
                    return lift(b <= a)
            if op == "==":
                return False
            if op == "!=":
                return True
        if isinstance(l, Sym) and hasattr(l, "cmp"):
            out = l.cmp(self, op, r)
            if out is not NotImplemented:
                return out
        if isinstance(r, Sym) and hasattr(r, "cmp"):
            out = r.cmp(self, _CMP_SWAP[op], l)
            if out is not NotImplemented:
                return out
        if isinstance(l, SObj) or isinstance(r, SObj):
            return self.obj_cmp(op, l, r)
        if isinstance(l, (tuple, list)) and isinstance(r, (tuple, list)) and type(l) is type(r):
            return self.seq_cmp(op, list(l), list(r))
        if isinstance(l, (EnumVal,)) or isinstance(r, (EnumVal,)):
            if op == "==":
                return l is r
            if op == "!=":
                return l is not r
            if isinstance(l, EnumVal) and isinstance(r, EnumVal):
                fn, _ = l.cls.lookup(_CMP_DUNDER[op])
                if fn is not None:
                    return self.call(fn, [l, r], {})
            self.throw("TypeError", "enum ordering")
        if isinstance(l, FlagVal) and isinstance(r, FlagVal):
            if op == "==":
                return l.cls is r.cls and l.value == r.value
            if op == "!=":
                return not (l.cls is r.cls and l.value == r.value)
        if isinstance(l, SOpq) and isinstance(r, SOpq) and op in ("==", "!="):
            t = l.t == r.t if l.kind == r.kind else z3.BoolVal(False)
            return lift(t if op == "==" else z3.Not(t))
        if isinstance(l, Sym) or isinstance(r, Sym):
            if op in ("==", "!=") and (l is None or r is None):
                v = self.identical(l, r)
                if op == "==":
                    return v
                return lift(z3.Not(v.t)) if isinstance(v, SBool) else (not v)
            raise Unsupported(f"comparison {op} on {l!r}, {r!r}")
        if isinstance(l, dict) and isinstance(r, dict) and op in ("==", "!="):
            if set(l.keys()) != set(r.keys()):
                return op == "!="
            v = self.seq_cmp("==", [l[k] for k in l], [r[k] for k in l])
            if op == "==":
                return v
            return lift(z3.Not(v.t)) if isinstance(v, SBool) else (not v)
        if self._setlike(l) and self._setlike(r) and not (_plain(l) and _plain(r)):
            # sets of heap objects: members compare by identity, or by value for frozen dataclasses
            # (SObj.__eq__/__hash__), exactly what Python's set comparison uses
            if any(is_symbolic(x) for x in l) or any(is_symbolic(x) for x in r):
                raise Unsupported(f"comparison {op} of sets with symbolic members")
            return _PYOPS[op](set(l), set(r))
        if not (_plain(l) and _plain(r)):
            if op == "==":
                return l is r
            if op == "!=":
                return l is not r
            raise Unsupported(f"comparison {op} on {l!r}, {r!r}")
        try:
            return _PYOPS[op](l, r)
        except TypeError as ex:
            self.throw("TypeError", str(ex))

    def seq_cmp(self, op, l, r):
        """Lexicographic comparison of two concrete-length sequences with symbolic items."""
        if op in ("==", "!="):
            if len(l) != len(r):
                return op == "!="
            conj = [to_zbool(self.cmp("==", a, b)) for a, b in zip(l, r)]
            t = z3.And(*conj) if conj else z3.BoolVal(True)
            return lift(t if op == "==" else z3.Not(t))
        # ordering: first differing position decides
        strict = op in ("<", ">")
        lt = "<" if op in ("<", "<=") else ">"
        n = min(len(l), len(r))
        # tail result when all n leading items are equal
        if op in ("<", "<="):
            tail = len(l) < len(r) or (not strict and len(l) == len(r))
        else:
            tail = len(l) > len(r) or (not strict and len(l) == len(r))
        res = z3.BoolVal(tail)
        for i in reversed(range(n)):
            eq = to_zbool(self.cmp("==", l[i], r[i]))
            less = to_zbool(self.cmp(lt, l[i], r[i]))
            res = z3.If(eq, res, less)
        return lift(res)

    def obj_cmp(self, op, l, r):
        if isinstance(l, SObj):
            f, owner = l.cls.lookup(_CMP_DUNDER[op])
            if f is not None:
                out = self.call(f, [l, r], {})
                if out is not NotImplemented:
                    return out
            dc = _dc_params(l.cls)
            if dc is not None and isinstance(r, SObj) and r.cls is l.cls:
                fl = [l.fields.get(k) for k in l.cls.dc_fields() if _compare_field(l.cls, k)]
                fr_ = [r.fields.get(k) for k in r.cls.dc_fields() if _compare_field(r.cls, k)]
                if op in ("==", "!=") and dc.get("eq", True):
                    return self.seq_cmp(op, fl, fr_)
                if op in ("<", "<=", ">", ">=") and dc.get("order", False):
                    return self.seq_cmp(op, fl, fr_)
            if op in ("<", "<=", ">", ">=") and any(getattr(c, "total_ordering", False) for c in l.cls.mro()):
                # functools.total_ordering: the missing comparisons are derived from the one defined
                # (here: from __lt__ / __le__ / __gt__ / __ge__, whichever exists) and __eq__
                def neg(v):
                    return lift(z3.Not(to_zbool(v))) if not isinstance(v, bool) else (not v)

                def disj(a, b):
                    return (a or b) if isinstance(a, bool) and isinstance(b, bool) else lift(z3.Or(to_zbool(a), to_zbool(b)))

                def conj(a, b):
                    return (a and b) if isinstance(a, bool) and isinstance(b, bool) else lift(z3.And(to_zbool(a), to_zbool(b)))
                have = next((o for o in ("<", "<=", ">", ">=") if l.cls.lookup(_CMP_DUNDER[o])[0] is not None), None)
                if have is not None and have != op:
                    base = self.truth_value(self.call(l.cls.lookup(_CMP_DUNDER[have])[0], [l, r], {}))
                    eq = self.truth_value(self.cmp("==", l, r))
                    table = {
                        ("<", "<="): lambda: disj(base, eq), ("<", ">"): lambda: conj(neg(base), neg(eq)), ("<", ">="): lambda: neg(base),
                        ("<=", "<"): lambda: conj(base, neg(eq)), ("<=", ">"): lambda: neg(base), ("<=", ">="): lambda: disj(neg(base), eq),
                        (">", ">="): lambda: disj(base, eq), (">", "<"): lambda: conj(neg(base), neg(eq)), (">", "<="): lambda: neg(base),
                        (">=", ">"): lambda: conj(base, neg(eq)), (">=", "<"): lambda: neg(base), (">=", "<="): lambda: disj(neg(base), eq),
                    }
                    return table[(have, op)]()
        if isinstance(r, SObj) and not isinstance(l, SObj):
            f, _ = r.cls.lookup(_CMP_DUNDER[_CMP_SWAP[op]])
            if f is not None:
                out = self.call(f, [r, l], {})
                if out is not NotImplemented:
                    return out
        if op == "==":
            if isinstance(l, SObj) and isinstance(r, SObj) and _dc_params(l.cls) is not None and r.cls is not l.cls:
                return False
            return l is r
        if op == "!=":
            v = self.obj_cmp("==", l, r)
            return lift(z3.Not(v.t)) if isinstance(v, SBool) else (not v)
        self.throw("TypeError", f"'{op}' not supported between instances")

    def contains(self, coll, x):
        if isinstance(coll, Sym) and hasattr(coll, "contains"):
            return coll.contains(self, x)
        if isinstance(coll, SObj):
            f, _ = coll.cls.lookup("__contains__")
            if f is not None:
                return self.truth_value(self.call(f, [coll, x], {}))
            raise Unsupported("`in` on object without __contains__")
        if isinstance(coll, SStr) or (isinstance(coll, str) and isinstance(x, SStr)):
            return lift(z3.Contains(to_z3(coll), to_z3(x)))
        if isinstance(coll, FlagVal) and isinstance(x, FlagVal):
            return (coll.value & x.value) == x.value
        if isinstance(coll, (list, tuple, set, frozenset, dict)) or type(coll).__name__ in ("dict_keys", "dict_values"):
            items = list(coll)
            if not is_symbolic(x) and not isinstance(x, SObj) and all(not is_symbolic(i) and not isinstance(i, SObj) for i in items):
                return x in coll
            disj = [to_zbool(self.cmp("==", x, i)) for i in items]
            return lift(z3.Or(*disj)) if disj else False
        if isinstance(coll, (str, range)) and not is_symbolic(x):
            return x in coll
        if isinstance(coll, ClassVal) and coll.enum_kind:
            return isinstance(x, (EnumVal, FlagVal)) and x.cls is coll
        raise Unsupported(f"`in` on {coll!r}")

    @staticmethod
    def _setlike(v):
        return isinstance(v, (set, frozenset)) or type(v).__name__ == "dict_keys"

    def truth_value(self, v):
        """bool(v) without forking when v is already boolean-like."""
        if isinstance(v, (bool, SBool)):
            return v
        return self.truth(v)

    # ------------------------------------------------------------------ attributes / items
    def getattr(self, o, name):
        from .attrs import get_attr
        return get_attr(self, o, name)

    def setattr(self, o, name, v):
        from .attrs import set_attr
        set_attr(self, o, name, v)

    def getitem(self, o, k):
        from .attrs import get_item
        return get_item(self, o, k)

    def setitem(self, o, k, v):
        from .attrs import set_item
        set_item(self, o, k, v)

    def delitem(self, o, k):
        if isinstance(o, Sym) and hasattr(o, "delitem"):
            return o.delitem(self, k)
        if isinstance(o, (dict, list)) and not is_symbolic(k):
            try:
                del o[k]
            except (KeyError, IndexError):
                self.throw("KeyError", k)
            return
        raise Unsupported("del item")

    def iterate(self, v) -> list:
        """Concrete list of the items of an iterable (symbolic collections refuse)."""
        if isinstance(v, (list, tuple)):
            return list(v)
        if isinstance(v, dict):
            return list(v.keys())
        if isinstance(v, (set, frozenset)):
            # set iteration order is unspecified in Python: pyvc enumerates in a canonical order,
            # or in the reverse of it when `engine.set_order == "reverse"` (used by the
            # order-independence obligations of C10)
            items = sorted(v, key=_canon_key)
            return items[::-1] if getattr(self.e, "set_order", "forward") == "reverse" else items
        if isinstance(v, (range, str)) or type(v).__name__ in ("dict_keys", "dict_values", "dict_items", "zip", "enumerate", "reversed", "map", "filter", "list_iterator", "generator", "list_reverseiterator", "tuple_iterator"):
            return list(v)
        if isinstance(v, Sym) and hasattr(v, "iterate"):
            return v.iterate(self)
        if isinstance(v, ClassVal) and v.enum_kind:
            return list(v.members.values())
        if isinstance(v, SObj):
            f, _ = v.cls.lookup("__iter__")
            if f is not None:
                return self.iterate(self.call(f, [v], {}))
            if any(getattr(c, "namedtuple", False) for c in v.cls.mro()):
                return [v.fields[n] for n in v.cls.dc_fields()]
        raise Unsupported(f"iteration over {v!r}")

    # ------------------------------------------------------------------ comprehensions
    def _uniform_comp(self, n, fr, lazy):
        """`[elt for x in src]` over a value with a `map_comp` hook (no filters, one generator)."""
        if len(n.generators) != 1 or n.generators[0].ifs or n.generators[0].is_async:
            return None
        g = n.generators[0]
        if not isinstance(g.iter, (ast.Name, ast.Attribute, ast.Subscript)):
            return None
        src = self.eval(g.iter, fr)
        if not (isinstance(src, Sym) and hasattr(src, "map_comp")):
            return None

        def fn(x):
            inner = Frame(fr.module, fr.func, fr)
            inner.globals_decl = fr.globals_decl
            self.assign(g.target, x, inner)
            return self.eval(n.elt, inner)
        return src.map_comp(self, fn, lazy)

    def e_ListComp(self, n, fr):
        u = self._uniform_comp(n, fr, False)
        if u is not None:
            return u
        from .symcoll import try_symbolic_listcomp
        r = try_symbolic_listcomp(self, n, fr)
        if r is not None and r[0] == "sym":
            return r[1]
        out = []
        self.comp(n.generators, 0, fr, lambda f: out.append(self.eval(n.elt, f)), pre=r)
        return out

    def e_SetComp(self, n, fr):
        out = []
        self.comp(n.generators, 0, fr, lambda f: out.append(self.eval(n.elt, f)))
        return set(self.hashable(x) for x in out)

    def e_GeneratorExp(self, n, fr):
        u = self._uniform_comp(n, fr, True)
        if u is not None:
            return u
        from .symcoll import try_symbolic_genexp
        sg = try_symbolic_genexp(self, n, fr)
        if sg is not None:
            return sg
        out = []
        self.comp(n.generators, 0, fr, lambda f: out.append(self.eval(n.elt, f)))
        return out

    def e_DictComp(self, n, fr):
        from .symcoll import try_symbolic_dictcomp
        sd = try_symbolic_dictcomp(self, n, fr)
        if sd is not None and sd[0] == "sym":
            return sd[1]
        out = {}

        def add(f):
            k = self.eval(n.key, f)
            out[self.hashable(k)] = self.eval(n.value, f)
        self.comp(n.generators, 0, fr, add, pre=sd)
        return out

    def comp(self, gens, i, fr, emit, pre=None):
        if i == 0:
            inner = Frame(fr.module, fr.func, fr)
            inner.globals_decl = fr.globals_decl
            fr = inner
        if i == len(gens):
            emit(fr)
            return
        g = gens[i]
        src = pre[1] if (i == 0 and pre is not None and pre[0] == "concrete") else self.eval(g.iter, fr)
        for x in self.iterate(src):
            self.assign(g.target, x, fr)
            if all(self.truth(self.eval(c, fr)) for c in g.ifs):
                self.comp(gens, i + 1, fr, emit)

    # ------------------------------------------------------------------ calls
    def e_Call(self, n, fr):
        fn = self.eval(n.func, fr)
        args = []
        for a in n.args:
            if isinstance(a, ast.Starred):
                v = self.eval(a.value, fr)
                from .symcoll import SGen
                if isinstance(v, SGen):
                    args.append(("*sym", v))
                else:
                    args.extend(self.iterate(v))
            else:
                args.append(self.eval(a, fr))
        kwargs = {}
        for k in n.keywords:
            if k.arg is None:
                kwargs.update(self.as_dict(self.eval(k.value, fr)))
            else:
                kwargs[k.arg] = self.eval(k.value, fr)
        # zero-argument super()
        if isinstance(fn, Builtin) and fn.name == "super" and not args:
            return self.make_super(fr)
        return self.call(fn, args, kwargs, node=n)

    def make_super(self, fr):
        f = fr
        while f is not None and (f.func is None or f.func.owner is None):
            f = f.parent
        if f is None:
            raise Unsupported("super() outside method")
        params = f.func.node.args
        first = (params.posonlyargs + params.args)[0].arg
        return ("super", f.func.owner, f.locals[first])

    def call(self, fn, args, kwargs, node=None):
        from .calls import do_call
        return do_call(self, fn, args, kwargs, node)

    def call_method(self, o, name, args, kwargs=None):
        return self.call(self.getattr(o, name), list(args), kwargs or {})

    def e_Await(self, n, fr):
        raise Unsupported("await")

    def e_Yield(self, n, fr):
        # only meaningful inside an inline-expanded @contextmanager function
        f = fr
        while f is not None and f.with_body is None:
            f = f.parent if f.func is fr.func else None
        if f is None or f.with_body is None:
            raise Unsupported("yield outside a @contextmanager expansion")
        val = self.eval(n.value, fr) if n.value is not None else None
        hook = f.with_body
        return hook(val)

    def e_Slice(self, n, fr):
        return self.eval_index(n, fr)


_PENDING = object()


def _canon_key(x):
    if isinstance(x, SObj):
        return (1, x.oid, "")
    return (0, 0, repr(x))


def _plain(v):
    if v is None or isinstance(v, (bool, int, float, str, bytes, range, slice, complex)):
        return True
    if isinstance(v, (list, tuple, set, frozenset)):
        return all(_plain(x) for x in v)
    if isinstance(v, dict):
        return all(_plain(k) and _plain(x) for k, x in v.items())
    if type(v).__name__ == "dict_keys":
        return all(_plain(k) for k in v)
    return False


def _intlike(v):
    return isinstance(v, (SInt, SBool, int)) and not isinstance(v, str)


def _strlike(v):
    return isinstance(v, (SStr, str))


def _as_int(v):
    if isinstance(v, SInt):
        return v.t
    if isinstance(v, SBool):
        return z3.If(v.t, z3.IntVal(1), z3.IntVal(0))
    if isinstance(v, bool):
        return z3.IntVal(int(v))
    return z3.IntVal(v)


def to_zbool(v):
    if isinstance(v, SBool):
        return v.t
    if isinstance(v, bool):
        return z3.BoolVal(v)
    if isinstance(v, z3.ExprRef):
        return v
    raise Unsupported(f"expected boolean, got {v!r}")


def _dotted(n):
    if isinstance(n, ast.Name):
        return n.id
    if isinstance(n, ast.Attribute):
        b = _dotted(n.value)
        return (b + "." if b else "") + n.attr
    return ""


def _dc_params(cls):
    for c in cls.mro():
        if c.dataclass is not None:
            return c.dataclass
    return None


def _compare_field(cls, name):
    return name not in getattr(cls, "nocompare", ())


def _exec_snippet(self, module, src, env=None):
    """Run harness code (NOT repository code) in the namespace of a repo module; used to drive
    real classes through Python's own protocols (e.g. a `with` statement)."""
    tree = ast.parse(src)
    fr = Frame(module)
    fr.locals = dict(env or {})
    fr.func = None
    fr.is_snippet = True
    try:
        self.exec_block(tree.body, fr)
    except _Return as r:
        fr.locals["__return__"] = r.value
    return fr.locals


Interp.exec_snippet = _exec_snippet
