"""Loops (unrolled, or cut at a contract-supplied invariant) and `with` statements."""
from __future__ import annotations

import ast

import z3

from .values import (SObj, Sym, FuncVal, BoundMethod, ClassVal, PyRaise, _Return, _Break, _Continue,
                     Unsupported, PathEnd, Builtin)
from .interp import Frame


class LoopSpec:
    """Contract of one loop: identified by function key + ordinal; `header` must equal
    ast.unparse of the loop's test (while) / `target in iter` (for) in the current source."""

    def __init__(self, header, invariant, havoc, modifies=(), decreases=None, after=None):
        self.header = header
        self.invariant = invariant
        self.havoc = havoc
        self.modifies = set(modifies)
        self.decreases = decreases
        self.after = after


def loop_ordinal(fv: FuncVal, st) -> int:
    n = 0
    for node in ast.walk(fv.node):
        pass
    # source order walk
    count = [0]
    found = [None]

    def walk(n):
        for c in ast.iter_child_nodes(n):
            if isinstance(c, (ast.FunctionDef, ast.AsyncFunctionDef, ast.Lambda, ast.ClassDef)):
                continue
            if isinstance(c, (ast.While, ast.For)):
                if c is st:
                    found[0] = count[0]
                count[0] += 1
            walk(c)
    walk(fv.node)
    return found[0]


def _stored_names(stmts):
    out = set()
    for s in stmts:
        for n in ast.walk(s):
            if isinstance(n, ast.Name) and isinstance(n.ctx, (ast.Store, ast.Del)):
                out.add(n.id)
    return out


def find_spec(it, st, fr, header):
    if fr.func is None:
        return None
    key = f"{fr.module.name}:{fr.func.qualname}"
    specs = it.e.loop_specs.get(key) if hasattr(it.e, "loop_specs") else None
    if not specs:
        return None
    o = loop_ordinal(fr.func, st)
    spec = specs.get(o)
    if spec is None:
        return None
    if spec.header != header:
        raise Unsupported(f"loop contract for {key} loop #{o} no longer binds: contract header "
                          f"{spec.header!r} vs source {header!r}")
    return spec


def exec_while(it, st, fr):
    header = ast.unparse(st.test)
    spec = find_spec(it, st, fr, header)
    if spec is not None:
        return _cut_loop(it, st, fr, spec, lambda: it.truth(it.eval(st.test, fr)), None)
    sym_iters = 0
    while True:
        before = len(it.ctx.taken)
        if not it.truth(it.eval(st.test, fr)):
            it.exec_block(st.orelse, fr)
            return
        try:
            it.exec_block(st.body, fr)
        except _Break:
            return
        except _Continue:
            pass
        if len(it.ctx.taken) != before:
            sym_iters += 1
            if sym_iters > it.e.max_unroll:
                raise Unsupported(f"while loop at {fr.module.path}:{st.lineno} needs an invariant "
                                  f"(unrolled {sym_iters} symbolic iterations)")


def _cut_loop(it, st, fr, spec, test, bind, havoc_more=None):
    ctx = it.ctx
    key = f"{fr.module.name}:{fr.func.qualname}"
    stored = _stored_names(st.body) | (_stored_names([st.target]) if isinstance(st, ast.For) else set())
    undeclared = {n for n in stored if n not in spec.modifies}
    # names stored in the body must be declared (so that they are havocked) unless they are
    # body-local temporaries, i.e. not defined before the loop
    bad = {n for n in undeclared if n in fr.locals}
    if bad:
        raise Unsupported(f"loop contract of {key}: body assigns {sorted(bad)} not listed in modifies")
    ctx.obligate(f"{key}#loop@{st.lineno}:invariant-holds-on-entry", spec.invariant(it, fr),
                 func=key, line=st.lineno)
    spec.havoc(it, fr)
    if havoc_more is not None:
        havoc_more()
    ctx.assume(spec.invariant(it, fr))
    ctx.mutated = set()
    if test():
        if bind is not None:
            bind()
        try:
            it.exec_block(st.body, fr)
        except _Continue:
            pass
        except _Break:
            if spec.after is not None:
                spec.after(it, fr)
            return
        ctx.obligate(f"{key}#loop@{st.lineno}:invariant-preserved", spec.invariant(it, fr),
                     func=key, line=st.lineno)
        raise PathEnd("loop cut")
    else:
        it.exec_block(st.orelse, fr)
        if spec.after is not None:
            spec.after(it, fr)


def exec_for(it, st, fr):
    itv = it.eval(st.iter, fr)
    header = f"{ast.unparse(st.target)} in {ast.unparse(st.iter)}"
    spec = find_spec(it, st, fr, header)
    if spec is not None:
        # Loop over a symbolic collection, cut at the invariant.  The collection is iterated as
        # the SET of its elements in an ARBITRARY order (ghost `__processed__` = elements done):
        # sound for every order; a list with repeated elements is visited once per distinct
        # element (stated assumption: loop bodies under such contracts are idempotent per element).
        import z3
        from .symcoll import SColl, SDict, STup, SSet
        if hasattr(itv, "seq_len"):
            # indexed sequence of symbolic length: ghost `__index__` = number of items done
            from .values import SInt
            N = itv.seq_len(it)
            fr.locals["__index__"] = 0
            st_ = {}

            def havoc_idx():
                i = z3.Int(it.ctx.fresh_name("idx"))
                it.ctx.assume(z3.And(i >= 0, i <= N))
                fr.locals["__index__"] = SInt(i)

            def test_idx():
                i = fr.locals["__index__"]
                it_ = i.t if isinstance(i, SInt) else z3.IntVal(i)
                st_["i"] = it_
                return it.ctx.branch(it_ < N)

            def bind_idx():
                it.assign(st.target, itv.seq_item(it, st_["i"]), fr)
                from .values import lift
                fr.locals["__index__"] = lift(st_["i"] + 1)
            return _cut_loop(it, st, fr, spec, test_idx, bind_idx, havoc_idx)
        if isinstance(itv, STup):
            coll, conv = itv.gen.coll, itv.gen.fn
        elif isinstance(itv, SDict):
            coll, conv = itv.keyset(), None
        elif isinstance(itv, SColl):
            coll, conv = itv, None
        else:
            raise Unsupported("for-loop contract on a concrete iterable")
        el = coll.elem
        fr.locals["__processed__"] = SSet(el, z3.K(el.sort, z3.BoolVal(False)))
        fr.locals["__iterated__"] = coll

        def havoc_more():
            P = z3.Const(it.ctx.fresh_name("processed"), z3.ArraySort(el.sort, z3.BoolSort()))
            fr.locals["__processed__"] = SSet(el, P)
            q = z3.Const("pq!" + el.kind, el.sort)
            it.ctx.assume(z3.ForAll([q], z3.Implies(z3.Select(P, q), z3.Select(coll.arr, q))))
        state = {}

        def test():
            P = fr.locals["__processed__"].arr
            q = z3.Const("rq!" + el.kind, el.sort)
            more = z3.Exists([q], z3.And(z3.Select(coll.arr, q), z3.Not(z3.Select(P, q))))
            if it.ctx.branch(more):
                k = el.fresh(it, "cur")
                it.ctx.assume(z3.And(z3.Select(coll.arr, k), z3.Not(z3.Select(P, k))))
                state["k"] = k
                return True
            return False

        def bind():
            k = state["k"]
            x = el.wrap(k)
            it.assign(st.target, conv(x) if conv is not None else x, fr)
            P = fr.locals["__processed__"].arr
            fr.locals["__processed__"] = SSet(el, z3.Store(P, k, z3.BoolVal(True)))
        return _cut_loop(it, st, fr, spec, test, bind, havoc_more)
    items = it.iterate(itv)
    for x in items:
        it.assign(st.target, x, fr)
        try:
            it.exec_block(st.body, fr)
        except _Break:
            return
        except _Continue:
            continue
    it.exec_block(st.orelse, fr)


class NativeCM:
    """Context manager modelled natively (e.g. contextlib.suppress)."""

    def __init__(self, enter, exit_):
        self.enter = enter
        self.exit = exit_


def exec_with(it, st, fr, idx):
    if idx == len(st.items):
        it.exec_block(st.body, fr)
        return
    item = st.items[idx]
    from .calls import is_contextmanager, call_function
    ce = item.context_expr
    # @contextmanager generator function: inline expansion at the yield
    if isinstance(ce, ast.Call):
        fn = it.eval(ce.func, fr)
        target = fn.func if isinstance(fn, BoundMethod) else fn
        if is_contextmanager(target) and f"{target.module.name}:{target.qualname}" not in it.e.models:
            args = [it.eval(a, fr) for a in ce.args]
            if isinstance(fn, BoundMethod):
                args = [fn.self_val] + args
            kwargs = {k.arg: it.eval(k.value, fr) for k in ce.keywords}
            state = {"entered": False, "ctl": None}

            def body(val):
                if state["entered"]:
                    raise Unsupported("context manager generator yielded twice")
                state["entered"] = True
                if item.optional_vars is not None:
                    it.assign(item.optional_vars, val, fr)
                try:
                    exec_with(it, st, fr, idx + 1)
                except (_Return, _Break, _Continue) as c:
                    state["ctl"] = c
                return None
            try:
                call_function(it, target, args, kwargs, with_body=body)
            except PyRaise:
                raise
            if not state["entered"]:
                it.throw("RuntimeError", "generator didn't yield")
            if state["ctl"] is not None:
                raise state["ctl"]
            return
    cm = it.eval(ce, fr)
    if isinstance(cm, NativeCM):
        val = cm.enter()
        if item.optional_vars is not None:
            it.assign(item.optional_vars, val, fr)
        try:
            exec_with(it, st, fr, idx + 1)
        except PyRaise as pr:
            if not cm.exit(pr.exc):
                raise
        except (_Return, _Break, _Continue):
            cm.exit(None)
            raise
        else:
            cm.exit(None)
        return
    if isinstance(cm, SObj):
        enter, _ = cm.cls.lookup("__enter__")
        exit_, _ = cm.cls.lookup("__exit__")
        if enter is None or exit_ is None:
            it.throw("TypeError", "object does not support the context manager protocol")
        val = it.call(enter, [cm], {})
        if item.optional_vars is not None:
            it.assign(item.optional_vars, val, fr)
        try:
            exec_with(it, st, fr, idx + 1)
        except PyRaise as pr:
            res = it.call(exit_, [cm, pr.exc.cls, pr.exc, None], {})
            if not it.truth(res):
                raise
        except (_Return, _Break, _Continue):
            it.call(exit_, [cm, None, None, None], {})
            raise
        else:
            it.call(exit_, [cm, None, None, None], {})
        return
    raise Unsupported(f"with-statement over {cm!r}")
