"""Symbolic text for layout proofs: ropes and line sequences.

A `Rope` is a string described by a list of segments whose *lengths and positions* are z3
integer terms while their characters are either literal or inherited from an abstract source:

  ("lit", s)            the literal Python string s
  ("rep", ch, n)        the character ch repeated n times (n >= 0 is part of the path condition)
  ("dec", t)            the decimal numeral of the integer term t (t >= 0 on the path)
  ("sub", n, lo, hi)    columns lo..hi-1 of source line number n (0 <= lo <= hi <= len_(n))
  ("txt", name, i)      the i-th piece of the opaque text `name` (a wrapped label/message line)

Source lines are described by two uninterpreted functions over line numbers: `len_(n)` and
`lead_(n)` (number of leading whitespace characters), with 0 <= lead_(n) <= len_(n) asserted for
every line term that is touched.  `SLines` is a contiguous run of source lines with SYMBOLIC
bounds; operations that treat every element alike (comprehension map, `min` of a generator) are
evaluated once on a generic element and turned into a quantified fact, so the number of lines is
not bounded.  Iterating an `SLines` element by element concretises its length by branching.

Two ropes are compared segment-wise after normalisation (`rope_eq`): this is a sufficient
condition for string equality and is what the contracts use as postcondition.
"""
from __future__ import annotations

import z3

from .values import Sym, SInt, SBool, SStr, lift, to_z3, Unsupported, PyRaise

LEN = z3.Function("len_", z3.IntSort(), z3.IntSort())
LEAD = z3.Function("lead_", z3.IntSort(), z3.IntSort())
DIGITS = z3.Function("digits", z3.IntSort(), z3.IntSort())
TLEN = z3.Function("tlen", z3.StringSort(), z3.IntSort(), z3.IntSort())


def zi(v):
    if isinstance(v, bool):
        return z3.IntVal(int(v))
    if isinstance(v, int):
        return z3.IntVal(v)
    if isinstance(v, (SInt, SBool)):
        return to_z3(v) if isinstance(v, SInt) else z3.If(v.t, 1, 0)
    if z3.is_expr(v):
        return v
    raise Unsupported(f"not an integer: {v!r}")


def digits_axioms(t):
    """Facts about the number of decimal digits used by the proofs (t >= 0):
    digits >= 1, monotone (instantiated by the prover through the quantified axiom)."""
    x, y = z3.Ints("dx dy")
    return [DIGITS(t) >= 1,
            z3.ForAll([x, y], z3.Implies(z3.And(0 <= x, x <= y), DIGITS(x) <= DIGITS(y)), patterns=[z3.MultiPattern(DIGITS(x), DIGITS(y))])]


class Rope(Sym):
    def __init__(self, segs):
        self.segs = _norm(segs)

    # -- construction helpers
    @staticmethod
    def of(v, it=None):
        if isinstance(v, Rope):
            return v
        if isinstance(v, str):
            return Rope([("lit", v)])
        if isinstance(v, SInt) and it is not None:
            return Rope.dec(it, v)
        raise Unsupported(f"cannot make a rope of {v!r}")

    @staticmethod
    def dec(it, v):
        t = zi(v)
        if not it.ctx.branch(t >= 0):
            return Rope([("lit", "-"), ("dec", -t)])
        for ax in digits_axioms(t):
            it.ctx.assume(ax)
        return Rope([("dec", t)])

    @staticmethod
    def rep(it, ch, n):
        if isinstance(n, int):
            return Rope([("lit", ch * n)])
        t = z3.simplify(zi(n))
        if z3.is_int_value(t):
            return Rope([("lit", ch * max(0, t.as_long()))])
        # Python: a negative count gives the empty string.  A zero count keeps a (zero-length)
        # segment, so that the common case does not fork the path.
        if not it.ctx.branch(t >= 0):
            return Rope([])
        if len(ch) != 1:
            raise Unsupported("repetition of a multi-character string")
        return Rope([("rep", ch, t)])

    # -- Sym protocol
    def length(self, it):
        return lift(z3.simplify(z3.Sum([z3.IntVal(0)] + [_seg_len(s) for s in self.segs])))

    def truth(self, it):
        return lift(to_z3(self.length(it)) > 0)

    def to_str(self, it):
        return self

    def binop(self, it, op, other, reflected):
        if op == "+":
            if isinstance(other, (str, Rope)):
                o = Rope.of(other)
                return Rope(o.segs + self.segs) if reflected else Rope(self.segs + o.segs)
            if isinstance(other, SStr):
                raise Unsupported("rope + z3 string")
            return NotImplemented
        if op in ("==", "!="):
            if isinstance(other, (str, Rope)):
                f = rope_eq(self, Rope.of(other))
                return lift(f if op == "==" else z3.Not(f))
            return op == "!="
        return NotImplemented

    def getitem(self, it, k):
        if isinstance(k, slice) and k.step is None and k.stop is None and len(self.segs) == 1 and self.segs[0][0] == "sub":
            _, n, lo, hi = self.segs[0]
            a = zi(k.start if k.start is not None else 0)
            ln = hi - lo
            # Python slice start: negative counts from the end, both clamped (no branching, so
            # the operation can be applied to a generic line)
            off = z3.If(a < 0, z3.If(ln + a < 0, 0, ln + a), z3.If(a > ln, ln, a))
            new_lo = z3.simplify(lo + off)
            return Rope([("sub", n, new_lo, hi)])
        raise Unsupported(f"rope subscript {k!r}")

    def getattr(self, it, name):
        from .values import Builtin
        if name == "lstrip":
            def lstrip(*chars):
                if chars:
                    raise Unsupported("lstrip(chars) on rope")
                if len(self.segs) == 1 and self.segs[0][0] == "sub":
                    _, n, lo, hi = self.segs[0]
                    ld = LEAD(n)
                    new_lo = z3.If(lo < ld, z3.If(ld <= hi, ld, hi), lo)
                    return Rope([("sub", n, z3.simplify(new_lo), hi)])
                if not self.segs:
                    return self
                raise Unsupported("lstrip on composite rope")
            return Builtin("str.lstrip", lstrip)
        raise Unsupported(f"str.{name} on rope")

    def __repr__(self):
        return "Rope(" + " ++ ".join(_seg_str(s) for s in self.segs) + ")"


def _seg_len(s):
    k = s[0]
    if k == "lit":
        return z3.IntVal(len(s[1]))
    if k == "rep":
        return s[2]
    if k == "dec":
        return DIGITS(s[1])
    if k == "sub":
        return s[3] - s[2]
    if k == "txt":
        return TLEN(z3.StringVal(s[1]), z3.IntVal(s[2]))
    raise AssertionError(k)


def _seg_str(s):
    if s[0] == "lit":
        return repr(s[1])
    return s[0] + "(" + ", ".join(str(x) for x in s[1:]) + ")"


def _norm(segs):
    out = []
    for s in segs:
        if s[0] == "lit":
            if not s[1]:
                continue
            if out and out[-1][0] == "lit":
                out[-1] = ("lit", out[-1][1] + s[1])
                continue
        out.append(tuple(s))
    return out


def rope_eq(a: Rope, b: Rope):
    """Sufficient condition for a == b: same segment shapes, equal parameters."""
    if len(a.segs) != len(b.segs):
        return z3.BoolVal(False)
    conj = []
    for x, y in zip(a.segs, b.segs):
        if x[0] != y[0]:
            return z3.BoolVal(False)
        if x[0] == "lit":
            if x[1] != y[1]:
                return z3.BoolVal(False)
        elif x[0] == "rep":
            if x[1] != y[1]:
                return z3.BoolVal(False)
            conj.append(x[2] == y[2])
        elif x[0] == "dec":
            conj.append(x[1] == y[1])
        elif x[0] == "sub":
            conj += [x[1] == y[1], x[2] == y[2], x[3] == y[3]]
        elif x[0] == "txt":
            if x[1:] != y[1:]:
                return z3.BoolVal(False)
    return z3.And(*conj) if conj else z3.BoolVal(True)


def line_rope(it, n, trim=0):
    """The source line with (absolute, 1-based) number n, minus its first `trim` columns."""
    n = z3.simplify(zi(n))
    it.ctx.assume(z3.And(0 <= LEAD(n), LEAD(n) <= LEN(n)))
    if callable(trim):
        # first shown column as a function of the line number (set by a uniform comprehension)
        return Rope([("sub", n, z3.simplify(trim(n)), LEN(n))])
    t = zi(trim)
    lo = z3.IntVal(0) if (isinstance(trim, int) and trim == 0) else z3.simplify(z3.If(t <= LEN(n), t, LEN(n)))
    return Rope([("sub", n, lo, LEN(n))])


class SLines(Sym):
    """Lines lo+1 .. hi (absolute numbers) of the source, each minus its first `trim` columns;
    lo <= hi are integer terms.  This is what `sources[file][a:b]` evaluates to."""

    def __init__(self, lo, hi, trim=0):
        self.lo, self.hi, self.trim = z3.simplify(zi(lo)), z3.simplify(zi(hi)), trim

    def count(self):
        return z3.simplify(self.hi - self.lo)

    def length(self, it):
        return lift(self.count())

    def truth(self, it):
        return lift(self.count() > 0)

    def elem(self, it, n):
        return line_rope(it, n, self.trim)

    def getitem(self, it, k):
        cnt = self.count()
        if isinstance(k, slice):
            if k.step is not None:
                raise Unsupported("slice step")

            def clamp(v, default):
                if v is None:
                    return default
                v = zi(v)
                # Python's slice clamping, decided under the path condition (forks only when the
                # bound can really fall outside the list)
                if it.ctx.branch(v < 0):
                    return z3.IntVal(0) if it.ctx.branch(v + cnt < 0) else v + cnt
                return cnt if it.ctx.branch(v > cnt) else v
            a = clamp(k.start, z3.IntVal(0))
            b = clamp(k.stop, cnt)
            if it.ctx.branch(b < a):
                b = a
            return SLines(self.lo + a, self.lo + b, self.trim)
        i = zi(k)
        if it.ctx.branch(z3.And(0 <= i, i < cnt)):
            return self.elem(it, self.lo + 1 + i)
        if it.ctx.branch(z3.And(-cnt <= i, i < 0)):
            return self.elem(it, self.hi + 1 + i)
        raise PyRaise(it.make_exc("IndexError", "list index out of range"))

    def iterate(self, it):
        cnt = self.count()
        bound = getattr(it.e, "max_unroll", 8)
        for k in range(bound + 1):
            if it.ctx.branch(cnt == k):
                return [self.elem(it, self.lo + 1 + j) for j in range(k)]
        raise Unsupported("element-wise iteration over an unbounded run of source lines")

    def unpack(self, it, before, after, starred):
        cnt = self.count()
        if starred:
            if not it.ctx.branch(cnt >= before + after):
                raise PyRaise(it.make_exc("ValueError", "not enough values to unpack"))
            first = [self.elem(it, self.lo + 1 + j) for j in range(before)]
            last = [self.elem(it, self.hi - after + 1 + j) for j in range(after)]
            return first, SLines(self.lo + before, self.hi - after, self.trim), last
        if not it.ctx.branch(cnt == before):
            raise PyRaise(it.make_exc("ValueError", "unpack length mismatch"))
        return [self.elem(it, self.lo + 1 + j) for j in range(before)], None, []

    # uniform operations -------------------------------------------------------------
    def generic(self, it):
        g = z3.Int(it.ctx.fresh_name("ln"))
        return g

    def map_comp(self, it, fn, lazy):
        """`[fn(x) for x in self]` / `(fn(x) for x in self)`."""
        if lazy:
            return SMapped(self, fn)
        g = self.generic(it)
        npaths = len(it.ctx.taken)
        r = fn(self.elem(it, g))
        if len(it.ctx.taken) != npaths:
            raise Unsupported("comprehension body branches on a generic source line")
        if isinstance(r, Rope) and len(r.segs) == 1 and r.segs[0][0] == "sub":
            _, n, lo, hi = r.segs[0]
            if z3.eq(z3.simplify(n), g) and z3.eq(z3.simplify(hi), LEN(g)):
                # every line keeps its tail from a column that is a function of the line number
                return SLines(self.lo, self.hi, lambda n, lo=lo, g=g: z3.substitute(lo, (g, z3.simplify(zi(n)))))
        raise Unsupported(f"comprehension over source lines produced {r!r}")

    def __repr__(self):
        return f"SLines({self.lo}..{self.hi} trim={self.trim})"


def _mentions(t, g):
    if z3.eq(t, g):
        return True
    return any(_mentions(c, g) for c in t.children())


def _trim_of(lo, g):
    lo = z3.simplify(lo)
    if not _mentions(lo, g):
        return None
    # If(c <= len_(g), c, len_(g))
    if z3.is_app(lo) and lo.decl().kind() == z3.Z3_OP_ITE:
        c, a, b = lo.children()
        for x, y in ((a, b), (b, a)):
            if z3.eq(z3.simplify(y), LEN(g)) and not _mentions(x, g):
                return x
    return None


class SMapped(Sym):
    """Lazy `fn(x) for x in lines`; only reductions are supported."""

    def __init__(self, lines: SLines, fn):
        self.lines, self.fn = lines, fn

    def reduce_min(self, it, name):
        ls = self.lines
        if not it.ctx.branch(ls.count() > 0):
            raise PyRaise(it.make_exc("ValueError", f"{name}() arg is an empty sequence"))
        g = ls.generic(it)
        n0 = len(it.ctx.taken)
        v = self.fn(ls.elem(it, g))
        if len(it.ctx.taken) != n0:
            raise Unsupported("generator body branches on a generic source line")
        vt = z3.simplify(zi(v))
        m = z3.Int(it.ctx.fresh_name(name))
        w = z3.Int(it.ctx.fresh_name("witness"))
        cmpf = (lambda a, b: a <= b) if name == "min" else (lambda a, b: a >= b)
        body = z3.Implies(z3.And(ls.lo < g, g <= ls.hi), cmpf(m, vt))
        it.ctx.assume(z3.ForAll([g], body))
        it.ctx.assume(z3.And(ls.lo < w, w <= ls.hi, m == z3.substitute(vt, (g, w))))
        it.ctx.assume(z3.And(0 <= LEAD(w), LEAD(w) <= LEN(w)))
        it.ctx.ghost.setdefault("reductions", []).append((name, ls, m, w))
        return lift(m)
