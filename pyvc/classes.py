"""Class construction: dataclasses, enums/flags, plain classes — from the ClassDef on disk."""
from __future__ import annotations

import ast

from .values import ClassVal, EnumVal, FlagVal, FuncVal, ExtVal, SObj, Unsupported
from .interp import Frame, _dotted


def build_class(it, st: ast.ClassDef, fr):
    bases = []
    for b in st.bases:
        v = it.eval(b, fr)
        if isinstance(v, ClassVal):
            bases.append(v)
        elif isinstance(v, ExtVal):
            stub = ClassVal(v.name, [it.e.bclasses["object"]], builtin=True)
            bases.append(stub)
        elif type(v).__name__ == "Builtin" and v.name.split(".")[-1] in it.e.bclasses:
            bases.append(it.e.bclasses[v.name.split(".")[-1]])
        else:
            # generic alias results (Generic[T] evaluates to the ClassVal itself) or unknown
            if isinstance(v, tuple) and v and v[0] == "union":
                continue
            raise Unsupported(f"base class {ast.dump(b)} -> {v!r}")
    if not bases:
        bases = [it.e.bclasses["object"]]
    cv = ClassVal(st.name, bases, fr.module, st)
    if fr.cls is not None:
        cv.qualname = fr.cls.qualname + "." + st.name
    elif fr.func is not None:
        cv.qualname = fr.func.qualname + ".<locals>." + st.name
    names = {c.name for c in cv.mro()}
    if "Flag" in names or "IntFlag" in names:
        cv.enum_kind = "Flag"
    elif "Enum" in names or "IntEnum" in names:
        cv.enum_kind = "Enum"

    body = Frame(fr.module, None, fr)
    body.cls = cv
    body.globals_decl = set()
    auto_counter = [0]
    for s in st.body:
        if isinstance(s, ast.FunctionDef):
            fv = it.make_function(s, body, owner=cv)
            if fv.kind == "setter":
                continue
            # functools.singledispatchmethod: `@base.register` implementations are collected on
            # the base method; dispatch is on the class of the first argument (MRO order)
            for d in s.decorator_list:
                dn = _dotted(d.func if isinstance(d, ast.Call) else d)
                if dn.split(".")[-1] == "singledispatchmethod":
                    fv.dispatch_registry = []
                elif dn.endswith(".register") and dn.split(".")[0] in cv.attrs and hasattr(cv.attrs[dn.split(".")[0]], "dispatch_registry"):
                    cv.attrs[dn.split(".")[0]].dispatch_registry.append(fv)
            cv.attrs[s.name] = fv
            body.locals[s.name] = fv
        elif isinstance(s, ast.Expr) and isinstance(s.value, ast.Constant):
            continue  # docstring
        elif isinstance(s, ast.AnnAssign):
            if isinstance(s.target, ast.Name):
                cv.annotations[s.target.id] = s.annotation
                if s.value is not None:
                    cv.attrs[s.target.id] = _class_value(it, s.value, body, cv, s.target.id, auto_counter)
                    body.locals[s.target.id] = cv.attrs[s.target.id]
        elif isinstance(s, ast.Assign):
            for t in s.targets:
                if isinstance(t, ast.Name):
                    val = _class_value(it, s.value, body, cv, t.id, auto_counter)
                    cv.attrs[t.id] = val
                    body.locals[t.id] = val
                else:
                    raise Unsupported("class-level destructuring assignment")
        elif isinstance(s, ast.ClassDef):
            inner = build_class(it, s, body)
            cv.attrs[s.name] = inner
            body.locals[s.name] = inner
        elif isinstance(s, ast.Pass):
            continue
        else:
            raise Unsupported(f"class body statement {type(s).__name__} in {st.name}")

    # enum members
    if cv.enum_kind:
        for n, v in list(cv.attrs.items()):
            if isinstance(v, (FuncVal, ClassVal)) or n.startswith("_"):
                continue
            if cv.enum_kind == "Flag":
                mv = FlagVal(cv, v)
                cv.members[n] = EnumVal(cv, n, v)
                cv.attrs[n] = mv
            else:
                ev = EnumVal(cv, n, v)
                cv.members[n] = ev
                cv.attrs[n] = ev

    if any(b.name == "NamedTuple" and b.builtin for b in cv.bases):
        # typing.NamedTuple: positional constructor over the annotated fields, immutable
        cv.dataclass = {"frozen": True, "order": False, "eq": True, "init": True}
        cv.namedtuple = True
    # decorators
    for d in st.decorator_list:
        name = _dotted(d.func if isinstance(d, ast.Call) else d)
        if name.split(".")[-1] == "dataclass":
            params = {"frozen": False, "order": False, "eq": True, "init": True}
            if isinstance(d, ast.Call):
                for k in d.keywords:
                    params[k.arg] = it.eval(k.value, fr)
            cv.dataclass = params
            nocmp = []
            for n, a in cv.attrs.items():
                if isinstance(a, tuple) and a and a[0] == "field" and a[1].get("compare") is False:
                    nocmp.append(n)
            cv.nocompare = tuple(nocmp)
        elif name.split(".")[-1] == "total_ordering":
            cv.total_ordering = True          # missing comparisons are derived in Interp.obj_cmp
        elif name.split(".")[-1] in ("final", "runtime_checkable", "unique"):
            pass
        elif name in ("guppy.struct",):
            # Guppy mode: a @guppy.struct class is constructed field by field in declaration
            # order, like a dataclass (guppylang generates exactly that constructor)
            cv.dataclass = {"frozen": False, "order": False, "eq": False, "init": True}
            cv.guppy_struct = True
        else:
            cv.attrs.setdefault("__decorators__", []).append(d)
    return cv


def _class_value(it, node, body, cv, name, auto_counter):
    # enum auto()
    if isinstance(node, ast.Call) and _dotted(node.func).split(".")[-1] == "auto" and cv.enum_kind:
        if cv.enum_kind == "Flag":
            v = 1 << auto_counter[0]
        else:
            v = auto_counter[0] + 1
        auto_counter[0] += 1
        return v
    # dataclasses.field(...)
    if isinstance(node, ast.Call) and _dotted(node.func).split(".")[-1] == "field":
        kw = {}
        for k in node.keywords:
            if k.arg in ("default",):
                kw[k.arg] = it.eval(k.value, body)
            elif k.arg == "default_factory":
                kw[k.arg] = it.eval(k.value, body)
            elif k.arg in ("init", "compare", "repr", "hash", "kw_only"):
                kw[k.arg] = it.eval(k.value, body)
        return ("field", kw)
    val = it.eval(node, body)
    if cv.enum_kind and isinstance(val, int) and not isinstance(val, bool):
        if cv.enum_kind == "Flag":
            # keep auto counter past explicit values
            while (1 << auto_counter[0]) <= val:
                auto_counter[0] += 1
        else:
            auto_counter[0] = max(auto_counter[0], val)
    return val


def instantiate(it, cls: ClassVal, args, kwargs):
    """Call a class: dataclass __init__ synthesis, user __init__, exception stubs, enums."""
    if cls.enum_kind:
        if len(args) == 1:
            v = args[0]
            if cls.enum_kind == "Flag":
                if isinstance(v, int):
                    return FlagVal(cls, v)
            for m in cls.members.values():
                if m.value == v:
                    return m
            it.throw("ValueError", f"{v!r} is not a valid {cls.name}")
        raise Unsupported("enum call")
    if getattr(cls, "is_record", False):
        return SObj(cls, {"args": tuple(args), **kwargs})
    from .astmodel import is_ast_class, instantiate_ast
    if is_ast_class(cls) and cls.lookup("__init__")[0] is None:
        return instantiate_ast(it, cls, args, kwargs)
    newf, _ = cls.lookup("__new__")
    if newf is not None:
        raise Unsupported(f"class {cls.name} defines __new__")
    obj = SObj(cls)
    initf, owner = cls.lookup("__init__")
    dc_owner = None
    for c in cls.mro():
        if c.dataclass is not None:
            dc_owner = c
            break
    # a dataclass-generated __init__ shadows inherited user __init__ only if the dataclass is
    # nearer in the MRO than the class that defines __init__
    use_dc = dc_owner is not None and dc_owner.dataclass.get("init", True) and (
        initf is None or cls.mro().index(dc_owner) < cls.mro().index(owner)
        or (owner is dc_owner and False))
    if dc_owner is not None and initf is not None and owner is dc_owner:
        use_dc = False
    if use_dc:
        _dataclass_init(it, obj, cls, args, kwargs)
        post, _ = cls.lookup("__post_init__")
        if post is not None:
            obj.frozen_ok = True
            try:
                it.call(post, [obj], {})
            finally:
                obj.frozen_ok = False
        return obj
    if initf is not None:
        obj.frozen_ok = True
        try:
            it.call(initf, [obj] + list(args), kwargs)
        finally:
            obj.frozen_ok = False
        return obj
    # built-in exception-like classes: remember args
    if any(c.name == "BaseException" for c in cls.mro()):
        obj.fields["args"] = tuple(args)
        return obj
    if args or kwargs:
        if any(c.builtin and c.name not in ("object", "ABC", "Generic", "Protocol") for c in cls.mro()):
            obj.fields["args"] = tuple(args)
            obj.fields.update(kwargs)
            return obj
        it.throw("TypeError", f"{cls.name}() takes no arguments")
    return obj


def _dataclass_init(it, obj, cls, args, kwargs):
    fields = cls.dc_fields()
    names = [n for n in fields if _field_init(cls, n)]
    if len(args) > len(names):
        it.throw("TypeError", f"{cls.name}.__init__() takes {len(names)} positional arguments")
    given = dict(zip(names, args))
    for k, v in kwargs.items():
        if k not in names:
            it.throw("TypeError", f"{cls.name}.__init__() got an unexpected keyword argument '{k}'")
        if k in given:
            it.throw("TypeError", f"multiple values for argument '{k}'")
        given[k] = v
    for n in fields:
        if n in given:
            obj.fields[n] = given[n]
            continue
        d, _ = cls.lookup(n)
        if isinstance(d, tuple) and d and d[0] == "field":
            if "default" in d[1]:
                obj.fields[n] = d[1]["default"]
            elif "default_factory" in d[1]:
                obj.fields[n] = it.call(d[1]["default_factory"], [], {})
            elif d[1].get("init") is False:
                continue
            else:
                it.throw("TypeError", f"missing argument '{n}'")
        elif d is not None or _has_attr(cls, n):
            obj.fields[n] = d
        else:
            it.throw("TypeError", f"{cls.name}.__init__() missing required argument '{n}'")


def _has_attr(cls, n):
    for c in cls.mro():
        if n in c.attrs:
            return True
    return False


def _field_init(cls, n):
    d, _ = cls.lookup(n)
    if isinstance(d, tuple) and d and d[0] == "field" and d[1].get("init") is False:
        return False
    return True
