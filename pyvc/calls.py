"""Function calls: argument binding, callee contracts (models), bound methods, classes."""
from __future__ import annotations

import ast

from .values import (ClassVal, FuncVal, BoundMethod, Builtin, ExtVal, SObj, Sym, PyRaise,
                     _Return, Unsupported, EnumVal, FlagVal)
from .interp import Frame

MAX_DEPTH = 60


def do_call(it, fn, args, kwargs, node=None):
    if isinstance(fn, BoundMethod):
        return do_call(it, fn.func, [fn.self_val] + list(args), kwargs, node)
    if isinstance(fn, Builtin):
        return fn.fn(*args, **kwargs)
    if isinstance(fn, ClassVal):
        key = f"{fn.module.name}:{fn.qualname}" if fn.module is not None else f":{fn.name}"
        model = it.e.models.get(key)
        if model is not None:
            return model(it, args, kwargs)
        from .classes import instantiate
        return instantiate(it, fn, args, kwargs)
    if isinstance(fn, FuncVal):
        key = f"{fn.module.name}:{fn.qualname}"
        model = it.e.models.get(key)
        if model is not None:
            it.ctx.assumed.append(key)
            return model(it, args, kwargs)
        reg = _all_registered(fn, args)
        if reg and len(args) >= 2:
            impl = _single_dispatch(it, fn, reg, args[1])
            if impl is not fn:
                return do_call(it, impl, args, kwargs, node)
        return call_function(it, fn, args, kwargs)
    if isinstance(fn, ExtVal):
        model = it.e.ext_models.get(fn.name)
        if model is not None and callable(model):
            return model(it, args, kwargs)
        it.e.unmodelled.add(fn.name)
        raise Unsupported(f"call of unmodelled external {fn.name}")
    if isinstance(fn, Sym) and hasattr(fn, "call"):
        return fn.call(it, args, kwargs)
    if isinstance(fn, SObj):
        f, _ = fn.cls.lookup("__call__")
        if f is not None:
            return do_call(it, f, [fn] + list(args), kwargs, node)
    if callable(fn) and getattr(fn, "_pyvc_native", False):
        return fn(it, args, kwargs)
    raise Unsupported(f"call of {fn!r}")


def _all_registered(fn, args):
    """singledispatchmethod registry of `fn`, including implementations registered in subclasses
    of the class that defines the base method (looked up through the receiver's class)."""
    reg = getattr(fn, "dispatch_registry", None)
    if reg is None:
        return None
    out = list(reg)
    return out


def _single_dispatch(it, base, registry, arg):
    if isinstance(arg, SObj):
        mro = arg.cls.mro()
    elif isinstance(arg, (EnumVal, FlagVal)):
        mro = arg.cls.mro()
    else:
        from .values import SInt, SBool, SStr
        bc = it.e.bclasses
        if isinstance(arg, (bool, SBool)):
            mro = [bc["bool"], bc["int"], bc["object"]]
        elif isinstance(arg, (int, SInt)):
            mro = [bc["int"], bc["object"]]
        elif isinstance(arg, (str, SStr)):
            mro = [bc["str"], bc["object"]]
        else:
            return base
    table = []
    for impl in registry:
        params = impl.node.args.args
        if len(params) < 2 or params[1].annotation is None:
            continue
        ann = it.eval(params[1].annotation, Frame(impl.module, None, None))
        if isinstance(ann, Builtin) and ann.name in it.e.bclasses:
            ann = it.e.bclasses[ann.name]
        table.append((ann, impl))
    for c in mro:
        for ann, impl in table:
            if ann is c:
                return impl
    return base


def bind_args(it, fv: FuncVal, args, kwargs, fr: Frame):
    a = fv.node.args
    pos = list(a.posonlyargs) + list(a.args)
    n_pos = len(pos)
    defaults = [None] * (n_pos - len(a.defaults)) + list(a.defaults)
    args = list(args)
    kwargs = dict(kwargs)
    for i, p in enumerate(pos):
        if i < len(args):
            fr.locals[p.arg] = args[i]
            if p.arg in kwargs and p not in a.posonlyargs:
                it.throw("TypeError", f"multiple values for argument '{p.arg}'")
        elif p.arg in kwargs and p not in a.posonlyargs:
            fr.locals[p.arg] = kwargs.pop(p.arg)
        elif defaults[i] is not None:
            fr.locals[p.arg] = it.eval(defaults[i], Frame(fv.module, None, fv.closure))
        else:
            it.throw("TypeError", f"{fv.qualname}() missing required argument '{p.arg}'")
    extra = args[n_pos:]
    if a.vararg is not None:
        sym = [x for x in extra if isinstance(x, tuple) and len(x) == 2 and x[0] == "*sym"]
        if sym:
            if len(extra) != 1:
                raise Unsupported("symbolic *args mixed with other extra positional arguments")
            from .symcoll import STup
            fr.locals[a.vararg.arg] = STup(sym[0][1])
        else:
            fr.locals[a.vararg.arg] = tuple(extra)
    elif extra:
        it.throw("TypeError", f"{fv.qualname}() takes {n_pos} positional arguments but {len(args)} were given")
    for p, d in zip(a.kwonlyargs, a.kw_defaults):
        if p.arg in kwargs:
            fr.locals[p.arg] = kwargs.pop(p.arg)
        elif d is not None:
            fr.locals[p.arg] = it.eval(d, Frame(fv.module, None, fv.closure))
        else:
            it.throw("TypeError", f"{fv.qualname}() missing keyword-only argument '{p.arg}'")
    if a.kwarg is not None:
        fr.locals[a.kwarg.arg] = kwargs
    elif kwargs:
        it.throw("TypeError", f"{fv.qualname}() got an unexpected keyword argument '{next(iter(kwargs))}'")


def call_function(it, fv: FuncVal, args, kwargs, with_body=None):
    it.ctx.depth += 1
    if it.ctx.depth > MAX_DEPTH:
        it.ctx.depth -= 1
        raise Unsupported(f"call depth > {MAX_DEPTH} in {fv.qualname}")
    try:
        fr = Frame(fv.module, fv, fv.closure)
        fr.with_body = with_body
        bind_args(it, fv, args, kwargs, fr)
        if isinstance(fv.node, ast.Lambda):
            return it.eval(fv.node.body, fr)
        if with_body is None and _is_generator(fv.node):
            # A generator called as a plain function is run eagerly and its yields are collected in
            # a list (iterators are lists in this engine). Assumes the generator's body has no
            # effects whose interleaving with the consumer matters; `send`/`throw` are not modelled.
            out: list = []
            fr.with_body = lambda val: out.append(val)
            try:
                it.exec_block(fv.node.body, fr)
            except _Return:
                pass
            return out
        try:
            it.exec_block(fv.node.body, fr)
        except _Return as r:
            return r.value
        return None
    finally:
        it.ctx.depth -= 1


_gen_cache: dict[int, bool] = {}


def _is_generator(node) -> bool:
    k = id(node)
    if k in _gen_cache:
        return _gen_cache[k]

    def walk(n):
        for c in ast.iter_child_nodes(n):
            if isinstance(c, (ast.Yield, ast.YieldFrom)):
                return True
            if isinstance(c, (ast.FunctionDef, ast.AsyncFunctionDef, ast.Lambda, ast.ClassDef)):
                continue
            if walk(c):
                return True
        return False
    r = walk(node)
    _gen_cache[k] = r
    return r


def is_contextmanager(fv) -> bool:
    from .interp import _dotted
    return isinstance(fv, FuncVal) and any(
        _dotted(d.func if isinstance(d, ast.Call) else d).split(".")[-1] == "contextmanager"
        for d in fv.decorators)
