"""Value model of the pyvc symbolic interpreter.

Concrete Python values (int, bool, str, None, tuple, list, dict, set) are used as they are;
everything below is either a symbolic leaf (a z3 term with a Python-level type tag) or an
interpreter-level object (instances / classes / functions of the *interpreted* program).
"""
from __future__ import annotations

import ast
import itertools
from dataclasses import dataclass, field
from typing import Any, Callable

import z3


class Unsupported(Exception):
    """The front end met a construct outside the modelled subset -> obligation UNDECIDED."""


class PathEnd(Exception):
    """Current path is abandoned (cut point reached, or infeasible)."""


class Sym:
    """Base of symbolic leaves."""
    t: Any

    def __repr__(self) -> str:
        return f"{type(self).__name__}({self.t})"


class SInt(Sym):
    def __init__(self, t):
        self.t = t


class SBool(Sym):
    def __init__(self, t):
        self.t = t


class SStr(Sym):
    def __init__(self, t):
        self.t = t


class SOpq(Sym):
    """Value of an uninterpreted sort (an object whose structure is abstracted).
    `kind` names the abstraction; attribute access and method calls are answered by the
    handlers registered for that kind (`Engine.opaque_attr[kind]`)."""

    def __init__(self, t, kind: str):
        self.t = t
        self.kind = kind

    def __hash__(self):
        return hash((self.kind, self.t.hash() if hasattr(self.t, "hash") else id(self.t)))

    def __eq__(self, other):  # python-level identity of the term (used for dict keys only)
        return isinstance(other, SOpq) and self.kind == other.kind and z3.eq(self.t, other.t)


_obj_ids = itertools.count(1)


class ClassVal:
    """A class of the interpreted program (from a ClassDef in /repo), or a built-in stub."""

    def __init__(self, name, bases=(), module=None, node=None, builtin=False):
        self.name = name
        self.bases = list(bases)
        self.module = module
        self.node = node
        self.builtin = builtin
        self.attrs: dict[str, Any] = {}
        self.annotations: dict[str, Any] = {}  # name -> annotation ast (declaration order)
        self.dataclass: dict | None = None  # {'frozen':..,'order':..,'eq':..}
        self.enum_kind: str | None = None  # 'Enum' | 'Flag'
        self.members: dict[str, "EnumVal"] = {}
        self.qualname = name

    def mro(self):
        out = []

        def walk(c):
            if c in out:
                return
            out.append(c)
            for b in c.bases:
                if isinstance(b, ClassVal):
                    walk(b)
        walk(self)
        return out

    def lookup(self, name):
        for c in self.mro():
            if name in c.attrs:
                return c.attrs[name], c
        return None, None

    def is_subclass(self, other) -> bool:
        return other in self.mro()

    def dc_fields(self):
        """dataclass fields in definition order (base classes first), ClassVar excluded."""
        out: dict[str, Any] = {}
        for c in reversed(self.mro()):
            if c.dataclass is None and c is not self:
                # plain base classes contribute no fields
                continue
            for n, ann in c.annotations.items():
                if _is_classvar(ann):
                    continue
                out[n] = (ann, c)
        return out

    def __repr__(self):
        return f"<class {self.qualname}>"


def _is_classvar(ann) -> bool:
    if isinstance(ann, ast.Subscript):
        ann = ann.value
    if isinstance(ann, ast.Name):
        return ann.id == "ClassVar"
    if isinstance(ann, ast.Attribute):
        return ann.attr == "ClassVar"
    if isinstance(ann, ast.Constant) and isinstance(ann.value, str):
        return ann.value.startswith("ClassVar")
    return False


class Deque(list):
    """collections.deque (unbounded): a list with popleft/appendleft (see attrs._native_method)."""


class SObj:
    """Instance of a ClassVal with a concrete identity and a field dictionary."""

    def __init__(self, cls: ClassVal, fields=None):
        self.cls = cls
        self.fields: dict[str, Any] = dict(fields or {})
        self.oid = next(_obj_ids)
        self.frozen_ok = False

    def __repr__(self):
        w = f" @{self.where}" if hasattr(self, "where") else ""
        return f"<{self.cls.name}#{self.oid} {self.fields}{w}>"

    # Instances of frozen (hashable) dataclasses are VALUES in Python: dict / set lookups use the
    # generated __eq__ / __hash__ over the compare fields.  Everything else hashes by identity.
    def _value_key(self):
        dc = None
        for c in self.cls.mro():
            if c.dataclass is not None:
                dc = c.dataclass
                break
        if dc is None or not dc.get("eq", True) or not (dc.get("frozen") or dc.get("unsafe_hash")):
            return None
        if self.cls.lookup("__eq__")[0] is not None or self.cls.lookup("__hash__")[0] is not None:
            return None
        nocmp = getattr(self.cls, "nocompare", ())
        vals = []
        for n in self.cls.dc_fields():
            if n in nocmp:
                continue
            if n not in self.fields:
                return None
            v = self.fields[n]
            if isinstance(v, Sym) or isinstance(v, (list, dict, set)):
                return None
            if isinstance(v, SObj) and v._value_key() is None:
                v = ("#id", v.oid)
            vals.append(v)
        try:
            k = (self.cls.qualname, tuple(vals))
            hash(k)
            return k
        except TypeError:
            return None

    def __hash__(self):
        k = self._value_key()
        return hash(k) if k is not None else object.__hash__(self)

    def __eq__(self, other):
        if self is other:
            return True
        if not isinstance(other, SObj) or other.cls is not self.cls:
            return False
        k = self._value_key()
        return k is not None and k == other._value_key()


@dataclass(eq=False)
class EnumVal:
    cls: ClassVal
    name: str
    value: Any

    def __repr__(self):
        return f"{self.cls.name}.{self.name}"


@dataclass(eq=False)
class FlagVal:
    """Value of a Flag enum: concrete int bitmask."""
    cls: ClassVal
    value: int

    def __repr__(self):
        names = [m.name for m in self.cls.members.values() if m.value and (m.value & self.value) == m.value]
        return f"{self.cls.name}({'|'.join(names) or self.value})"


@dataclass(eq=False)
class FuncVal:
    node: Any  # ast.FunctionDef | ast.Lambda
    module: Any
    closure: Any  # Frame | None
    qualname: str
    owner: ClassVal | None = None
    kind: str = "function"  # function | staticmethod | classmethod | property
    decorators: list = field(default_factory=list)

    def __repr__(self):
        return f"<function {self.qualname}>"


@dataclass(eq=False)
class BoundMethod:
    func: Any
    self_val: Any

    def __repr__(self):
        return f"<bound {self.func} of {self.self_val}>"


@dataclass(eq=False)
class Builtin:
    name: str
    fn: Callable

    def __repr__(self):
        return f"<builtin {self.name}>"


@dataclass(eq=False)
class ExtVal:
    """Something imported from outside /repo for which no model is registered."""
    name: str

    def __repr__(self):
        return f"<external {self.name}>"


@dataclass(eq=False)
class ModuleRef:
    """Reference to a repo module (for `import x.y as z` / attribute access)."""
    module: Any


class PyRaise(Exception):
    """An exception of the interpreted program propagating."""

    def __init__(self, exc):
        super().__init__(repr(exc))
        self.exc = exc


class _Return(Exception):
    def __init__(self, value):
        self.value = value


class _Break(Exception):
    pass


class _Continue(Exception):
    pass


def is_symbolic(v) -> bool:
    return isinstance(v, Sym)


def to_z3(v):
    """Python/Sym scalar -> z3 term."""
    if isinstance(v, Sym):
        return v.t
    if isinstance(v, bool):
        return z3.BoolVal(v)
    if isinstance(v, int):
        return z3.IntVal(v)
    if isinstance(v, str):
        return z3.StringVal(v)
    if isinstance(v, z3.ExprRef):
        return v
    raise Unsupported(f"cannot convert {v!r} to an SMT term")


def simp(t):
    return z3.simplify(t)


def lift(t):
    """z3 term -> interpreter value (concrete when the term is a literal)."""
    t = z3.simplify(t)
    if z3.is_bool(t):
        if z3.is_true(t):
            return True
        if z3.is_false(t):
            return False
        return SBool(t)
    if z3.is_int(t):
        if z3.is_int_value(t):
            return t.as_long()
        return SInt(t)
    if z3.is_string(t):
        if z3.is_string_value(t):
            return t.as_string()
        return SStr(t)
    raise Unsupported(f"cannot lift {t}")
