"""pyvc — verification-condition generator over the real /repo sources."""
from .values import *  # noqa
from .interp import Engine, Interp, Path, Frame, Module
from .loops import LoopSpec
