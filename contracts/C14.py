"""C14 — Copy/drop classification is structural and matches HUGR bounds.

Functions under contract (guppylang_internals/tys/ty.py): TypeBase.linear / affine / hugr_bound,
ParametrizedTypeBase.copyable / droppable / hugr_bound, TupleType / OpaqueType / StructType
intrinsic flags and StructType.fields (instantiation of the definition's field types),
OpaqueType.hugr_bound, NumericType / NoneType / FunctionType flags; tys/builtin.py type
definitions and std/quantum `qubit` (binding-table mode); compiler/core.py requires_drop,
insert_drops.

The real property bodies are executed on real type objects whose LEAVES are bound type variables
with symbolic copyable / droppable flags, so one run covers every combination of leaf
classifications; composite arities 0..3 are enumerated (arity is a stated bound, contents are
symbolic); the HUGR-bound equivalence is the induction step of a structural induction.
"""
import ast
import itertools
import z3

from pyvc import SObj, ClassVal, Builtin, SBool, PyRaise, Unsupported
from .common import mk_engine, zbool
from .bindings import rec

TITLE = "copyable/droppable are the conjunction over components under the intrinsic table; HUGR bound Copyable <=> copyable; unused droppable non-copyable values get a drop"
TY = "guppylang_internals.tys.ty"
BT = "guppylang_internals.tys.builtin"
CC = "guppylang_internals.compiler.core"

# intrinsic table from the property statement: name -> (never_copyable, never_droppable)
INTRINSIC = {"array": (True, False), "bool": (False, False), "string": (False, False), "list": (False, False),
             "frozenarray": (False, False), "option": (False, False), "sized_iter": (False, False), "nat": None, "int": None, "float": None}


REPLAY_TUPLE = r'''
from guppylang_internals.tys.ty import TupleType, BoundTypeVar
from hugr import tys as ht
I = INPUT
els = [BoundTypeVar(f"T{i}", i, c, d) for i, (c, d) in enumerate(I["flags"])]
t = TupleType(els)
want_c, want_d = all(c for c, _ in I["flags"]), all(d for _, d in I["flags"])
got = (t.copyable, t.droppable, t.hugr_bound == ht.TypeBound.Copyable)
print(json.dumps({"violates": got != (want_c, want_d, want_c), "observed": got, "required": (want_c, want_d, want_c), "flags": I["flags"]}))
'''


REPLAY_DROP_COND = r'''
import tempfile, importlib.util, os, sys, shutil
src = """from guppylang import guppy
from guppylang.std.builtins import array, owned
from guppylang.std.option import Option
@guppy
def main(o: Option[array[int, 3]] @owned) -> None:
    o.unwrap()
"""
d = tempfile.mkdtemp(dir=os.environ.get("TMPDIR", "/var/tmp")); fn = os.path.join(d, "replay_c14d.py"); open(fn, "w").write(src)
spec = importlib.util.spec_from_file_location("replay_c14d", fn); m = importlib.util.module_from_spec(spec); sys.modules["replay_c14d"] = m
try:
    spec.loader.exec_module(m)
    from hugr import ops, tys as ht
    pkg = m.main.compile_function()
    h = pkg.modules[0]; h = getattr(h, "hugr", h)
    dangling = []
    for node in h:
        op = h[node].op
        if isinstance(op, ops.FuncDefn): continue
        for i in range(h.num_out_ports(node)):
            port = node.out(i); kind = h.port_kind(port)
            if isinstance(kind, ht.ValueKind) and next(iter(h.linked_ports(port)), None) is None and "array" in str(kind.ty):
                dangling.append(f"{type(op).__name__} output {i}: {kind.ty}")
    out = {"violates": bool(dangling), "dangling_affine_ports": dangling[:4]}
except Exception as ex:
    out = {"violates": False, "error": repr(ex)[:300]}
shutil.rmtree(d, ignore_errors=True)
print(json.dumps(out))
'''


REPLAY_STRUCT_MIXED = r'''
import tempfile, importlib.util, os, sys, shutil
src = """from guppylang import guppy
from guppylang.std.builtins import array
from typing import Generic
T = guppy.type_var("T", copyable=False, droppable=False)
@guppy.struct
class Boxed(Generic[T]):
    xs: array[T, 2]
@guppy.declare
def use(b: Boxed[int]) -> None: ...
"""
d = tempfile.mkdtemp(dir=os.environ.get("TMPDIR", "/var/tmp")); fn = os.path.join(d, "replay_c14.py"); open(fn, "w").write(src)
spec = importlib.util.spec_from_file_location("replay_c14", fn); m = importlib.util.module_from_spec(spec); sys.modules["replay_c14"] = m
try:
    spec.loader.exec_module(m)
    from guppylang_internals.engine import ENGINE
    ty = ENGINE.get_checked(m.use.id).ty.inputs[0].ty
    out = {"violates": bool(ty.copyable), "type": str(ty), "copyable": bool(ty.copyable), "required": "not copyable: it holds an array"}
except Exception as ex:
    out = {"violates": False, "error": repr(ex)[:300]}
shutil.rmtree(d, ignore_errors=True)
print(json.dumps(out))
'''


REPLAY_EMITTED = r'''
import tempfile, importlib.util, os, sys, shutil
from hugr import ops, tys as ht
from guppylang_internals.engine import ENGINE
I = INPUT
src = """from typing import Generic
from collections.abc import Callable
from guppylang import guppy
from guppylang.std.builtins import array, nat, frozenarray
from guppylang.std.option import Option
from guppylang.std.quantum import qubit
T = guppy.type_var("T", copyable=False, droppable=False)
@guppy.struct
class Phantom(Generic[T]):
    n: int
@guppy.struct
class Box(Generic[T]):
    v: T
@guppy.struct
class S:
    n: int
    f: float
@guppy.struct
class Q:
    n: int
    q: qubit
""" + "".join(f"@guppy.declare\ndef f{k}(x: {t}) -> None: ...\n" for k, t in enumerate(I["types"]))
d = tempfile.mkdtemp(dir=os.environ.get("TMPDIR", "/var/tmp")); fn = os.path.join(d, "replay_c14e.py"); open(fn, "w").write(src)
spec = importlib.util.spec_from_file_location("replay_c14e", fn); m = importlib.util.module_from_spec(spec); sys.modules["replay_c14e"] = m
spec.loader.exec_module(m)
bad = []; n = 0
for k, t in enumerate(I["types"]):
    f = getattr(m, f"f{k}")
    h = f.compile_function().modules[0]
    decl = [x for x in h.descendants() if isinstance(h[x].op, (ops.FuncDecl, ops.FuncDefn)) and h[x].op.f_name.endswith(f"f{k}")][0]
    hugr_copyable = h[decl].op.signature.body.input[0].type_bound() == ht.TypeBound.Copyable
    gty = ENGINE.get_parsed(f.id).ty.inputs[0].ty
    n += 1
    if hugr_copyable != gty.copyable:
        bad.append({"type": t, "guppy_copyable": gty.copyable, "hugr_type_is_copyable": hugr_copyable})
shutil.rmtree(d, ignore_errors=True)
print(json.dumps({"violates": bool(bad), "evaluations": n, "witness": bad[0] if bad else None, "all": bad,
                  "detail": bad and f"{bad[0]['type']}: Guppy type copyable={bad[0]['guppy_copyable']}, emitted HUGR type copyable={bad[0]['hugr_type_is_copyable']}"}))
'''

EMITTED_TYPES = ["int", "nat", "float", "bool", "qubit", "array[int, 2]", "array[qubit, 2]", "tuple[int, float]", "tuple[int, qubit]", "tuple[int, array[int, 2]]", "Option[int]", "Option[qubit]",
                 "Option[array[int, 1]]", "frozenarray[int, 2]", "S", "Q", "Box[int]", "Box[qubit]", "Box[array[int, 2]]", "Box[tuple[int, int]]", "Phantom[int]", "array[S, 2]",
                 "tuple[S, Box[int]]", "Callable[[qubit], None]", "Callable[[int], int]", "tuple[()]"]
PHANTOM_TYPES = ["Phantom[qubit]", "Phantom[array[int, 2]]", "tuple[int, Phantom[qubit]]", "Box[Phantom[qubit]]"]


def emitted_types(chk):
    """BOUNDED: the HUGR type the compiler actually EMITS for a Guppy type (to_hugr, read off a compiled
    declaration) is a copyable HUGR type exactly when the Guppy type is copyable — `hugr_bound` (proved
    below) is only the compiler's own bookkeeping."""
    import json
    from pyvc.report import run_replay
    for name, tys in (("closed-types", EMITTED_TYPES), ("struct-with-a-phantom-non-copyable-type-argument", PHANTOM_TYPES)):
        res = run_replay(REPLAY_EMITTED, {"types": tys}, chk.repo, timeout=900)
        if "evaluations" not in res:
            chk.undecided(f"bounded:emitted-hugr-type[{name}]", "oracle run failed: " + json.dumps(res)[:600])
            continue
        o = chk.bounded_result(f"bounded:emitted-hugr-type[{name}]:copyable-HUGR-type<=>copyable-Guppy-type({len(tys)} types)", not res.get("violates"), res["evaluations"],
                               detail=res.get("detail") or f"{res['evaluations']} types agree", witness=res.get("witness"), func=f"{TY}:StructType.to_hugr")
        if res.get("violates"):
            o.replay.update({"script": REPLAY_EMITTED, "input": {"types": tys}})


def run(chk):
    chk.section("emitted-hugr-types", lambda: emitted_types(chk))
    e = mk_engine(chk)
    for q in ("TypeBase.linear", "TypeBase.affine", "TypeBase.hugr_bound", "ParametrizedTypeBase.copyable", "ParametrizedTypeBase.droppable",
              "ParametrizedTypeBase.hugr_bound", "TupleType.intrinsically_copyable", "TupleType.intrinsically_droppable",
              "OpaqueType.intrinsically_copyable", "OpaqueType.intrinsically_droppable", "OpaqueType.hugr_bound",
              "StructType.intrinsically_copyable", "StructType.intrinsically_droppable", "StructType.fields"):
        e.func_info(TY, q)
    # hugr TypeBound: Copyable < Linear, join = least upper bound (ASSUMED, hugr.tys.TypeBound)
    TB = ClassVal("TypeBound", builtin=True)
    COPY, LIN = SObj(TB, {"name": "Copyable"}), SObj(TB, {"name": "Linear"})

    class Bound:
        """symbolic bound: z3 Bool `lin`"""

    def mk_bound(lin):
        if isinstance(lin, bool):
            return LIN if lin else COPY
        o = SObj(TB, {"name": "sym"})
        o.lin = lin
        return o

    def lin_of(b):
        if b is COPY:
            return z3.BoolVal(False)
        if b is LIN:
            return z3.BoolVal(True)
        return b.lin

    def join(*bs):
        return mk_bound(z3.simplify(z3.Or(*[lin_of(b) for b in bs])))
    tbmod = SObj(ClassVal("TypeBoundCls", builtin=True), {"Copyable": COPY, "Linear": LIN, "join": Builtin("join", join)})
    e.ext_models["hugr.tys.TypeBound"] = tbmod
    chk.assumptions.append("ASSUMED: hugr.tys.TypeBound has Copyable < Linear and TypeBound.join is the least upper bound")

    def leaf(it, i):
        m = e.module(TY)
        BV = it.lookup_global(m, "BoundTypeVar")
        return it.call(BV, [f"T{i}", i, SBool(z3.Bool(f"c{i}")), SBool(z3.Bool(f"d{i}"))], {})

    def bool_t(v):
        return zbool(v) if not isinstance(v, bool) else z3.BoolVal(v)

    def get3(it, t):
        c, d, b = it.getattr(t, "copyable"), it.getattr(t, "droppable"), it.getattr(t, "hugr_bound")
        return bool_t(c), bool_t(d), lin_of(b), bool_t(it.getattr(t, "linear")), bool_t(it.getattr(t, "affine"))

    # ---- leaves: linear/affine/hugr_bound from the two flags
    def t_leaf(it):
        return get3(it, leaf(it, 0))
    c0, d0 = z3.Bools("c0 d0")
    chk.prove_paths("TypeBase(leaf):linear<=>!c/\\!d;affine<=>!c/\\d;hugr_bound==Copyable<=>copyable", e.explore(t_leaf),
                    lambda p: z3.BoolVal(False) if p.kind != "return" else z3.And(p.value[0] == c0, p.value[1] == d0, p.value[2] == z3.Not(c0),
                                                                                  p.value[3] == z3.And(z3.Not(c0), z3.Not(d0)), p.value[4] == z3.And(z3.Not(c0), d0)),
                    func=f"{TY}:TypeBase.hugr_bound")

    # ---- tuples (transparent), arities 0..3
    for n in range(4):
        def t(it, n=n):
            TT = it.lookup_global(e.module(TY), "TupleType")
            return get3(it, it.call(TT, [[leaf(it, i) for i in range(n)]], {}))
        cs, ds = [z3.Bool(f"c{i}") for i in range(n)], [z3.Bool(f"d{i}") for i in range(n)]
        chk.prove_paths(f"TupleType[arity={n}]:copyable<=>all-elements-copyable;droppable<=>all-droppable;hugr_bound==Copyable<=>copyable", e.explore(t),
                        lambda p, cs=cs, ds=ds: z3.BoolVal(False) if p.kind != "return" else z3.And(
                            p.value[0] == z3.And(*cs) if cs else p.value[0], p.value[1] == (z3.And(*ds) if ds else z3.BoolVal(True)),
                            p.value[2] == z3.Not(p.value[0])), func=f"{TY}:ParametrizedTypeBase.copyable",
                        replay=lambda m, n=n: {"script": REPLAY_TUPLE, "input": {"flags": [[z3.is_true(m.eval(z3.Bool(f"c{i}"), model_completion=True)),
                                                                                            z3.is_true(m.eval(z3.Bool(f"d{i}"), model_completion=True))] for i in range(n)]}})

    # ---- nested: tuple of (tuple, leaf) — induction step instance with a composite child
    def t_nested(it):
        TT = it.lookup_global(e.module(TY), "TupleType")
        inner = it.call(TT, [[leaf(it, 0), leaf(it, 1)]], {})
        return get3(it, it.call(TT, [[inner, leaf(it, 2)]], {}))
    c = [z3.Bool(f"c{i}") for i in range(3)]
    d = [z3.Bool(f"d{i}") for i in range(3)]
    chk.prove_paths("TupleType[nested]:flags-are-the-conjunction-over-all-leaves;bound-agrees", e.explore(t_nested),
                    lambda p: z3.BoolVal(False) if p.kind != "return" else z3.And(p.value[0] == z3.And(*c), p.value[1] == z3.And(*d), p.value[2] == z3.Not(z3.And(*c))),
                    func=f"{TY}:ParametrizedTypeBase.hugr_bound")

    # ---- opaque types: intrinsic flags of the definition /\ type arguments; const args ignored; explicit bound override
    nc, nd = z3.Bools("never_copyable never_droppable")
    for n, with_const, override in ((0, False, False), (1, False, False), (2, True, False), (1, False, True)):
        def t(it, n=n, with_const=with_const, override=override):
            m = e.module(TY)
            OT = it.lookup_global(m, "OpaqueType")
            TA = it.lookup_global(e.module("guppylang_internals.tys.arg"), "TypeArg")
            CA = it.lookup_global(e.module("guppylang_internals.tys.arg"), "ConstArg")
            args = [it.call(TA, [leaf(it, i)], {}) for i in range(n)]
            if with_const:
                args.append(SObj(CA, {"const": SObj(ClassVal("Const"), {})}))
            defn = SObj(ClassVal("OpaqueTypeDef", builtin=True), {"never_copyable": SBool(nc), "never_droppable": SBool(nd),
                                                                   "bound": LIN if override else None})
            return get3(it, it.call(OT, [args, defn], {}))
        cs, ds = [z3.Bool(f"c{i}") for i in range(n)], [z3.Bool(f"d{i}") for i in range(n)]

        def post(p, cs=cs, ds=ds, override=override):
            if p.kind != "return":
                return z3.BoolVal(False)
            cop = z3.And(z3.Not(nc), *cs)
            return z3.And(p.value[0] == cop, p.value[1] == z3.And(z3.Not(nd), *ds),
                          p.value[2] == (z3.BoolVal(True) if override else z3.Not(cop)))
        chk.prove_paths(f"OpaqueType[type-args={n},const-arg={with_const},bound-override={override}]:copyable<=>!never_copyable/\\all-type-args-copyable;likewise-droppable;bound",
                        e.explore(t), post, func=f"{TY}:OpaqueType.intrinsically_copyable")

    # ---- structs: intrinsic flags from the (instantiated) field types
    for nf in (0, 1, 2):
        def t(it, nf=nf):
            m = e.module(TY)
            ST = it.lookup_global(m, "StructType")
            TA = it.lookup_global(e.module("guppylang_internals.tys.arg"), "TypeArg")
            BV = it.lookup_global(m, "BoundTypeVar")
            e.models["guppylang_internals.definition.struct:StructField"] = lambda it2, a, k: SObj(ClassVal("StructField"), {"name": a[0], "ty": a[1]})
            # generic struct S[T0..]: field i has type T_i (bound var i), instantiated with leaf i
            fdefs = [SObj(ClassVal("StructField"), {"name": f"f{i}", "ty": it.call(BV, [f"P{i}", i, True, True], {})}) for i in range(nf)]
            defn = SObj(ClassVal("CheckedStructDef", builtin=True), {"fields": fdefs})
            args = [it.call(TA, [leaf(it, i)], {}) for i in range(nf)]
            s = it.call(ST, [args, defn], {})
            flds = it.getattr(s, "fields")
            return get3(it, s), [f.fields["ty"] for f in flds], [a.fields["ty"] for a in args]
        cs, ds = [z3.Bool(f"c{i}") for i in range(nf)], [z3.Bool(f"d{i}") for i in range(nf)]

        def post(p, cs=cs, ds=ds):
            if p.kind != "return":
                return z3.BoolVal(False)
            (cop, dro, lin, _, _), ftys, atys = p.value
            inst_ok = all(a is b for a, b in zip(ftys, atys))
            return z3.And(z3.BoolVal(inst_ok), cop == (z3.And(*cs) if cs else z3.BoolVal(True)), dro == (z3.And(*ds) if ds else z3.BoolVal(True)), lin == z3.Not(cop))
        chk.prove_paths(f"StructType[fields={nf}]:fields-are-instantiated-with-the-arguments;copyable<=>all-fields-copyable;likewise-droppable;bound",
                        e.explore(t), post, func=f"{TY}:StructType.intrinsically_copyable")
    # ---- structs whose fields MIX a parameter with an intrinsically classified component
    # (`xs: tuple[T, Q]`, plus a parameter-free field): every field counts, instantiated
    ncs, nds = [z3.Bool(f"never_copyable{i}") for i in range(2)], [z3.Bool(f"never_droppable{i}") for i in range(2)]

    def t_mixed(it):
        m = e.module(TY)
        ST, TT, OT = it.lookup_global(m, "StructType"), it.lookup_global(m, "TupleType"), it.lookup_global(m, "OpaqueType")
        TA = it.lookup_global(e.module("guppylang_internals.tys.arg"), "TypeArg")
        BV = it.lookup_global(m, "BoundTypeVar")
        e.models["guppylang_internals.definition.struct:StructField"] = lambda it2, a, k: SObj(ClassVal("StructField"), {"name": a[0], "ty": a[1]})
        opq = [it.call(OT, [[], SObj(ClassVal("OpaqueTypeDef", builtin=True), {"never_copyable": SBool(ncs[i]), "never_droppable": SBool(nds[i]), "bound": None})], {}) for i in range(2)]
        f0 = it.call(TT, [[it.call(BV, ["P0", 0, True, True], {}), opq[0]]], {})
        fdefs = [SObj(ClassVal("StructField"), {"name": "mixed", "ty": f0}), SObj(ClassVal("StructField"), {"name": "plain", "ty": opq[1]})]
        defn = SObj(ClassVal("CheckedStructDef", builtin=True), {"fields": fdefs})
        s = it.call(ST, [[it.call(TA, [leaf(it, 0)], {})], defn], {})
        return get3(it, s)

    def post_mixed(p):
        if p.kind != "return":
            return z3.BoolVal(False)
        cop, dro, lin = p.value[0], p.value[1], p.value[2]
        wc = z3.And(z3.Bool("c0"), z3.Not(ncs[0]), z3.Not(ncs[1]))
        wd = z3.And(z3.Bool("d0"), z3.Not(nds[0]), z3.Not(nds[1]))
        return z3.And(cop == wc, dro == wd, lin == z3.Not(wc))
    chk.prove_paths("StructType[mixed: (tuple[T, Q0], Q1)]:copyable<=>argument/\\both-intrinsic-components-copyable;likewise-droppable;bound", e.explore(t_mixed), post_mixed,
                    func=f"{TY}:StructType.intrinsically_copyable", replay=lambda m_: {"script": REPLAY_STRUCT_MIXED, "input": {}})
    e.models.pop("guppylang_internals.definition.struct:StructField", None)

    # ---- base types: numbers, None, functions are copyable and droppable
    def t_base(it):
        m = e.module(TY)
        NT, NoneT = it.lookup_global(m, "NumericType"), it.lookup_global(m, "NoneType")
        out = []
        for k in ("Nat", "Int", "Float"):
            t = it.call(NT, [it.getattr(it.getattr(NT, "Kind"), k)], {})
            out.append((it.getattr(t, "copyable"), it.getattr(t, "droppable")))
        n = it.call(NoneT, [], {})
        out.append((it.getattr(n, "copyable"), it.getattr(n, "droppable")))
        return out
    chk.prove_paths("NumericType/NoneType:copyable/\\droppable", e.explore(t_base), lambda p: z3.BoolVal(p.kind == "return" and all(c is True and d is True for c, d in p.value)),
                    func=f"{TY}:NumericType.copyable")
    ftc = e.module(TY).find("FunctionType")
    # FunctionType declares the flags as dataclass fields with constant defaults; __init__ must not overwrite them
    props = {s.target.id: ast.unparse(s.value) for s in ftc.body if isinstance(s, ast.AnnAssign) and isinstance(s.target, ast.Name)
             and s.target.id in ("copyable", "droppable", "hugr_bound") and s.value is not None}
    init = [f for f in ftc.body if isinstance(f, ast.FunctionDef) and f.name == "__init__"]
    overwritten = [ast.unparse(n) for f in init for n in ast.walk(f) if isinstance(n, ast.Call) and ast.unparse(n.func) == "object.__setattr__"
                   and len(n.args) > 1 and isinstance(n.args[1], ast.Constant) and n.args[1].value in ("copyable", "droppable", "hugr_bound")]
    chk.record("FunctionType:copyable-and-droppable-with-Copyable-bound",
               props.get("copyable", "").startswith("field(default=True") and props.get("droppable", "").startswith("field(default=True")
               and "TypeBound.Copyable" in props.get("hugr_bound", "") and not overwritten, f"{props} overwritten={overwritten}",
               func=f"{TY}:FunctionType", backend="structural")

    # ---- intrinsic table of the builtin type definitions (binding-table mode: constructor keywords in the source)
    bm = e.module(BT)
    found = {}
    for st in bm.tree.body:
        if isinstance(st, ast.Assign) and isinstance(st.value, ast.Call) and isinstance(st.targets[0], ast.Name) and st.targets[0].id.endswith("_type_def"):
            kw = {k.arg: k.value for k in st.value.keywords}
            if "never_copyable" in kw and "never_droppable" in kw:
                found[st.targets[0].id[: -len("_type_def")]] = (ast.literal_eval(kw["never_copyable"]), ast.literal_eval(kw["never_droppable"]))
    for name, want in INTRINSIC.items():
        if want is None:
            continue
        chk.record(f"builtin.{name}_type_def:(never_copyable,never_droppable)=={want}", found.get(name) == want, f"source has {found.get(name)}", func=f"{BT}:{name}_type_def",
                   backend="binding-table(constructor keywords)")
    extra = {k: v for k, v in found.items() if k not in INTRINSIC}
    chk.notes.append(f"other opaque type definitions in tys/builtin.py and their flags: {extra}")
    qm = e.module("guppylang.std.quantum")
    qdeco = None
    for st in qm.tree.body:
        if isinstance(st, ast.ClassDef) and st.name == "qubit":
            for d in st.decorator_list:
                if isinstance(d, ast.Call) and ast.unparse(d.func) == "custom_type":
                    qdeco = (ast.unparse(d.args[0]), {k.arg: ast.literal_eval(k.value) for k in d.keywords})
    chk.record("std.quantum.qubit:neither-copyable-nor-droppable,hugr-type-Qubit", qdeco == ("ht.Qubit", {"copyable": False, "droppable": False}), str(qdeco),
               func="guppylang.std.quantum:qubit", backend="binding-table(decorator arguments)")

    # ---- requires_drop on hugr types
    e.func_info(CC, "requires_drop")
    e.func_info(CC, "insert_drops")
    H = {n: rec(n) for n in ("ExtType", "Opaque", "Sum", "Variable", "FunctionType", "Alias", "TypeTypeArg", "BoundedNatArg", "Tuple")}
    for n, c in H.items():
        e.ext_models[f"hugr.tys.{n}"] = c
    e.models[f"{CC}:qualified_name"] = lambda it, a, k: a[0].fields["qn"]
    e.global_presets = {(CC, "AFFINE_EXTENSION_TYS"): ["collections.array.array", "collections.borrow_arr.borrow_array"]}

    def hty(kind, **kw):
        return SObj(H[kind], dict(kw))

    def arr(inner=None):
        return hty("ExtType", type_def=SObj(ClassVal("TypeDef"), {"qn": "collections.array.array"}), args=[hty("TypeTypeArg", ty=inner)] if inner else [])

    def ext(qn, *inner):
        return hty("ExtType", type_def=SObj(ClassVal("TypeDef"), {"qn": qn}), args=[hty("TypeTypeArg", ty=i) for i in inner] + [hty("BoundedNatArg", n=3)])
    cases = [("array", arr(), True), ("int", ext("arithmetic.int.types.int"), False), ("option-of-array", ext("x.option", arr()), True),
             ("option-of-int", ext("x.option", ext("arithmetic.int.types.int")), False),
             ("sum-containing-array", hty("Sum", variant_rows=[[ext("i")], [ext("i"), arr()]]), True), ("sum-of-ints", hty("Sum", variant_rows=[[ext("i")], []]), False),
             ("linear-variable", hty("Variable", bound=LIN), True), ("copyable-variable", hty("Variable", bound=COPY), False),
             ("function", hty("FunctionType"), False), ("opaque-borrow-array", hty("Opaque", id="borrow_array", extension="collections.borrow_arr", args=[]), True)]
    for name, ty, want in cases:
        def t(it, ty=ty):
            return it.call(it.lookup_global(e.module(CC), "requires_drop"), [ty], {})
        chk.prove_paths(f"requires_drop[{name}]=={want}", e.explore(t), lambda p, want=want: z3.BoolVal(p.kind == "return" and p.value is want), func=f"{CC}:requires_drop")

    # ---- insert_drops: every unlinked value port whose type requires a drop gets exactly one drop; nothing else changes
    linked = [z3.Bool(f"linked{i}") for i in range(3)]
    needs = [z3.Bool(f"needs_drop{i}") for i in range(3)]

    OPKINDS = ["Conditional", "CFG", "DFG", "TailLoop", "Call", "CallIndirect", "ExtOp", "Custom", "LoadConst", "LoadFunc", "UnpackTuple", "MakeTuple", "Input", "Tag", "Case", "DataflowBlock"]

    def t_ins(it, opkind="Op"):
        added, links = [], []
        for k_ in OPKINDS:
            e.ext_models[f"hugr.ops.{k_}"] = rec(k_)
        VK = rec("ValueKind")
        e.ext_models["hugr.tys.ValueKind"] = VK
        e.ext_models["hugr.ops.FuncDefn"] = rec("FuncDefn")
        tys = [SObj(ClassVal("HT"), {"i": i}) for i in range(3)]
        e.models[f"{CC}:requires_drop"] = lambda it2, a, k: SBool(needs[a[0].fields["i"]])
        e.models[f"{CC}:drop_op"] = lambda it2, a, k: ("DROP", a[0].fields["i"])
        ports = [SObj(ClassVal("Port"), {"i": i}) for i in range(3)]
        node = SObj(ClassVal("Node"), {"out": Builtin("out", lambda i: ports[i])})
        fnode = SObj(ClassVal("Node"), {"out": Builtin("out", lambda i: 1 / 0)})
        data = {id(node): SObj(ClassVal("Data"), {"op": SObj(ClassVal("Op"), {}) if opkind == "Op" else SObj(e.ext_models[f"hugr.ops.{opkind}"], {}), "parent": "PARENT"}),
                id(fnode): SObj(ClassVal("Data"), {"op": SObj(e.ext_models["hugr.ops.FuncDefn"], {}), "parent": None})}

        def linked_ports(p):
            return ["other"] if it.ctx.branch(linked[p.fields["i"]]) else []

        def add_node(op, parent=None):
            n = SObj(ClassVal("Node"), {"op": op, "parent": parent, "inp": Builtin("inp", lambda i: ("IN", op, i))})
            added.append(n)
            return n
        hugr = SObj(ClassVal("Hugr", builtin=True), {
            "__iter__": Builtin("iter", lambda *a: [node, fnode]), "__getitem__": Builtin("getitem", lambda *a: data[id(a[-1])]),
            "num_out_ports": Builtin("nop", lambda n: 3), "port_kind": Builtin("pk", lambda p: SObj(VK, {"ty": tys[p.fields["i"]]}) if p.fields["i"] != 2 else SObj(ClassVal("OrderKind"), {})),
            "linked_ports": Builtin("lp", linked_ports), "add_node": Builtin("add_node", add_node), "add_link": Builtin("add_link", lambda a, b: links.append((a, b)))})
        hugr.cls.attrs["__iter__"] = hugr.fields["__iter__"]
        hugr.cls.attrs["__getitem__"] = hugr.fields["__getitem__"]
        it.call(it.lookup_global(e.module(CC), "insert_drops"), [hugr], {})
        return added, links, ports
    paths = e.explore(t_ins)

    def post_ins(p):
        if p.kind != "return":
            return z3.BoolVal(False)
        added, links, ports = p.value
        conj = []
        for i in (0, 1):
            mine = [lk for lk in links if lk[0] is ports[i]]
            want = z3.And(z3.Not(linked[i]), needs[i])
            ok_shape = len(mine) <= 1 and all(lk[1][0] == "IN" and lk[1][1] == ("DROP", i) and lk[1][2] == 0 for lk in mine)
            conj.append(z3.And(z3.BoolVal(ok_shape), z3.BoolVal(len(mine) == 1) == want))
        conj.append(z3.BoolVal(not any(lk[0] is ports[2] for lk in links) and len(added) == len(links) and all(n.fields["parent"] == "PARENT" for n in added)))
        return z3.And(*conj)
    chk.prove_paths("insert_drops:exactly-one-drop-per-unlinked-value-port-whose-type-requires-it;non-value-ports/FuncDefn-untouched", paths, post_ins, func=f"{CC}:insert_drops")
    # the same for a node of every kind of operation that can have outputs (only FuncDefn nodes are exempt)
    for k_ in OPKINDS:
        chk.prove_paths(f"insert_drops[outputs-of-a-{k_}-node]:exactly-one-drop-per-unlinked-value-port-whose-type-requires-it", e.explore(lambda it, k_=k_: t_ins(it, k_)), post_ins, func=f"{CC}:insert_drops",
                        replay=lambda m_: {"script": REPLAY_DROP_COND, "input": {}})
    for k in (f"{CC}:requires_drop", f"{CC}:drop_op", f"{CC}:qualified_name"):
        e.models.pop(k, None)
    chk.must_fail("twin:flags-are-free", [], c0 == d0)
    chk.expected_min_obligations = 45
    chk.assumptions += ["arities of tuples / type-argument lists / struct fields are enumerated up to 3 (2 for structs): a stated bound on the SHAPE, all leaf classifications are symbolic",
                        "hugr type classes, Hugr graph API and qualified_name are modelled as records/tables (requires_drop/insert_drops obligations are about the case analysis and the port loop)"]
    chk.not_covered += ["linearity checker's use of the flags (C06)", "that `drop` is a valid op for the port type (C01)"]
    bound_spellings(chk, e)
    chk.use_engine(e)


def bound_spellings(chk, e):
    """parse_parameter (tys/parsing.py): the copy/drop bound a type variable is declared with.  Every
    spelling — no bound, `Copy`, `Drop`, `(Copy, Drop)`, `(Drop, Copy)` — yields a type parameter that
    must be copyable iff Copy is among the bounds and droppable iff Drop is (order irrelevant); these two
    flags are what BoundTypeVar.copyable / droppable and the HUGR bound of the variable are built from."""
    from .common import ast_from_source
    PM = "guppylang_internals.tys.parsing"
    e.func_info(PM, "parse_parameter")
    m = e.module(PM)
    n = 0
    for spelling, names in (("T", ()), ("T: Copy", ("Copy",)), ("T: Drop", ("Drop",)), ("T: (Copy, Drop)", ("Copy", "Drop")), ("T: (Drop, Copy)", ("Drop", "Copy"))):
        def t(it, spelling=spelling):
            # the ast.TypeVar node of `def f[<spelling>](): ...` (built by hand: the host Python may predate PEP 695)
            from pyvc.astmodel import ast_classes
            bound = ast_from_source(it, spelling.split(": ", 1)[1], mode="eval").fields["body"] if ": " in spelling else None
            node = SObj(ast_classes(e)["TypeVar"], {"name": "T", "bound": bound, "lineno": 1, "col_offset": 6, "end_lineno": 1, "end_col_offset": 7})
            return it.call(it.lookup_global(m, "parse_parameter"), [node, 3, SObj(ClassVal("Globals", builtin=True), {}), {}], {})
        paths = e.explore(t)

        def post(p, names=names):
            if p.kind != "return" or not isinstance(p.value, SObj) or p.value.cls.name != "TypeParam":
                return z3.BoolVal(False)
            f = p.value.fields
            return z3.BoolVal(f.get("must_be_copyable") is ("Copy" in names) and f.get("must_be_droppable") is ("Drop" in names) and f.get("idx") == 3 and f.get("name") == "T")
        chk.prove_paths(f"parse_parameter[{spelling}]:must_be_copyable<=>Copy-among-the-bounds/\\must_be_droppable<=>Drop-among-the-bounds", paths, post, func=f"{PM}:parse_parameter",
                        replay=lambda m_: {"script": REPLAY_BOUNDS, "input": {}})
        n += 1
    chk.record("parse_parameter:bound-spellings-explored", n == 5, str(n), kind="reachability")


REPLAY_BOUNDS = r'''
import tempfile, importlib.util, os, sys, shutil
from guppylang_internals.error import GuppyError
src = """from guppylang import guppy
@guppy
def dup[T: (Drop, Copy)](x: T) -> tuple[T, T]:
    return x, x
@guppy
def dup2[T: (Copy, Drop)](x: T) -> tuple[T, T]:
    return x, x
@guppy
def main() -> None:
    dup(1)
    dup2(2)
"""
d = tempfile.mkdtemp(dir=os.environ.get("TMPDIR", "/var/tmp")); fn = os.path.join(d, "replay_c14b.py"); open(fn, "w").write(src)
spec = importlib.util.spec_from_file_location("replay_c14b", fn); m = importlib.util.module_from_spec(spec); sys.modules["replay_c14b"] = m
try:
    spec.loader.exec_module(m)
    try:
        m.main.check(); out = {"violates": False, "observed": "accepted"}
    except GuppyError as ex:
        out = {"violates": True, "observed": "rejected: " + type(ex.error).__name__, "required": "a variable bounded by Drop and Copy (either order) may be used twice"}
except Exception as ex:
    out = {"violates": False, "error": repr(ex)[:300]}
shutil.rmtree(d, ignore_errors=True)
print(json.dumps(out))
'''
