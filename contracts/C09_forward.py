"""Forward half of C09: ForwardAnalysis.run instantiated with the real AssignmentAnalysis
(definite + maybe assignment in one pass), for include_unreachable in {True, False}."""
import z3

from pyvc import SObj, ClassVal, SBool, LoopSpec, Unsupported
from pyvc.symcoll import SColl, SSet, SDict
from . import C09 as B

MOD = B.MOD
BB, Var, VSet = B.BB, B.Var, B.VSet
succ, dsucc, reach, D, ASG = B.succ, B.dsucc, B.reach, B.D, B.ASG
b_, s_, p_, x_ = B.b_, B.s_, B.p_, B.x_
ABE = z3.Const("ABE", VSet)      # ass_before_entry
MBE = z3.Const("MBE", VSet)      # maybe_ass_before_entry
Pd, Qd, Pm, Qm = [z3.Const(n, z3.ArraySort(BB, VSet)) for n in ("Pd", "Qd", "Pm", "Qm")]


def dom_of(incl):
    return D if incl else z3.Lambda([b_], z3.And(z3.Select(D, b_), reach(b_)))


def pedge(incl, p, b):
    return z3.Or(succ(p, b), dsucc(p, b)) if incl else succ(p, b)


def G(kind, incl, VB, b, x):
    """Right-hand side of the equations on the `before` values (after = before ∪ assigned)."""
    has = z3.Exists([p_], pedge(incl, p_, b))
    out = lambda p: z3.Or(z3.Select(z3.Select(VB, p), x), z3.Select(z3.Select(ASG, p), x))  # noqa
    if kind == "def":
        body = z3.ForAll([p_], z3.Implies(pedge(incl, p_, b), out(p_)))
    else:
        body = z3.Exists([p_], z3.And(pedge(incl, p_, b), out(p_)))
    # a block without predecessors (the entry) starts from what is assigned BEFORE the entry: definitely (ABE)
    # resp. maybe (MBE) — the property: "assigned on all, respectively some, paths from the entry"
    return z3.If(has, body, z3.Select(ABE if kind == "def" else MBE, x))


def hyps(incl, ALL):
    dm = dom_of(incl)
    h = B.wf(incl, D) + [
        z3.ForAll([x_], z3.Implies(z3.Select(ABE, x_), z3.Select(MBE, x_))),
        # produced by AssignmentAnalysis.__init__ (proved below): all_vars covers everything assigned
        z3.ForAll([x_], z3.Implies(z3.Select(ABE, x_), z3.Select(ALL, x_))),
        z3.ForAll([b_, x_], z3.Implies(z3.And(z3.Select(B.STATS_DOM, b_), z3.Select(z3.Select(ASG, b_), x_)), z3.Select(ALL, x_))),
        z3.ForAll([b_, x_], z3.Implies(z3.And(z3.Select(dm, b_), G("def", incl, Pd, b_, x_)), z3.Select(z3.Select(Pd, b_), x_))),
        z3.ForAll([b_, x_], z3.Implies(z3.And(z3.Select(dm, b_), z3.Select(z3.Select(Qd, b_), x_)), G("def", incl, Qd, b_, x_))),
        z3.ForAll([b_, x_], z3.Implies(z3.And(z3.Select(dm, b_), G("may", incl, Pm, b_, x_)), z3.Select(z3.Select(Pm, b_), x_))),
        z3.ForAll([b_, x_], z3.Implies(z3.And(z3.Select(dm, b_), z3.Select(z3.Select(Qm, b_), x_)), G("may", incl, Qm, b_, x_))),
    ]
    if not incl:
        # call-site precondition (CFGBuilder.build prunes unreachable->reachable jumps)
        h.append(z3.ForAll([b_, s_], z3.Implies(z3.And(succ(b_, s_), reach(s_), z3.Select(D, s_)), reach(b_))))
        # `reachable` is closed under real edges (what BaseCFG.update_reachable computes)
        h.append(z3.ForAll([b_, s_], z3.Implies(z3.And(succ(b_, s_), reach(b_), z3.Select(D, b_)), reach(s_))))
    return h


def extremal(incl, VBd, VBm, ALL):
    dm = dom_of(incl)
    sel = lambda A, b, x: z3.Select(z3.Select(A, b), x)  # noqa
    return [
        z3.ForAll([b_, x_], z3.Implies(z3.And(z3.Select(dm, b_), z3.Not(z3.Select(ALL, x_)), sel(VBd, b_, x_)), sel(Pd, b_, x_))),
        z3.ForAll([b_, x_], z3.Implies(z3.And(z3.Select(dm, b_), z3.Select(ALL, x_), sel(Qd, b_, x_)), sel(VBd, b_, x_))),
        z3.ForAll([b_, x_], z3.Implies(z3.And(z3.Select(dm, b_), z3.Not(z3.Select(MBE, x_)), sel(VBm, b_, x_)), sel(Pm, b_, x_))),
        z3.ForAll([b_, x_], z3.Implies(z3.And(z3.Select(dm, b_), z3.Select(MBE, x_), sel(Qm, b_, x_)), sel(VBm, b_, x_))),
    ]


def inv(incl, vb: SDict, va: SDict, queue: SSet, ALL):
    dm = dom_of(incl)
    VBd, VBm = vb.cols
    VAd, VAm = va.cols
    sel = lambda A, b, x: z3.Select(z3.Select(A, b), x)  # noqa
    return z3.And(
        z3.ForAll([b_], z3.And(z3.Select(vb.dom, b_) == z3.Select(dm, b_), z3.Select(va.dom, b_) == z3.Select(dm, b_))),
        z3.ForAll([b_], z3.Implies(z3.Select(queue.arr, b_), z3.Select(dm, b_))),
        z3.ForAll([b_, x_], z3.Implies(z3.Select(dm, b_), z3.And(sel(VAd, b_, x_) == z3.Or(sel(VBd, b_, x_), sel(ASG, b_, x_)),
                                                                   sel(VAm, b_, x_) == z3.Or(sel(VBm, b_, x_), sel(ASG, b_, x_))))),
        z3.ForAll([b_, x_], z3.Implies(z3.And(z3.Select(dm, b_), z3.Not(z3.Select(queue.arr, b_))),
                                       z3.And(sel(VBd, b_, x_) == G("def", incl, VBd, b_, x_), sel(VBm, b_, x_) == G("may", incl, VBm, b_, x_)))),
        *extremal(incl, VBd, VBm, ALL))


def post(incl, res: SDict, ALL):
    dm = dom_of(incl)
    VBd, VBm = res.cols
    sel = lambda A, b, x: z3.Select(z3.Select(A, b), x)  # noqa
    return z3.And(
        z3.ForAll([b_], z3.Select(res.dom, b_) == z3.Select(dm, b_)),
        z3.ForAll([b_, x_], z3.Implies(z3.Select(dm, b_), z3.And(sel(VBd, b_, x_) == G("def", incl, VBd, b_, x_),
                                                                   sel(VBm, b_, x_) == G("may", incl, VBm, b_, x_)))),
        *extremal(incl, VBd, VBm, ALL))


def fresh_map(it, name):
    mk = lambda n, s: z3.Const(it.ctx.fresh_name(n), s)  # noqa
    return SDict(B.EBB, B.asg_codec, mk(name + "_dom", z3.ArraySort(BB, z3.BoolSort())),
                 [mk(name + "_def", z3.ArraySort(BB, VSet)), mk(name + "_may", z3.ArraySort(BB, VSet))])


def run_forward(chk, e):
    # ---- AssignmentAnalysis.__init__: all_vars covers ass_before_entry and every assigned variable
    def t_init(it):
        AA = it.lookup_global(e.module(MOD), "AssignmentAnalysis")
        it.ctx.assume(z3.ForAll([x_], z3.Implies(z3.Select(ABE, x_), z3.Select(MBE, x_))))
        it.ctx.assume(z3.Exists([b_], z3.Select(B.STATS_DOM, b_)))   # set.union(*()) of no blocks is a TypeError-free set() only with >=1 block
        return it.call(AA, [B.mk_stats(), SSet(B.EVAR, ABE), SSet(B.EVAR, MBE), True], {})
    def post_init(p):
        if p.kind != "return":
            return z3.BoolVal(False)
        a = p.value.fields.get("all_vars")
        if not isinstance(a, SColl):
            return z3.BoolVal(False)
        return z3.And(z3.ForAll([x_], z3.Implies(z3.Select(ABE, x_), z3.Select(a.arr, x_))),
                      z3.ForAll([b_, x_], z3.Implies(z3.And(z3.Select(B.STATS_DOM, b_), z3.Select(z3.Select(ASG, b_), x_)), z3.Select(a.arr, x_))))
    chk.section("assignment-init", lambda: chk.prove_paths(
        "AssignmentAnalysis.__init__:all_vars>=ass_before_entry+every-assigned-variable", e.explore(t_init), post_init,
        func=f"{MOD}:AssignmentAnalysis.__init__"))

    # the same statement on concrete block tables (1..3 blocks, arguments that no block re-assigns):
    # decides formulations of the union the symbolic collections cannot express
    def init_concrete():
        import itertools
        tables = [[{"a"}], [set(), {"x", "y"}], [{"x"}, {"y"}, {"x", "z"}], [set()]]
        entries = [set(), {"p"}, {"p", "x"}, {"p", "q"}]
        for ti, tab in enumerate(tables):
            for abe in entries:
                def t(it, tab=tab, abe=abe):
                    AA = it.lookup_global(e.module(MOD), "AssignmentAnalysis")
                    VS = it.lookup_global(e.module("guppylang_internals.cfg.bb"), "VariableStats")
                    stats = {SObj(ClassVal("BB", builtin=True), {"idx": i}): it.call(VS, [{v: f"NODE-{v}" for v in sorted(asg)}, {}], {}) for i, asg in enumerate(tab)}
                    a = it.call(AA, [stats, set(abe), set(abe) | {"m"}, True], {})
                    return it.getattr(a, "all_vars")
                want = set(abe).union(*tab)
                chk.prove_paths(f"AssignmentAnalysis.__init__[blocks assign {[sorted(x) for x in tab]}, before entry {sorted(abe)}]:all_vars>=ass_before_entry+every-assigned-variable",
                                e.explore(t), lambda p, want=want: z3.BoolVal(p.kind == "return" and isinstance(p.value, (set, frozenset)) and want <= set(p.value)),
                                func=f"{MOD}:AssignmentAnalysis.__init__", replay=lambda m_: {"script": REPLAY_INIT, "input": {}})
    chk.section("assignment-init-concrete", init_concrete)

    # ---- frame + value of the domain functions for 1..3 concrete arguments: the fixpoint proof
    # below treats the values stored in vals_before / vals_after as immutable; that is sound only if
    # join / apply_bb / eq leave the sets they are handed (cached values of other blocks) unchanged
    def frames():
        def same_arr(a, b):
            return z3.ForAll([x_], z3.Select(a, x_) == z3.Select(b, x_))
        for n in (1, 2, 3):
            Ds = [z3.Const(f"FD{k}", VSet) for k in range(n)]
            Ms = [z3.Const(f"FM{k}", VSet) for k in range(n)]

            def t_join(it, n=n, Ds=Ds, Ms=Ms):
                AA = it.lookup_global(e.module(MOD), "AssignmentAnalysis")
                aa = SObj(AA, {"stats": B.mk_stats(), "ass_before_entry": SSet(B.EVAR, ABE), "maybe_ass_before_entry": SSet(B.EVAR, MBE),
                               "all_vars": SSet(B.EVAR, z3.Const("ALLVARS", VSet)), "_include_unreachable": True})
                ts = [(SSet(B.EVAR, Ds[k]), SSet(B.EVAR, Ms[k])) for k in range(n)]
                r = it.call(it.getattr(aa, "join"), list(ts), {})
                return r, ts, aa

            def post_join(p, n=n, Ds=Ds, Ms=Ms):
                if p.kind != "return" or not (isinstance(p.value[0], tuple) and len(p.value[0]) == 2 and all(isinstance(v, SColl) for v in p.value[0])):
                    return z3.BoolVal(False)
                (rd, rm), ts, aa = p.value
                frame = [same_arr(ts[k][0].arr, Ds[k]) for k in range(n)] + [same_arr(ts[k][1].arr, Ms[k]) for k in range(n)]
                frame += [same_arr(aa.fields["ass_before_entry"].arr, ABE), same_arr(aa.fields["maybe_ass_before_entry"].arr, MBE)]
                return z3.And(z3.ForAll([x_], z3.Select(rd.arr, x_) == z3.And(*[z3.Select(d, x_) for d in Ds])),
                              z3.ForAll([x_], z3.Select(rm.arr, x_) == z3.Or(*[z3.Select(m, x_) for m in Ms])), *frame)
            chk.prove_paths(f"AssignmentAnalysis.join[{n}-arguments]:(intersection-of-def,union-of-maybe)/\\every-argument-set-left-unchanged", e.explore(t_join), post_join,
                            func=f"{MOD}:AssignmentAnalysis.join")
        Dv, Mv = z3.Const("FDv", VSet), z3.Const("FMv", VSet)
        bb0 = z3.Const("FB", BB)

        def t_apply(it):
            AA = it.lookup_global(e.module(MOD), "AssignmentAnalysis")
            it.ctx.assume(z3.Select(B.STATS_DOM, bb0))
            aa = SObj(AA, {"stats": B.mk_stats(), "ass_before_entry": SSet(B.EVAR, ABE), "maybe_ass_before_entry": SSet(B.EVAR, MBE),
                           "all_vars": SSet(B.EVAR, z3.Const("ALLVARS", VSet)), "_include_unreachable": True})
            vb = (SSet(B.EVAR, Dv), SSet(B.EVAR, Mv))
            return it.call(it.getattr(aa, "apply_bb"), [vb, B.EBB.wrap(bb0)], {}), vb

        def post_apply(p):
            if p.kind != "return" or not (isinstance(p.value[0], tuple) and len(p.value[0]) == 2 and all(isinstance(v, SColl) for v in p.value[0])):
                return z3.BoolVal(False)
            (rd, rm), vb = p.value
            asg = lambda x: z3.Select(z3.Select(ASG, bb0), x)  # noqa: E731
            return z3.And(z3.ForAll([x_], z3.Select(rd.arr, x_) == z3.Or(z3.Select(Dv, x_), asg(x_))),
                          z3.ForAll([x_], z3.Select(rm.arr, x_) == z3.Or(z3.Select(Mv, x_), asg(x_))),
                          same_arr(vb[0].arr, Dv), same_arr(vb[1].arr, Mv))
        chk.prove_paths("AssignmentAnalysis.apply_bb:(def+assigned,maybe+assigned)/\\the-value-before-is-left-unchanged", e.explore(t_apply), post_apply,
                        func=f"{MOD}:AssignmentAnalysis.apply_bb")
    chk.section("assignment-frames", frames)

    def forward(incl):
        ALL = z3.Const("ALLVARS", VSet)

        def run_inv(it, fr, incl=incl, ALL=ALL):
            return inv(incl, fr.locals["vals_before"], fr.locals["vals_after"], fr.locals["queue"], ALL)

        def run_havoc(it, fr):
            fr.locals["vals_before"] = fresh_map(it, "vb")
            fr.locals["vals_after"] = fresh_map(it, "va")
            fr.locals["queue"] = B.fresh_set(it, "queue")
            for n in ("bb", "preds", "val_after"):
                fr.locals.pop(n, None)
        e.loop_specs[f"{MOD}:ForwardAnalysis.run"] = {0: LoopSpec("len(queue) > 0", run_inv, run_havoc,
                                                                  modifies={"vals_before", "vals_after", "queue", "bb", "preds", "val_after"})}

        def t_run(it, incl=incl, ALL=ALL):
            AA = it.lookup_global(e.module(MOD), "AssignmentAnalysis")
            for h in hyps(incl, ALL):
                it.ctx.assume(h)
            aa = SObj(AA, {"stats": B.mk_stats(), "ass_before_entry": SSet(B.EVAR, ABE), "maybe_ass_before_entry": SSet(B.EVAR, MBE),
                           "all_vars": SSet(B.EVAR, ALL), "_include_unreachable": incl})
            return it.call(it.getattr(aa, "run"), [SColl(B.EBB, D)], {})
        paths = e.explore(t_run)

        def post_run(p, incl=incl, ALL=ALL):
            if p.kind != "return" or not isinstance(p.value, SDict):
                return z3.BoolVal(False)
            return post(incl, p.value, ALL)
        chk.prove_paths(f"ForwardAnalysis.run[assignment,include_unreachable={incl}]:fixpoint/\\extremal(def:greatest-in-all_vars;maybe:least-above-what-is-maybe-assigned-before-the-entry)",
                        paths, post_run, func=f"{MOD}:ForwardAnalysis.run", replay=lambda m_: {"script": REPLAY_MAYBE, "input": {}})
        chk.record(f"ForwardAnalysis.run[{incl}]:loop-cut-and-exit-paths-both-explored",
                   any(p.kind == "cut" for p in paths) and any(p.kind == "return" for p in paths), str([p.kind for p in paths]), kind="reachability")
    for incl in (True, False):
        chk.section(f"forward-{incl}", lambda incl=incl: forward(incl))


REPLAY_INIT = r'''
import tempfile, importlib.util, os, sys, shutil
from guppylang_internals.cfg.cfg import CFG
from guppylang_internals.cfg.bb import BB, VariableStats
# a loop that reads a function argument: entry -> head <-> body, head -> exit; `a` is assigned before the
# entry and by no block, `c` is assigned in the body
cfg = CFG()
entry, head, body, exit_ = cfg.new_bb(), cfg.new_bb(), cfg.new_bb(), cfg.new_bb()
cfg.entry_bb, cfg.exit_bb = entry, exit_
cfg.link(entry, head); cfg.link(head, exit_); cfg.link(head, body); cfg.link(body, head)
for b in cfg.bbs:
    b._vars = VariableStats({}, {})
body._vars = VariableStats({"c": None}, {"a": None})
for b in cfg.bbs:
    b.compute_variable_stats = (lambda b=b: b._vars)
try:
    cfg.analyze({"a"}, {"a"}, [])
    got = {b.idx: sorted(cfg.ass_before[b]) for b in cfg.bbs}
    out = {"violates": "a" not in cfg.ass_before[body] or "a" not in cfg.ass_before[exit_], "ass_before": got, "required": "`a` (assigned before the entry) is definitely assigned in every block"}
except Exception as ex:
    out = {"violates": False, "error": repr(ex)[:300]}
print(json.dumps(out))
'''


REPLAY_MAYBE = r'''
from guppylang_internals.cfg.cfg import CFG
from guppylang_internals.cfg.bb import VariableStats
def build(loop):
    cfg = CFG()
    if not loop:
        entry, B, exit_ = cfg.new_bb(), cfg.new_bb(), cfg.new_bb()
        cfg.link(entry, B); cfg.link(B, exit_); stats = {B: {"y": None}}
    else:
        entry, H, B, exit_ = cfg.new_bb(), cfg.new_bb(), cfg.new_bb(), cfg.new_bb()
        cfg.link(entry, H); cfg.link(H, exit_); cfg.link(H, B); cfg.link(B, H); stats = {B: {"y": None}}
    cfg.entry_bb, cfg.exit_bb = entry, exit_
    for b in cfg.bbs:
        b._vars = VariableStats(dict(stats.get(b, {})), {})
        b.compute_variable_stats = (lambda b=b: b._vars)
    cfg.analyze({"a"}, {"a", "m"}, [])
    return {b.idx: sorted(cfg.maybe_ass_before[b]) for b in cfg.bbs if b.reachable or b is entry}
a, b = build(False), build(True)
bad = [k for d in (a, b) for k, v in d.items() if "m" not in v]
print(json.dumps({"violates": bool(bad), "maybe_assigned_loop_free": a, "maybe_assigned_with_loop": b, "required": "`m` (maybe assigned before the entry) is maybe assigned at every block reachable from the entry"}))
'''
