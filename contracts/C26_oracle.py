"""Native oracle for C26 (bounded layer): a loaded pytket circuit against pytket's own semantics.

Each member of a family of small circuits (several qubit / bit registers added in non-lexicographic
order, symbolic parameters whose names appear in non-lexicographic order, deterministic
measurements, an 11-qubit register) is loaded with guppy.load_pytket — with and without array
arguments —, called from a Guppy program that prepares an input state (computational basis states
and an asymmetric product superposition), compiled by the real pipeline and run on the selene
state-vector simulator.  Reference: pytket's own unitary of the circuit (symbols substituted,
measurements removed) applied to the prepared state, with Guppy argument k identified with the k-th
qubit in pytket's (lexicographic register, numeric index) order, the k-th angle with the k-th symbol in
lexicographic name order, and the returned booleans with the bits in pytket's order.  State equality
is up to global phase (fidelity 1 up to 1e-9); bits are exact (the family measures only qubits whose
value is determined).  Declared stubs (guppy.pytket) with matching and non-matching signatures are
checked for acceptance.

Version adaptation (this sandbox: /repo 0.21.6 against tket 0.15): `tket.circuit.Tk2Circuit` is
provided by a stand-in that asks the installed tket for the circuit's HUGR; where that HUGR takes
`rotation` parameters (the release /repo targets took float half-turns) each parameter is converted
where it enters the circuit function (one `from_halfturns_unchecked` per parameter, position
unchanged); node metadata of the inserted HUGR is carried over to the compat shim's Node.metadata.
None of this touches the order of qubits, bits or parameters, which is what the property is about.
"""
ORACLE = r'''
import guppy_plainbool
import types, tket._state as _S, tket, tket_exts
from hugr import envelope as _env, tys as _ht, ops as _ops
from hugr.std.float import FLOAT_T as _F
_ROT = tket_exts.rotation()
class Tk2Circuit:
    def __init__(self, circ): self._cs = _S.CompilationState.from_tket1(circ)
    def to_bytes(self, cfg):
        pkg = _env.read_envelope(self._cs.to_bytes(cfg))
        h = pkg.modules[0]
        f = h.entrypoint
        op = h[f].op
        ins = list(op.inputs)
        rot = [i for i, t in enumerate(ins) if isinstance(t, _ht.Opaque) and t.id == "rotation"]
        if not rot:
            return pkg.to_bytes(cfg)
        kids = list(h.children(f))
        inp = next(n for n in kids if isinstance(h[n].op, _ops.Input))
        new_ins = [(_F if i in rot else t) for i, t in enumerate(ins)]
        op.inputs = new_ins
        h[inp].op.types = new_ins
        conv = _ROT.get_op("from_halfturns_unchecked")
        for i in rot:
            src = inp.out(i)
            dsts = list(h.linked_ports(src))
            for d in dsts:
                h.delete_link(src, d)
            n = h.add_node(conv.instantiate([], concrete_signature=_ht.FunctionType([_F], [ins[i]])), parent=f, num_outs=1)
            h.add_link(src, n.inp(0))
            for d in dsts:
                h.add_link(n.out(0), d)
        return pkg.to_bytes(cfg)
_mod = types.ModuleType("tket.circuit"); _mod.Tk2Circuit = Tk2Circuit
sys.modules["tket.circuit"] = _mod; tket.circuit = _mod
from hugr.hugr.base import Hugr as _Hugr
_orig_insert = _Hugr.insert_hugr
def _insert(self, other, *a, **kw):
    mapping = _orig_insert(self, other, *a, **kw)
    for old, new in mapping.items():
        md = other[old].metadata
        keys = list(md)
        if keys:
            new.metadata.clear()
            for k in keys:
                new.metadata[k] = md[k]
    return mapping
_Hugr.insert_hugr = _insert

import itertools, os, tempfile, importlib.util, shutil
import numpy as np
from pytket import Circuit, OpType
from sympy import Symbol
from guppylang_internals.error import GuppyError

H_ = np.array([[1, 1], [1, -1]], dtype=complex) / np.sqrt(2)
X_ = np.array([[0, 1], [1, 0]], dtype=complex)
def RZ(ht): return np.diag([np.exp(-0.5j * np.pi * ht), np.exp(0.5j * np.pi * ht)])
def apply(state, M, qs, n):
    k = len(qs)
    st = state.reshape([2] * n)
    Mt = np.asarray(M, dtype=complex).reshape([2] * (2 * k))
    st = np.tensordot(Mt, st, axes=(list(range(k, 2 * k)), list(qs)))
    st = np.moveaxis(st, list(range(k)), list(qs))
    return st.reshape(-1)

# ---- the circuit family: (name, qubit registers in the order they are ADDED, bit registers, gates, measurements)
# gate = (op, [params], [(reg, idx), ...]); a parameter is a number (half-turns) or a symbol name
FAMILY = [
    ("bell_like", [("q", 2)], [], [("H", [], [("q", 0)]), ("CX", [], [("q", 0), ("q", 1)]), ("Rz", [0.3], [("q", 1)]), ("Ry", [0.2], [("q", 0)])], []),
    ("two_registers", [("b", 1), ("a", 2)], [], [("X", [], [("a", 0)]), ("Ry", [0.3], [("b", 0)]), ("Rz", [0.7], [("a", 1)]), ("CX", [], [("a", 0), ("b", 0)]), ("H", [], [("a", 1)])], []),
    ("three_registers", [("q", 1), ("r", 2), ("p", 1)], [], [("Ry", [0.4], [("q", 0)]), ("CX", [], [("q", 0), ("r", 1)]), ("Rx", [0.3], [("p", 0)]), ("CZ", [], [("p", 0), ("r", 0)]), ("Rz", [0.9], [("r", 0)]), ("H", [], [("r", 0)])], []),
    ("params", [("q", 2)], [], [("Ry", ["pb"], [("q", 0)]), ("Rx", ["pc"], [("q", 1)]), ("Rz", ["pa"], [("q", 1)]), ("CX", [], [("q", 0), ("q", 1)])], []),
    ("params_four", [("q", 2)], [], [("Ry", ["d"], [("q", 0)]), ("Rz", ["a"], [("q", 0)]), ("Rx", ["c"], [("q", 1)]), ("Rz", ["b"], [("q", 1)]), ("CX", [], [("q", 1), ("q", 0)])], []),
    ("params_cab", [("q", 1)], [], [("Rx", ["c"], [("q", 0)]), ("Rz", ["a"], [("q", 0)]), ("Ry", ["b"], [("q", 0)])], []),
    ("params_registers", [("b", 1), ("a", 2)], [], [("Rx", ["t2"], [("b", 0)]), ("Ry", ["t10"], [("a", 1)]), ("Rz", ["t1"], [("a", 0)]), ("H", [], [("a", 0)]), ("CX", [], [("b", 0), ("a", 0)])], []),
    ("measure_one", [("q", 2)], [("c", 1)], [("X", [], [("q", 1)]), ("Ry", [0.3], [("q", 0)])], [(("q", 1), ("c", 0))]),
    ("measure_registers", [("b", 1), ("a", 2)], [("d", 1), ("c", 2)], [("X", [], [("a", 0)]), ("CX", [], [("a", 0), ("b", 0)]), ("Ry", [0.3], [("a", 1)])],
     [(("a", 0), ("c", 1)), (("b", 0), ("d", 0))]),
    ("measure_three_cregs", [("q", 4)], [("b", 2), ("a", 1), ("c", 1)], [("X", [], [("q", 0)]), ("X", [], [("q", 2)]), ("CX", [], [("q", 2), ("q", 3)]), ("X", [], [("q", 3)])],
     [(("q", 0), ("a", 0)), (("q", 1), ("b", 0)), (("q", 2), ("b", 1)), (("q", 3), ("c", 0))]),
    ("measure_four_cregs", [("q", 5)], [("z", 1), ("w", 2), ("x", 1), ("y", 1)], [("X", [], [("q", 1)]), ("X", [], [("q", 4)])],
     [(("q", 0), ("w", 0)), (("q", 1), ("w", 1)), (("q", 2), ("x", 0)), (("q", 3), ("y", 0)), (("q", 4), ("z", 0))]),
    ("measure_params", [("q", 3)], [("c", 2)], [("X", [], [("q", 2)]), ("Ry", ["beta"], [("q", 0)]), ("Rz", ["alpha"], [("q", 0)]), ("CX", [], [("q", 2), ("q", 1)])],
     [(("q", 2), ("c", 0)), (("q", 1), ("c", 1))]),
    # circuits with an IMPLICIT qubit permutation (SWAPs replaced by wire swaps at the end of the circuit)
    ("implicit_swap", [("q", 3)], [], [("X", [], [("q", 0)]), ("SWAP", [], [("q", 0), ("q", 2)]), ("Ry", [0.3], [("q", 1)]), ("CX", [], [("q", 2), ("q", 1)]), ("Rz", [0.4], [("q", 0)])], []),
    ("implicit_cycle", [("b", 1), ("a", 2)], [], [("X", [], [("a", 0)]), ("SWAP", [], [("a", 0), ("b", 0)]), ("Ry", [0.3], [("a", 1)]), ("SWAP", [], [("b", 0), ("a", 1)]), ("CX", [], [("a", 1), ("a", 0)])], []),
    ("eleven", [("q", 11)], [], [("X", [], [("q", 10)]), ("Ry", [0.3], [("q", 2)]), ("CX", [], [("q", 10), ("q", 1)]), ("Rz", [0.6], [("q", 9)]), ("H", [], [("q", 9)])], []),
]
PVALS = [0.7, 0.3, -0.45, 1.2]

def build(spec, with_measure=True, subst=None):
    name, qregs, cregs, gates, meas = spec
    c = Circuit()
    Q = {r: c.add_q_register(r, n) for r, n in qregs}
    C = {r: c.add_c_register(r, n) for r, n in cregs}
    for op, ps, qs in gates:
        args = [Q[r][i] for r, i in qs]
        params = [(Symbol(p) if subst is None else subst[p]) if isinstance(p, str) else p for p in ps]
        c.add_gate(getattr(OpType, op), params, args)
    if name.startswith("implicit"):
        c.replace_SWAPs()
        assert any(k != v for k, v in c.implicit_qubit_permutation().items())
    if with_measure:
        for (qr, qi), (cr, ci) in meas:
            c.Measure(Q[qr][qi], C[cr][ci])
    return c

def inputs_for(spec, nq):
    name, qregs, cregs, gates, meas = spec
    if nq > 6:
        return [("basis", [0] * nq), ("basis", [1 if k in (2, 10) else 0 for k in range(nq)])]
    outs = [("basis", [0] * nq), ("basis", [(k + 1) % 2 for k in range(nq)]), ("basis", [1] * nq)]
    if not meas:
        outs.append(("sup", None))
    return outs

def cases(tier):
    out = []
    for spec in FAMILY:
        c = build(spec)
        nq = c.n_qubits
        for use_arrays in (False, True):
            for inp in inputs_for(spec, nq):
                out.append((spec, use_arrays, inp))
    return out

def guppy_source(k, spec, use_arrays, inp):
    """Guppy text calling the loaded circuit `circ{k}`; returns (lines, reference data)"""
    name, qregs, cregs, gates, meas = spec
    c = build(spec)
    qubits = c.qubits                       # pytket's order: lexicographic register, numeric index
    nq = len(qubits)
    syms = sorted(str(s) for s in c.free_symbols())
    vals = {s: PVALS[i % len(PVALS)] for i, s in enumerate(syms)}
    st = np.zeros(2 ** nq, dtype=complex); st[0] = 1
    lines = [f"q{i} = qubit()" for i in range(nq)]
    if inp[0] == "basis":
        for i, b in enumerate(inp[1]):
            if b:
                lines.append(f"x(q{i})"); st = apply(st, X_, [i], nq)
    else:
        for i in range(nq):
            ht = 0.37 + 0.2 * i
            lines += [f"h(q{i})", f"rz(q{i}, angle({ht}))"]
            st = apply(st, H_, [i], nq); st = apply(st, RZ(ht), [i], nq)
    bits = c.bits
    regs_sorted = sorted(qregs)
    cregs_sorted = sorted(cregs)
    if use_arrays:
        pos = 0
        for r, n in regs_sorted:
            lines.append(f"r_{r} = array({', '.join(f'q{pos + j}' for j in range(n))})"); pos += n
        args = [f"r_{r}" for r, n in regs_sorted]
        if syms:
            args.append("array(" + ", ".join(f"angle({vals[s]})" for s in syms) + ")")
        call = f"circ{k}({', '.join(args)})"
        if len(cregs_sorted) == 0:
            lines.append(call)
        elif len(cregs_sorted) == 1:
            lines.append(f"o_{cregs_sorted[0][0]} = {call}")
        else:
            lines.append(", ".join(f"o_{r}" for r, n in cregs_sorted) + f" = {call}")
        for r, n in cregs_sorted:
            for j in range(n):
                lines.append(f"result('B', o_{r}[{j}])")
        pos = 0
        for r, n in regs_sorted:
            lines.append(", ".join(f"q{pos + j}" for j in range(n)) + ("," if n == 1 else "") + f" = r_{r}"); pos += n
    else:
        args = [f"q{i}" for i in range(nq)] + [f"angle({vals[s]})" for s in syms]
        call = f"circ{k}({', '.join(args)})"
        nb = len(bits)
        if nb == 0:
            lines.append(call)
        elif nb == 1:
            lines.append(f"b0 = {call}")
        else:
            lines.append(", ".join(f"b{j}" for j in range(nb)) + f" = {call}")
        for j in range(nb):
            lines.append(f"result('B', b{j})")
    lines.append(f"state_result('c{k}', {', '.join(f'q{i}' for i in range(nq))})")
    lines += [f"discard(q{i})" for i in range(nq)]
    # reference
    U = build(spec, with_measure=False, subst=vals).get_unitary()
    ref = U @ st
    want_bits = []
    t = ref.reshape([2] * nq)
    by_bit = {}
    for (qr, qi), (cr, ci) in meas:
        qpos = [i for i, q_ in enumerate(qubits) if q_.reg_name == qr and q_.index[0] == qi][0]
        p1 = float(np.sum(np.abs(np.take(t, 1, axis=qpos)) ** 2))
        by_bit[(cr, ci)] = (p1, qpos)
    for b in bits:
        key = (b.reg_name, b.index[0])
        if key in by_bit:
            p1, _ = by_bit[key]
            want_bits.append(None if 1e-9 < p1 < 1 - 1e-9 else int(p1 > 0.5))
        else:
            want_bits.append(0)
    return lines, ref, want_bits, vals

HEAD = """from guppylang import guppy
from guppylang.std.quantum import qubit, discard, h, x, rz
from guppylang.std.builtins import array, result
from guppylang.std.angles import angle
from guppylang.std.debug import state_result
"""

def run_cases(cs):
    body, refs = [], []
    circs = {}
    for k, (spec, use_arrays, inp) in enumerate(cs):
        lines, ref, want_bits, vals = guppy_source(k, spec, use_arrays, inp)
        body += [f"result('S', {k})"] + lines
        refs.append((ref, want_bits))
        circs[f"circ{k}"] = (build(spec), use_arrays)
    src = HEAD + "@guppy\ndef main() -> None:\n" + "\n".join("    " + l for l in body) + "\n"
    d = tempfile.mkdtemp(dir=os.environ.get("TMPDIR", "/var/tmp")); fn = os.path.join(d, "c26_progs.py")
    open(fn, "w").write(src)
    spec_ = importlib.util.spec_from_file_location("c26_progs", fn); m = importlib.util.module_from_spec(spec_); sys.modules["c26_progs"] = m
    from guppylang import guppy
    for nm, (c, ua) in circs.items():
        setattr(m, nm, guppy.load_pytket(nm, c, use_arrays=ua))
    try:
        spec_.loader.exec_module(m)
        nq = max(build(s).n_qubits for s, _, _ in cs)
        r = m.main.emulator(n_qubits=nq + 1).statevector_sim().with_seed(7).run()
        states = {k_: np.asarray(v.as_single_state(), dtype=complex) for k_, v in r.partial_state_dicts()[0].items()}
        bits, cur = {}, None
        for t_, v in r.results[0].entries:
            if t_ == "S": cur = int(v); bits[cur] = []
            elif t_ == "B": bits[cur].append(int(v))
    finally:
        shutil.rmtree(d, ignore_errors=True); sys.modules.pop("c26_progs", None)
    return states, bits, refs, src

def judge(cs, states, bits, refs):
    bad = []
    for k, ((spec, use_arrays, inp), (ref, want_bits)) in enumerate(zip(cs, refs)):
        got = states.get(f"c{k}")
        what = f"{spec[0]} (use_arrays={use_arrays}, input {inp[0]}{'' if inp[1] is None else ' ' + ''.join(map(str, inp[1]))})"
        if got is None:
            bad.append((k, what + ": no state reported")); continue
        if any(b is None for b in want_bits):
            bad.append((k, what + ": ORACLE ERROR, a measured qubit is not determined")); continue
        if bits.get(k, []) != want_bits:
            bad.append((k, what + f": returned bits {bits.get(k)} but pytket's bits (in pytket's bit order) are {want_bits}")); continue
        fid = abs(np.vdot(ref, got)) ** 2
        if abs(fid - 1) > 1e-9:
            bad.append((k, what + f": fidelity with pytket's unitary applied to the qubits in lexicographic register order is {fid:.9f}"))
    return bad

def stub_cases():
    """declared stubs: (description, circuit spec index, stub source, must be accepted)"""
    return [
        ("matching stub, two qubits", "bell_like", "def s(a: qubit, b: qubit) -> None: ...", True),
        ("one qubit too few", "bell_like", "def s(a: qubit) -> None: ...", False),
        ("one qubit too many", "bell_like", "def s(a: qubit, b: qubit, c: qubit) -> None: ...", False),
        ("matching stub with a measurement result", "measure_one", "def s(a: qubit, b: qubit) -> bool: ...", True),
        ("missing measurement result", "measure_one", "def s(a: qubit, b: qubit) -> None: ...", False),
        ("matching stub with parameters", "params", "def s(a: qubit, b: qubit, x: angle, y: angle, z: angle) -> None: ...", True),
        ("two results for a two-bit register", "measure_params", "def s(a: qubit, b: qubit, c: qubit, x: angle, y: angle) -> tuple[bool, bool]: ...", True),
        ("one result for a two-bit register", "measure_params", "def s(a: qubit, b: qubit, c: qubit, x: angle, y: angle) -> bool: ...", False),
        ("a parameter too few", "params", "def s(a: qubit, b: qubit, x: angle, y: angle) -> None: ...", False),
        ("owned instead of borrowed qubit", "bell_like", "def s(a: qubit @owned, b: qubit) -> None: ...", False),
    ]

def run_stubs():
    bad, n = [], 0
    for what, idx, stub, want in stub_cases():
        src = "from guppylang import guppy\nfrom guppylang.std.quantum import qubit\nfrom guppylang.std.builtins import owned\nfrom guppylang.std.angles import angle\n@guppy.pytket(CIRC)\n" + stub + "\n"
        d = tempfile.mkdtemp(dir=os.environ.get("TMPDIR", "/var/tmp")); fn = os.path.join(d, "c26_stub.py")
        src = "import builtins\nCIRC = builtins._c26_circ\n" + src
        open(fn, "w").write(src)
        import builtins
        builtins._c26_circ = build(next(sp for sp in FAMILY if sp[0] == idx))
        sp_ = importlib.util.spec_from_file_location("c26_stub", fn); m = importlib.util.module_from_spec(sp_); sys.modules["c26_stub"] = m
        try:
            sp_.loader.exec_module(m)
            try:
                m.s.check(); got = True
            except GuppyError as ex:
                got = False
            n += 1
            if got != want:
                bad.append(f"stub `{stub}` for circuit {idx} ({what}): {'accepted' if got else 'rejected'}, must be {'accepted' if want else 'rejected'}")
        finally:
            shutil.rmtree(d, ignore_errors=True); sys.modules.pop("c26_stub", None)
    return bad, n
'''

DRIVER = r'''
I_ = INPUT
cs = cases(I_.get("tier", "quick"))[I_["chunk"]::I_["nchunks"]]
if I_.get("only") is not None:
    cs = [c for c in cases("quick") if c[0][0] == I_["only"]]
bad = None; n = 0
big = [c for c in cs if build(c[0]).n_qubits > 6]
small = [c for c in cs if build(c[0]).n_qubits <= 6]
groups = [small[o:o + 12] for o in range(0, len(small), 12)] + [[c] for c in big]
def run_group(batch):
    global bad, n
    try:
        states, bits, refs, src = run_cases(batch)
    except GuppyError as ex:
        if len(batch) == 1:
            n += 1
            if bad is None:
                spec, ua, inp = batch[0]
                bad = {"circuit": spec[0], "use_arrays": ua, "more": 0,
                       "detail": f"{spec[0]} (use_arrays={ua}): a program that calls the loaded circuit with one qubit per circuit qubit (registers in lexicographic order), one angle per symbol and one result per bit was rejected: {type(ex.error).__name__}"}
            return
        h_ = len(batch) // 2; run_group(batch[:h_]); run_group(batch[h_:]); return
    n += len(batch)
    b = judge(batch, states, bits, refs)
    if b and bad is None:
        k, why = b[0]
        bad = {"circuit": batch[k][0][0], "use_arrays": batch[k][1], "detail": why, "more": len(b)}
for batch in groups:
    run_group(batch)
    if bad: break
stub_bad, n_stub = ([], 0)
if I_["chunk"] == 0 and bad is None:
    stub_bad, n_stub = run_stubs()
    if stub_bad:
        bad = {"circuit": "stub", "use_arrays": None, "detail": stub_bad[0], "more": len(stub_bad)}
print(json.dumps({"violates": bad is not None, "evaluations": n + n_stub, "witness": bad, "detail": bad and bad["detail"]}))
'''
