"""C28 — Emulator configurations are immutable and reproducible.

Functions under contract (guppylang/emulator/instance.py, builder.py): every with_* / *_sim /
_with_option of EmulatorInstance, _run_instance (argument plumbing), every with_* of
EmulatorBuilder.  The configuration is a concrete object graph (EmulatorInstance -> _Options ->
simulator/runtime/error-model/event-hook objects) with symbolic leaf values; aliasing is real
(objects have identity), so a write through a shared simulator is visible.

Contract of each derivation M(value): the result is a NEW instance whose options equal
old(self)'s except the named field; and **modifies nothing**: every field of every object reachable
from self before the call is unchanged afterwards.  *_sim additionally return a simulator object
that did not exist before and is not shared with a second call.
"""
import z3

from pyvc import SObj, ClassVal, Builtin, SInt, SBool, Sym, PyRaise, Unsupported
from .common import mk_engine

TITLE = "derivations return fresh configurations, change only the named option and modify no reachable object; run() passes every option to selene"
MOD = "guppylang.emulator.instance"
BMOD = "guppylang.emulator.builder"
OPTS = ["_simulator", "_runtime", "_error_model", "_shots", "_shot_increment", "_shot_offset", "_seed", "_verbose", "_timeout",
        "_n_processes", "_event_hook", "_results_logfile", "_display_progress_bar"]
WITH = {"with_shots": "_shots", "with_simulator": "_simulator", "with_runtime": "_runtime", "with_error_model": "_error_model",
        "with_event_hook": "_event_hook", "with_verbose": "_verbose", "with_progress_bar": "_display_progress_bar",
        "with_timeout": "_timeout", "with_seed": "_seed", "with_shot_offset": "_shot_offset", "with_shot_increment": "_shot_increment",
        "with_n_processes": "_n_processes"}
SIMS = {"statevector_sim": "Quest", "coinflip_sim": "Coinflip", "stabilizer_sim": "Stim"}
RUN_KW = {"simulator": "_simulator", "runtime": "_runtime", "n_shots": "_shots", "event_hook": "_event_hook", "error_model": "_error_model",
          "verbose": "_verbose", "timeout": "_timeout", "results_logfile": "_results_logfile", "random_seed": "_seed",
          "shot_offset": "_shot_offset", "shot_increment": "_shot_increment", "n_processes": "_n_processes"}

REPLAY = r'''
# native replay with a stub SeleneInstance: derive, then look whether an EARLIER configuration changed
from guppylang.emulator.instance import EmulatorInstance
import copy
I = INPUT
class Stub:
    def run_shots(self, **kw): self.kw = kw; return iter(())
base = EmulatorInstance(_instance=Stub(), _n_qubits=2)
first = getattr(base, I["first"])(*I.get("first_args", []))
def snap(x):
    o = x._options
    return {k: (getattr(o, k) if k not in ("_simulator",) else (id(o._simulator), dict(vars(o._simulator)))) for k in o.__dataclass_fields__}
before = snap(first)
derived = getattr(first, I["method"])(*I.get("args", []))
if I.get("then"): getattr(derived, I["then"])(*I.get("then_args", []))
after = snap(first)
print(json.dumps({"violates": before != after, "before": str(before), "after": str(after)}))
'''


REPLAY_INDEP = r'''
from guppylang.emulator.instance import EmulatorInstance
class Stub:
    def run_shots(self, **kw): return iter(())
a = EmulatorInstance(_instance=Stub(), _n_qubits=2)
b = EmulatorInstance(_instance=Stub(), _n_qubits=2)
shared = a._options is b._options or a._options._simulator is b._options._simulator
a1 = a.with_seed(1); seen = getattr(a1._options._simulator, "random_seed", None)
b.with_seed(2)
after = getattr(a1._options._simulator, "random_seed", None)
print(json.dumps({"violates": bool(shared) or seen != after, "shared_objects": bool(shared), "seed_seen_by_first_before": seen, "after_seeding_the_other": after}))
'''


def snapshot(root):
    """{(oid, field) -> value} for every object reachable from root."""
    seen, out, todo = {}, {}, [root]
    while todo:
        o = todo.pop()
        if isinstance(o, SObj):
            if o.oid in seen:
                continue
            seen[o.oid] = o
            for k, v in o.fields.items():
                out[(o.oid, k)] = v
                todo.append(v)
        elif isinstance(o, (list, tuple)):
            todo.extend(o)
        elif isinstance(o, dict):
            todo.extend(o.values())
    return out, seen


def same(a, b):
    if a is b:
        return z3.BoolVal(True)
    if isinstance(a, Sym) and isinstance(b, Sym) and hasattr(a, "t") and hasattr(b, "t") and a.t is not None:
        try:
            return a.t == b.t
        except Exception:  # noqa
            return z3.BoolVal(False)
    if isinstance(a, (int, str, bool, float, type(None))) and not isinstance(a, Sym):
        if isinstance(b, Sym):
            from pyvc import to_z3
            try:
                return to_z3(a) == b.t
            except Exception:  # noqa
                return z3.BoolVal(False)
        return z3.BoolVal(a == b)
    if isinstance(a, dict) and isinstance(b, dict):
        return z3.And(z3.BoolVal(set(a) == set(b)), *[same(a[k], b[k]) for k in a if k in b])
    return z3.BoolVal(False)


REPLAY_BUILDER = r'''
from guppylang.emulator.builder import EmulatorBuilder
base = EmulatorBuilder().with_build_arg("build_method", "via-llvm-bitcode")
before = base.custom_args
a = base.with_build_arg("platform", "no-such-platform")
b = base.with_name("n").with_build_arg("extra", 1)
after = base.custom_args
print(json.dumps({"violates": before != after or a.custom_args != {"build_method": "via-llvm-bitcode", "platform": "no-such-platform"} or b.custom_args != {"build_method": "via-llvm-bitcode", "extra": 1},
                  "observed": {"base before": before, "base after deriving two siblings": after, "a": a.custom_args, "b": b.custom_args},
                  "required": "deriving builders with further build arguments leaves the ancestor's (and each sibling's) arguments alone"}))
'''


def builder_section(chk):
    """EmulatorBuilder (emulator/builder.py) is a configuration too: with_name / with_build_dir / with_verbose /
    with_build_arg return a NEW builder that differs in the named setting only, and leave everything reachable from
    the old builder — its dict of build arguments included — exactly as it was; the new builder's dict of build
    arguments is not the old one (so that a later derivation from either cannot reach the other)."""
    BM = "guppylang.emulator.builder"
    e = mk_engine(chk)
    for q in ("EmulatorBuilder.with_name", "EmulatorBuilder.with_build_dir", "EmulatorBuilder.with_verbose", "EmulatorBuilder.with_build_arg", "EmulatorBuilder.custom_args"):
        e.func_info(BM, q)
    m = e.module(BM)
    for meth, field in (("with_name", "_name"), ("with_build_dir", "_build_dir"), ("with_verbose", "_verbose"), ("with_build_arg", "_custom_args")):
        for prior in ("none", "one", "two", "same-key"):
            def t(it, meth=meth, prior=prior):
                EB = it.lookup_global(m, "EmulatorBuilder")
                old_args = {"none": None, "one": {"k0": "v0"}, "two": {"k0": "v0", "k1": "v1"}, "same-key": {"key": "old"}}[prior]
                me = SObj(EB, {"_name": "N", "_build_dir": SObj(ClassVal("Path", builtin=True), {}), "_verbose": SBool(z3.Bool("verbose0")), "_planner": None, "_utilities": None, "_interface": None,
                               "_progress_bar": False, "_strict": False, "_save_planner": False, "_custom_args": old_args})
                snap = dict(me.fields)
                args_snap = None if old_args is None else dict(old_args)
                r = it.call_method(me, meth, ["key", "VAL"] if meth == "with_build_arg" else ["NEW"])
                return r, me, snap, old_args, args_snap
            paths = e.explore(t)

            def post(p, meth=meth, field=field, prior=prior):
                if p.kind != "return" or not isinstance(p.value[0], SObj):
                    return z3.BoolVal(False)
                r, me, snap, old_args, args_snap = p.value
                ok = r is not me and r.cls is me.cls
                ok = ok and set(me.fields) == set(snap) and all(me.fields[k] is snap[k] for k in snap)           # the old builder's fields
                ok = ok and (old_args is None or old_args == args_snap)                                           # the old dict's contents
                for k in snap:
                    if k != field:
                        ok = ok and r.fields.get(k) is snap[k]
                if meth == "with_build_arg":
                    want = dict(args_snap or {}); want["key"] = "VAL"
                    ok = ok and r.fields["_custom_args"] == want and r.fields["_custom_args"] is not old_args
                else:
                    ok = ok and r.fields[field] == "NEW"
                return z3.BoolVal(bool(ok))
            chk.prove_paths(f"EmulatorBuilder.{meth}[build-args-before={prior}]:fresh-builder/\\only-{field}-differs/\\nothing-reachable-from-the-old-builder-is-written/\\no-shared-argument-dict", paths, post,
                            func=f"{BM}:EmulatorBuilder.{meth}", replay=lambda m_: {"script": REPLAY_BUILDER, "input": {}})
    chk.use_engine(e)


def run(chk):
    chk.section("builder", lambda: builder_section(chk))
    e = mk_engine(chk)
    for q in ["EmulatorInstance._with_option", "EmulatorInstance.with_n_qubits", "EmulatorInstance._run_instance", "_Options"] + \
             [f"EmulatorInstance.{m}" for m in list(WITH) + list(SIMS)]:
        e.func_info(MOD, q)
    simcls = {n: ClassVal(n, builtin=True) for n in ("Quest", "Coinflip", "Stim", "SimpleRuntime", "IdealErrorModel", "NoEventHook")}
    for n, c in simcls.items():
        c.is_record = True
    for n in ("Quest", "Coinflip", "Stim"):
        e.ext_models[f"selene_sim.backends.bundled_simulators.{n}"] = simcls[n]
    e.ext_models["selene_sim.backends.bundled_runtimes.SimpleRuntime"] = simcls["SimpleRuntime"]
    e.ext_models["selene_sim.backends.bundled_error_models.IdealErrorModel"] = simcls["IdealErrorModel"]
    e.ext_models["selene_sim.event_hooks.NoEventHook"] = simcls["NoEventHook"]
    e.ext_models["selene_sim.event_hooks.EventHook"] = ClassVal("EventHook", builtin=True)

    def mk(it):
        m = e.module(MOD)
        EI, OP = it.lookup_global(m, "EmulatorInstance"), it.lookup_global(m, "_Options")
        sim = SObj(ClassVal("Simulator", builtin=True), {"random_seed": SInt(z3.Int("sim_seed"))})
        vals = {"_simulator": sim, "_runtime": SObj(ClassVal("Runtime", builtin=True), {}), "_error_model": SObj(ClassVal("ErrorModel", builtin=True), {"random_seed": SInt(z3.Int("em_seed"))}),
                "_shots": SInt(z3.Int("o_shots")), "_shot_increment": SInt(z3.Int("o_inc")), "_shot_offset": SInt(z3.Int("o_off")),
                "_seed": SInt(z3.Int("o_seed")), "_verbose": SBool(z3.Bool("o_verbose")), "_timeout": SObj(ClassVal("timedelta", builtin=True), {}),
                "_n_processes": SInt(z3.Int("o_np")), "_event_hook": SObj(ClassVal("EventHook", builtin=True), {}),
                "_results_logfile": SObj(ClassVal("Path", builtin=True), {}), "_display_progress_bar": SBool(z3.Bool("o_bar"))}
        opts = SObj(OP, dict(vals))
        inst = SObj(ClassVal("SeleneInstance", builtin=True), {})
        me = SObj(EI, {"_instance": inst, "_n_qubits": SInt(z3.Int("nq")), "_options": opts})
        return me, opts, inst

    def check_derivation(name, field, argmaker, extra=None):
        def t(it):
            me, opts, inst = mk(it)
            snap0, objs0 = snapshot(me)
            arg = argmaker(it)
            arg_snap = dict(arg.fields) if isinstance(arg, SObj) else None
            r = it.call_method(me, name, [arg] if arg is not NOARG else [])
            it.ctx.ghost.update(me=me, opts=opts, inst=inst, snap0=snap0, objs0=objs0, arg=arg, arg_snap=arg_snap)
            return r
        paths = e.explore(t)

        def post_result(p):
            if p.kind != "return" or not isinstance(p.value, SObj) or p.value.cls.name != "EmulatorInstance":
                return z3.BoolVal(False)
            g = p.ctx.ghost
            r, me, opts = p.value, g["me"], g["opts"]
            conj = [z3.BoolVal(r is not me), z3.BoolVal(r.fields["_instance"] is g["inst"])]
            ro = r.fields["_options"]
            if field == "_n_qubits":
                conj += [same(r.fields["_n_qubits"], g["arg"]), z3.BoolVal(isinstance(ro, SObj))]
                conj += [same(ro.fields[k], g["snap0"][(opts.oid, k)]) for k in OPTS]
            else:
                conj += [same(r.fields["_n_qubits"], g["snap0"][(me.oid, "_n_qubits")]), z3.BoolVal(isinstance(ro, SObj) and ro is not opts)]
                for k in OPTS:
                    if k == field:
                        if g["arg"] is not NOARG:
                            conj.append(same(ro.fields[k], g["arg"]))
                    else:
                        conj.append(same(ro.fields[k], g["snap0"][(opts.oid, k)]))
            if extra is not None:
                conj.append(extra(p))
            return z3.And(*conj)

        def frame(exclude=None, only=None):
            def f(p):
                if p.kind != "return":
                    return z3.BoolVal(False)
                g = p.ctx.ghost
                conj = []
                for (oid, k), v0 in g["snap0"].items():
                    o = g["objs0"][oid]
                    hit = (o.cls.name, k) == ("Simulator", "random_seed")
                    if (exclude and hit) or (only and not hit):
                        continue
                    conj.append(same(o.fields.get(k), v0) if k in o.fields else z3.BoolVal(False))
                if not only:
                    # no attribute is ADDED to an object reachable from self either
                    for oid, o in g["objs0"].items():
                        conj.append(z3.BoolVal({k for k in o.fields} == {k for (oid2, k) in g["snap0"] if oid2 == oid}))
                return z3.And(*conj) if conj else z3.BoolVal(True)
            return f
        fq = f"{MOD}:EmulatorInstance.{name}"

        def rp(m):
            args = {"with_verbose": [True], "with_progress_bar": [True], "with_timeout": [None], "with_simulator": None}.get(name, [7])
            if name in SIMS or args is None:
                return {"script": REPLAY, "input": {"first": "coinflip_sim", "method": name if name in SIMS else "coinflip_sim", "then": "with_seed", "then_args": [99]}}
            return {"script": REPLAY, "input": {"first": "with_shots", "first_args": [3], "method": name, "args": args}}
        chk.prove_paths(f"{name}:fresh-result/\\only-{field}-changes", paths, post_result, func=fq, replay=rp)
        if name == "with_seed":
            chk.prove_paths(f"{name}:modifies-nothing[except-simulator.random_seed]", paths, frame(exclude=True), func=fq, replay=rp)
            chk.prove_paths(f"{name}:modifies-nothing[simulator.random_seed]", paths, frame(only=True), func=fq, replay=rp)
        else:
            chk.prove_paths(f"{name}:modifies-nothing(reachable-from-self)", paths, frame(), func=fq, replay=rp)

        # the object handed in (a simulator, runtime, error model, hook a user may also hand to another
        # configuration) is stored, not written to
        def arg_frame(p):
            if p.kind != "return":
                return z3.BoolVal(False)
            g = p.ctx.ghost
            if g.get("arg_snap") is None:
                return z3.BoolVal(True)
            a = g["arg"]
            return z3.And(z3.BoolVal(set(a.fields) == set(g["arg_snap"])), *[same(a.fields[k], v) for k, v in g["arg_snap"].items() if k in a.fields])
        if paths and any(p.ctx.ghost.get("arg_snap") is not None for p in paths):
            chk.prove_paths(f"{name}:the-object-passed-in-is-not-written-to", paths, arg_frame, func=fq, replay=lambda m_: {"script": REPLAY_ARG, "input": {}})

    NOARG = object()
    check_derivation("with_n_qubits", "_n_qubits", lambda it: SInt(z3.Int("arg")))
    for name, field in WITH.items():
        if field in ("_simulator", "_runtime", "_error_model", "_event_hook", "_timeout"):
            am = lambda it: SObj(ClassVal("ArgObj", builtin=True), {"random_seed": SInt(z3.Int("arg_seed"))})  # noqa
        elif field in ("_verbose", "_display_progress_bar"):
            am = lambda it: SBool(z3.Bool("arg"))  # noqa
        else:
            am = lambda it: SInt(z3.Int("arg"))  # noqa
        check_derivation(name, field, am)
    for name, cls in SIMS.items():
        def fresh_sim(p, cls=cls):
            g = p.ctx.ghost
            s = p.value.fields["_options"].fields["_simulator"]
            return z3.BoolVal(isinstance(s, SObj) and s.cls.name == cls and s.oid not in g["objs0"])
        check_derivation(name, "_simulator", lambda it: NOARG, extra=fresh_sim)

        def t2(it, name=name):
            me, opts, inst = mk(it)
            a = it.call_method(me, name, [])
            b = it.call_method(me, name, [])
            return a.fields["_options"].fields["_simulator"], b.fields["_options"].fields["_simulator"]
        chk.prove_paths(f"{name}:two-derivations-do-not-share-a-simulator-object", e.explore(t2),
                        lambda p: z3.BoolVal(p.kind == "return" and p.value[0] is not p.value[1]), func=f"{MOD}:EmulatorInstance.{name}",
                        replay=lambda m, name=name: {"script": REPLAY, "input": {"first": name, "method": name, "then": "with_seed", "then_args": [99]}})

    # ---- two configurations built independently (EmulatorInstance(_instance=.., _n_qubits=..) as
    # EmulatorBuilder.build constructs them, defaults filled in) share no object but immutable
    # scalars: otherwise seeding one re-seeds the other (with_seed writes to its simulator)
    def t_indep(it):
        m = e.module(MOD)
        EI = it.lookup_global(m, "EmulatorInstance")
        a = it.call(EI, [], {"_instance": SObj(ClassVal("SeleneInstance", builtin=True), {}), "_n_qubits": 2})
        b = it.call(EI, [], {"_instance": SObj(ClassVal("SeleneInstance", builtin=True), {}), "_n_qubits": 2})
        return a, b

    def post_indep(p):
        if p.kind != "return":
            return z3.BoolVal(False)
        a, b = p.value
        _, oa = snapshot(a)
        _, ob = snapshot(b)
        shared = set(oa) & set(ob)
        oa_, ob_ = a.fields["_options"], b.fields["_options"]
        return z3.BoolVal(not shared and oa_ is not ob_ and oa_.fields["_simulator"] is not ob_.fields["_simulator"])
    chk.prove_paths("EmulatorInstance():two-independently-built-configurations-share-no-mutable-object(options,simulator,runtime,error-model,hook)", e.explore(t_indep), post_indep,
                    func=f"{MOD}:EmulatorInstance", replay=lambda m_: {"script": REPLAY_INDEP, "input": {}})

    # ---- _run_instance: every option reaches the keyword of the same meaning; self unchanged
    def t_run(it):
        me, opts, inst = mk(it)
        snap0, objs0 = snapshot(me)
        got = {}
        inst.fields["run_shots"] = Builtin("run_shots", lambda **kw: got.update(kw) or "STREAM")
        snap0, objs0 = snapshot(me)
        r = it.call_method(me, "_run_instance", [])
        it.ctx.ghost.update(me=me, opts=opts, snap0=snap0, objs0=objs0, got=got)
        return r
    paths = e.explore(t_run)

    def post_run(p):
        if p.kind != "return" or p.value != "STREAM":
            return z3.BoolVal(False)
        g = p.ctx.ghost
        got, opts, me = g["got"], g["opts"], g["me"]
        conj = [z3.BoolVal(set(got) == set(RUN_KW) | {"n_qubits"}), same(got.get("n_qubits"), g["snap0"][(me.oid, "_n_qubits")])]
        conj += [same(got.get(kw), g["snap0"][(opts.oid, f)]) for kw, f in RUN_KW.items()]
        conj += [same(g["objs0"][oid].fields.get(k), v0) for (oid, k), v0 in g["snap0"].items()]
        return z3.And(*conj)
    chk.prove_paths("_run_instance:each-option->keyword-of-the-same-meaning/\\modifies-nothing", paths, post_run, func=f"{MOD}:EmulatorInstance._run_instance")

    # ---- EmulatorBuilder derivations
    bm = e.module(BMOD)
    for name, field in (("with_name", "_name"), ("with_build_dir", "_build_dir"), ("with_verbose", "_verbose")):
        e.func_info(BMOD, f"EmulatorBuilder.{name}")

        def t_b(it, name=name):
            EB = it.lookup_global(bm, "EmulatorBuilder")
            b = it.call(EB, [], {})
            snap0, objs0 = snapshot(b)
            arg = SObj(ClassVal("Arg", builtin=True), {})
            r = it.call_method(b, name, [arg])
            it.ctx.ghost.update(b=b, snap0=snap0, objs0=objs0, arg=arg)
            return r

        def post_b(p, field=field):
            if p.kind != "return" or not isinstance(p.value, SObj):
                return z3.BoolVal(False)
            g = p.ctx.ghost
            r, b = p.value, g["b"]
            conj = [z3.BoolVal(r is not b and r.fields.get(field) is g["arg"])]
            conj += [same(r.fields.get(k), v) for (oid, k), v in g["snap0"].items() if oid == b.oid and k != field]
            conj += [same(g["objs0"][oid].fields.get(k), v0) for (oid, k), v0 in g["snap0"].items()]
            return z3.And(*conj)
        chk.prove_paths(f"EmulatorBuilder.{name}:fresh-result/\\only-{field}-changes/\\modifies-nothing", e.explore(t_b), post_b, func=f"{BMOD}:EmulatorBuilder.{name}")

    chk.must_fail("twin:seed-option-is-not-constant", [], z3.Int("o_seed") == z3.Int("arg"))
    chk.expected_min_obligations = 40
    chk.assumptions += ["ASSUMED: selene's SeleneInstance.run_shots is a function of its keyword arguments and of the fields of the simulator/runtime/error-model objects (reproducibility of a fixed-seed configuration then follows from the frame conditions)",
                        "bundled simulator/runtime/error-model constructors are modelled as record constructors returning a fresh object per call",
                        "dataclasses.replace = shallow copy through the class constructor (as CPython)"]
    chk.not_covered += ["EmulatorBuilder.with_build_arg / build (selene build pipeline)", "EmulatorResult post-processing"]
    chk.use_engine(e)


REPLAY_ARG = r'''
import guppy_plainbool
from guppylang import guppy
from guppylang.std.quantum import qubit, h, project_z, discard
from selene_sim import Quest
import tempfile, importlib.util, os, sys, shutil
src = """from guppylang import guppy
from guppylang.std.builtins import result
from guppylang.std.quantum import qubit, h, project_z, discard
@guppy
def main() -> None:
    q = qubit()
    h(q)
    result("b", project_z(q))
    discard(q)
"""
d = tempfile.mkdtemp(dir=os.environ.get("TMPDIR", "/var/tmp")); fn = os.path.join(d, "replay_c28a.py"); open(fn, "w").write(src)
spec = importlib.util.spec_from_file_location("replay_c28a", fn); m = importlib.util.module_from_spec(spec); sys.modules["replay_c28a"] = m
try:
    spec.loader.exec_module(m)
    base = m.main.emulator(n_qubits=1).with_shots(12)
    sim = Quest()
    before = getattr(sim, "random_seed", None)
    a = base.with_seed(1).with_simulator(sim)
    after = getattr(sim, "random_seed", None)
    out = {"violates": before != after, "random_seed_of_the_user's_simulator_before": before, "after_with_simulator": after}
except Exception as ex:
    out = {"violates": False, "error": repr(ex)[:300]}
shutil.rmtree(d, ignore_errors=True)
print(json.dumps(out))
'''
