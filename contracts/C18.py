"""C18 — range() yields Python's sequence.

Guppy mode over guppylang/std/iter.py: Range.__next__, Range.__iter__, _range1/_range2/_range3,
_range_comptime and the @guppy.overload order.  `int` is a 64-bit vector; the operators in the
bodies dispatch through the binding table of std/num.py (extracted from the source, C04) with
the assumed HUGR op semantics (iadd wraps, ige_s/ile_s signed).

Ghost argument: the iterator created for range(start, stop, step) is, after k yields, in state
Range(start + k*step, stop, step) as long as that sum has not wrapped.  One step of __next__:
  O1  yields `next` iff Python's range still has an element (next < stop for step>0, > for <0)
  O2  if Python has a FOLLOWING element, the successor state's next is next+step without wrap
  O3  if Python has NO following element, the successor state is exhausted
so by induction on k the yielded sequence is Python's.  O3 is split along the known wrap-around
defect (next+step leaves the int64 range).
"""
import ast
import z3

from pyvc import SObj, ClassVal, Builtin, PyRaise, Unsupported
from .common import mk_engine
from . import bindings as B
from . import guppysem as G
from .C04 import extract_tables, install_class_models

TITLE = "Range.__next__ against Python's range() for all int64 start/stop/step; constructors and overload order"
MOD = "guppylang.std.iter"
IMIN, IMAX = -(1 << 63), (1 << 63) - 1

REPLAY = r'''
# Model-level replay: the real source text of Range.__next__ is executed under CPython with an
# int64 wrapper implementing the assumed op semantics (the emulator cannot run loops here).
import ast, inspect, textwrap
src = open(os.path.join(os.environ["VERIF_REPO"], "guppylang/src/guppylang/std/iter.py")).read()
tree = ast.parse(src)
cls = [n for n in tree.body if isinstance(n, ast.ClassDef) and n.name == "Range"][0]
fn = [n for n in cls.body if isinstance(n, ast.FunctionDef) and n.name == "__next__"][0]
fn.decorator_list = []; fn.returns = None
for a in fn.args.args: a.annotation = None
class I64(int):
    def __new__(c, v): return int.__new__(c, ((int(v) + 2**63) % 2**64) - 2**63)
    def __add__(s, o): return I64(int(s) + int(o))
    def __sub__(s, o): return I64(int(s) - int(o))
class Range:
    def __init__(s, n, st, sp): s.next, s.stop, s.step = I64(n), I64(st), I64(sp)
env = {"Range": Range, "nothing": lambda: None, "some": lambda x: x}
exec(compile(ast.Module([fn], []), "iter.py", "exec"), env)
I = INPUT
r = Range(I["start"], I["stop"], I["step"])
got = []
while len(got) < I["limit"]:
    o = env["__next__"](r)
    if o is None: break
    v, r = o
    got.append(int(v))
want = list(range(I["start"], I["stop"], I["step"]))[: I["limit"]]
print(json.dumps({"violates": got != want, "observed": got[:6], "required": want[:6], "input": I, "level": "model-level replay of the real source text"}))
'''


def sval(m, t):
    v = m.eval(t, model_completion=True).as_long()
    return v - (1 << 64) if v >= (1 << 63) else v


def run(chk):
    e = mk_engine(chk)
    B.install_models(e)
    worldref = [None]
    install_class_models(e, worldref)
    tables = extract_tables(e, chk)
    if tables is None:
        return
    for q in ("Range.__next__", "Range.__iter__", "_range1", "_range2", "_range3", "_range_comptime", "range"):
        e.func_info(MOD, q)
    OPT = ClassVal("Option", builtin=True)
    e.models["guppylang.std.option:nothing"] = lambda it, a, k: SObj(OPT, {"tag": "nothing"})
    e.models["guppylang.std.option:some"] = lambda it, a, k: SObj(OPT, {"tag": "some", "value": a[0]})
    e.ext_models["guppylang.guppy"] = SObj(ClassVal("guppy", builtin=True), {
        "type_var": Builtin("type_var", lambda *a, **k: None), "nat_var": Builtin("nat_var", lambda *a, **k: None)})
    chk.assumptions += ["Guppy mode: int is a 64-bit vector; operators dispatch through the extracted std/num.py bindings with ASSUMED hugr op semantics (see C04)",
                        "@guppy.struct classes are constructed field by field; Option is the two-constructor record nothing()/some(x)",
                        "ghost induction over the number of yields k is done on paper from O1-O3 (one-step obligations); it is not mechanised"]
    n, stop, step = z3.BitVecs("next stop step", 64)

    def mk_range(it):
        m = e.module(MOD)
        R = it.lookup_global(m, "Range")
        return R, SObj(R, {"next": G.GInt(n, "int"), "stop": G.GInt(stop, "int"), "step": G.GInt(step, "int")})

    def t_next(it):
        w = G.GuppyWorld(e, it, tables)
        worldref[0] = w
        R, r = mk_range(it)
        return it.call_method(r, "__next__", [])
    paths = e.explore(t_next)
    n66, stop66, step66 = z3.SignExt(2, n), z3.SignExt(2, stop), z3.SignExt(2, step)
    py_has = z3.If(step > 0, n < stop, n > stop)                     # Python: range has an element at this position
    nxt = n66 + step66                                               # mathematical next + step
    py_has_following = z3.And(py_has, z3.If(step > 0, nxt < stop66, nxt > stop66))
    in64 = z3.And(nxt >= z3.BitVecVal(IMIN, 66), nxt <= z3.BitVecVal(IMAX, 66))

    def fields(o):
        return [o.fields[k].t for k in ("next", "stop", "step")]

    def post_o1(p):
        if p.kind != "return" or not isinstance(p.value, SObj) or p.value.cls.name != "Option":
            return z3.BoolVal(False)
        if p.value.fields["tag"] == "nothing":
            return z3.Not(py_has)
        v, succ_ = p.value.fields["value"]
        return z3.And(py_has, v.t == n, fields(succ_)[1] == stop, fields(succ_)[2] == step)

    def post_o2(p):
        if p.kind != "return" or p.value.fields["tag"] == "nothing":
            return z3.BoolVal(True)
        _, succ_ = p.value.fields["value"]
        return z3.Implies(py_has_following, z3.SignExt(2, fields(succ_)[0]) == nxt)

    def exhausted(succ_):
        sn = fields(succ_)[0]
        return z3.Not(z3.If(step > 0, sn < stop, sn > stop))

    def post_o3(region):
        def f(p):
            if p.kind != "return" or p.value.fields["tag"] == "nothing":
                return z3.BoolVal(True)
            _, succ_ = p.value.fields["value"]
            return z3.Implies(z3.And(py_has, z3.Not(py_has_following), region), exhausted(succ_))
        return f

    def rp(m):
        s0, st, sp = sval(m, n), sval(m, stop), sval(m, step)
        return {"script": REPLAY, "input": {"start": s0, "stop": st, "step": sp, "limit": 4}}
    pre = [step != 0]
    chk.prove_paths("Range.__next__:O1:yields-next<=>python-range-has-an-element;stop/step-unchanged", paths, post_o1, func=f"{MOD}:Range.__next__", replay=rp, pre=pre)
    chk.prove_paths("Range.__next__:O2:successor.next==next+step-when-python-has-a-following-element", paths, post_o2, func=f"{MOD}:Range.__next__", replay=rp, pre=pre)
    chk.prove_paths("Range.__next__:O3[next+step-in-int64]:successor-exhausted-when-python-has-no-following-element", paths, post_o3(in64),
                    func=f"{MOD}:Range.__next__", replay=rp, pre=pre)
    chk.prove_paths("Range.__next__:O3[next+step-overflows-int64]:successor-exhausted-when-python-has-no-following-element", paths, post_o3(z3.Not(in64)),
                    func=f"{MOD}:Range.__next__", replay=rp, pre=pre)
    chk.record("Range.__next__:both-outcomes-reachable", {p.value.fields.get("tag") for p in paths if p.kind == "return"} == {"nothing", "some"},
               str([p.kind for p in paths]), kind="reachability")

    # ---- __iter__ returns self
    def t_iter(it):
        worldref[0] = G.GuppyWorld(e, it, tables)
        R, r = mk_range(it)
        return it.call_method(r, "__iter__", []), r
    paths = e.explore(t_iter)
    chk.prove_paths("Range.__iter__:returns-self", paths, lambda p: z3.BoolVal(p.kind == "return" and p.value[0] is p.value[1]), func=f"{MOD}:Range.__iter__")

    # ---- constructors: Python's defaults start=0, step=1
    a, b, c = z3.BitVecs("a b c", 64)
    for fn, args, want in (("_range1", [b], (G.bv(0), b, G.bv(1))), ("_range2", [a, b], (a, b, G.bv(1))), ("_range3", [a, b, c], (a, b, c))):
        def t(it, fn=fn, args=args):
            worldref[0] = G.GuppyWorld(e, it, tables)
            f = it.lookup_global(e.module(MOD), fn)
            return it.call(f, [G.GInt(x, "int") for x in args], {})
        paths = e.explore(t)

        def post(p, want=want):
            if p.kind != "return" or not isinstance(p.value, SObj) or p.value.cls.name != "Range":
                return z3.BoolVal(False)
            got = []
            for k in ("next", "stop", "step"):
                v = p.value.fields[k]
                got.append(v.t if isinstance(v, G.GVal) else G.bv(v))
            return z3.And(*[g == w for g, w in zip(got, want)])
        chk.prove_paths(f"{fn}:==Range(start|0,stop,step|1)", paths, post, func=f"{MOD}:{fn}")

    # ---- comptime form: the size annotation is exactly the comptime argument, iterator is Range(0, stop, 1)
    m = e.module(MOD)
    node = m.find("_range_comptime")
    ann = node.returns.value if isinstance(node.returns, ast.Constant) else ast.unparse(node.returns)
    arg0 = node.args.args[0]
    chk.record("_range_comptime:size-annotation-is-the-comptime-argument",
               ann.replace(" ", "") == f"SizedIter[Range,{arg0.arg}]" and "comptime" in ast.unparse(arg0.annotation) and "nat" in ast.unparse(arg0.annotation),
               f"returns {ann!r}, parameter {arg0.arg}: {ast.unparse(arg0.annotation)}", func=f"{MOD}:_range_comptime")
    e.models[f"{MOD}:SizedIter"] = lambda it, a_, k: SObj(ClassVal("SizedIter", builtin=True), {"inner": a_[0]})

    def t_ct(it):
        worldref[0] = G.GuppyWorld(e, it, tables)
        f = it.lookup_global(e.module(MOD), "_range_comptime")
        return it.call(f, [G.GInt(b, "nat")], {})
    paths = e.explore(t_ct)

    def post_ct(p):
        if p.kind != "return" or not isinstance(p.value, SObj) or p.value.cls.name != "SizedIter":
            return z3.BoolVal(False)
        r = p.value.fields["inner"]
        f = [(v.t if isinstance(v, G.GVal) else G.bv(v)) for v in (r.fields["next"], r.fields["stop"], r.fields["step"])]
        return z3.And(f[0] == 0, f[1] == b, f[2] == 1)
    chk.prove_paths("_range_comptime:==SizedIter(Range(0,stop,1))", paths, post_ct, func=f"{MOD}:_range_comptime")
    # len(range(0, stop, 1)) == stop for 0 <= stop < 2^63: the k-th element exists iff k < stop (instance of O1)
    k = z3.BitVec("k", 64)
    chk.prove("_range_comptime:Range(0,stop,1)-has-exactly-stop-elements(stop<2^63)", [b >= 0, k >= 0],
              z3.If(G.bv(1) > 0, k < b, k > b) == z3.ULT(k, b), func=f"{MOD}:_range_comptime")

    # ---- overload order
    rng = m.find("range")
    order = None
    for d in rng.decorator_list:
        if isinstance(d, ast.Call) and ast.unparse(d.func) == "guppy.overload":
            order = [ast.unparse(x) for x in d.args]
    chk.record("range:overload-order==[_range_comptime,_range1,_range2,_range3]", order == ["_range_comptime", "_range1", "_range2", "_range3"],
               f"source has {order}", func=f"{MOD}:range")
    chk.must_fail("twin:range-is-not-always-empty", pre, z3.Not(py_has))
    chk.expected_min_obligations = 20
    chk.not_covered += ["comptime sizes >= 2^63 (Range fields are int)", "that `for` loops call __next__ until nothing (C03)"]
    chk.use_engine(e)
    chk.section("range-arguments", lambda: range_arguments(chk))


REPLAY_RANGE_ARGS = r'''
import guppy_plainbool
import tempfile, importlib.util, os, sys, shutil
CALLS = ["range(+4)", "range(-3, +3)", "range(-2, +3, +2)", "range(+6, -1, -2)", "range(0, -7, -(+3))", "range(3)", "range(1, 4)"]
src = "from guppylang import guppy\nfrom guppylang.std.builtins import result\n@guppy\ndef main() -> None:\n" + "".join(
    f"    result('S', {k})\n    for i in {c}:\n        result('v', i)\n" for k, c in enumerate(CALLS))
d = tempfile.mkdtemp(dir=os.environ.get("TMPDIR", "/var/tmp")); fn = os.path.join(d, "replay_c18a.py"); open(fn, "w").write(src)
spec = importlib.util.spec_from_file_location("replay_c18a", fn); m = importlib.util.module_from_spec(spec); sys.modules["replay_c18a"] = m
spec.loader.exec_module(m)
got = {}; cur = None
for t, v in list(m.main.emulator(n_qubits=1).run().results)[0].entries:
    if t == "S": cur = CALLS[int(v)]; got[cur] = []
    else: got[cur].append(int(v))
shutil.rmtree(d, ignore_errors=True)
bad = {c: (got.get(c), list(eval(c))) for c in CALLS if got.get(c) != list(eval(c))}
print(json.dumps({"violates": bool(bad), "observed": {c: v[0] for c, v in bad.items()}, "required": {c: v[1] for c, v in bad.items()}}))
'''


def range_arguments(chk):
    """The arguments written in a `range(...)` call reach the overload variants with their source values: after the
    CFG builder (which folds a minus sign into a numeric literal) every argument of the call in the basic block
    evaluates to what the written argument evaluates to — `+k` stays k, `-(+k)` is -k."""
    import ast
    from . import C03 as C3
    from .common import ast_from_source
    BM = "guppylang_internals.cfg.builder"
    e = C3.cfg_engine(chk)
    e.func_info(BM, "ExprBuilder.visit_UnaryOp")
    CALLS = ["range(+4)", "range(-3, +3)", "range(-2, +3, +2)", "range(+6, -1, -2)", "range(0, -7, -(+3))", "range(3)", "range(-3)", "range(1, 4)", "range(+(-2), -(-5), +(+1))", "range(-0)"]
    for call in CALLS:
        def t(it, call=call):
            m = e.module(BM)
            it.ctx.mod_globals(m)["tmp_vars"] = [f"%tmp{k}" for k in range(50)]
            CB = it.lookup_global(m, "CFGBuilder")
            fd = ast_from_source(it, f"def fn():\n    r = {call}\n").fields["body"][0]
            return it.call_method(it.call(CB, [], {}), "build", [fd.fields["body"], True, SObj(ClassVal("Globals", builtin=True), {})])

        def post(p, call=call):
            if p.kind != "return":
                return z3.BoolVal(False)
            stmts = [C3.to_real_ext(st) for bb in p.value.fields["bbs"] for st in bb.fields["statements"]]
            if len(stmts) != 1 or not isinstance(stmts[0], ast.Assign) or not isinstance(stmts[0].value, ast.Call):
                return z3.BoolVal(False)
            want = [eval(compile(ast.Expression(body=a), "<arg>", "eval"), {"__builtins__": {}}) for a in ast.parse(call, mode="eval").body.args]
            try:
                got = [eval(compile(ast.Expression(body=a), "<arg>", "eval"), {"__builtins__": {}}) for a in map(ast.fix_missing_locations, stmts[0].value.args)]
            except Exception:  # noqa
                return z3.BoolVal(False)
            return z3.BoolVal(got == want and all(type(g) is type(w) for g, w in zip(got, want)))
        chk.prove_paths(f"range-arguments[{call}]:every-argument-reaches-the-block-with-its-source-value", e.explore(t), post, func=f"{BM}:ExprBuilder.visit_UnaryOp",
                        replay=lambda m_: {"script": REPLAY_RANGE_ARGS, "input": {}})
    chk.use_engine(e)

