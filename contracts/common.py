"""Helpers shared by the sidecar contracts."""
import os
import z3

from pyvc import Engine, SBool, SInt, SStr


def mk_engine(chk):
    e = Engine(chk.repo)
    e.max_unroll = 8
    e.loop_specs = {}
    return e


def zbool(v):
    if isinstance(v, SBool):
        return v.t
    if isinstance(v, bool):
        return z3.BoolVal(v)
    raise TypeError(f"expected a boolean result, got {v!r}")


def zint(v):
    if isinstance(v, SInt):
        return v.t
    if isinstance(v, bool):
        raise TypeError("bool where int expected")
    if isinstance(v, int):
        return z3.IntVal(v)
    raise TypeError(f"expected an int result, got {v!r}")


def zstr(v):
    if isinstance(v, SStr):
        return v.t
    if isinstance(v, str):
        return z3.StringVal(v)
    raise TypeError(f"expected a str result, got {v!r}")


def model_val(m, t):
    v = m.eval(t, model_completion=True)
    if z3.is_int_value(v):
        return v.as_long()
    if z3.is_string_value(v):
        return v.as_string()
    if z3.is_true(v):
        return True
    if z3.is_false(v):
        return False
    return str(v)
