"""Helpers shared by the sidecar contracts."""
import os
import z3

from pyvc import Engine, SBool, SInt, SStr


def mk_engine(chk):
    e = Engine(chk.repo)
    e.max_unroll = 8
    e.feas_timeout_ms = 300
    e.loop_specs = {}

    # contextvars.ContextVar (module-level state of tys/ty.py and friends): a cell with get / set / reset
    def context_var(it, a, k):
        from pyvc import SObj, ClassVal, Builtin
        cell = {"v": k.get("default", _MISSING)}
        o = SObj(ClassVal("ContextVar", builtin=True), {"name": a[0] if a else None})

        def get(*d):
            if cell["v"] is _MISSING:
                if d:
                    return d[0]
                it.throw("LookupError", "context variable has no value")
            return cell["v"]

        def set_(v):
            old = cell["v"]
            cell["v"] = v
            return ("token", old)
        o.fields["get"] = Builtin("ContextVar.get", get)
        o.fields["set"] = Builtin("ContextVar.set", set_)
        o.fields["reset"] = Builtin("ContextVar.reset", lambda tok: cell.__setitem__("v", tok[1]))
        return o
    e.ext_models.setdefault("contextvars.ContextVar", context_var)

    # re.compile(pattern, flags) on CONCRETE strings: evaluated by CPython's own re (a pure function of
    # its arguments); a match is modelled as the tuple (group 0, group 1, ...) so that m[i] and
    # truthiness mean what they mean on a match object, no match is None.  Symbolic subjects are outside.
    def re_compile(it, a, k):
        import re as _re
        from pyvc import SObj, ClassVal, Builtin
        from pyvc.values import Unsupported
        flags = 0
        for fl in a[1:]:
            flags |= fl if isinstance(fl, int) else 0
        if not isinstance(a[0], str):
            raise Unsupported("re.compile of a symbolic pattern")
        pat = _re.compile(a[0], flags)

        def mk(meth):
            def run(subject, *rest):
                if not isinstance(subject, str):
                    raise Unsupported("regular expression applied to a symbolic string")
                m = getattr(pat, meth)(subject, *rest)
                return None if m is None else (m.group(0), *m.groups())
            return Builtin("re.Pattern." + meth, run)
        return SObj(ClassVal("Pattern", builtin=True), {"pattern": a[0], "fullmatch": mk("fullmatch"), "match": mk("match"), "search": mk("search")})
    e.ext_models.setdefault("re.compile", re_compile)
    e.ext_models.setdefault("re.DOTALL", 16)
    return e


_MISSING = object()


def zbool(v):
    if isinstance(v, SBool):
        return v.t
    if isinstance(v, bool):
        return z3.BoolVal(v)
    raise TypeError(f"expected a boolean result, got {v!r}")


def zint(v):
    if isinstance(v, SInt):
        return v.t
    if isinstance(v, bool):
        raise TypeError("bool where int expected")
    if isinstance(v, int):
        return z3.IntVal(v)
    raise TypeError(f"expected an int result, got {v!r}")


def zstr(v):
    if isinstance(v, SStr):
        return v.t
    if isinstance(v, str):
        return z3.StringVal(v)
    raise TypeError(f"expected a str result, got {v!r}")


def model_val(m, t):
    v = m.eval(t, model_completion=True)
    if z3.is_int_value(v):
        return v.as_long()
    if z3.is_string_value(v):
        return v.as_string()
    if z3.is_true(v):
        return True
    if z3.is_false(v):
        return False
    return str(v)


def ast_from_source(it, src, mode="exec", file="<verif>"):
    """Interpreted-AST (SObj tree) of real Python source, annotated the way guppylang annotates
    function ASTs (file/source/line_offset on every node)."""
    import ast as _ast
    from pyvc.astmodel import to_sobj
    from pyvc import SObj
    tree = _ast.parse(src, mode=mode)
    root = to_sobj(it, tree)
    seen = set()

    def ann(o):
        if isinstance(o, SObj):
            if id(o) in seen:
                return
            seen.add(id(o))
            o.fields.setdefault("file", file)
            o.fields.setdefault("source", src)
            o.fields.setdefault("line_offset", 1)
            for v in list(o.fields.values()):
                ann(v)
        elif isinstance(o, list):
            for x in o:
                ann(x)
    ann(root)
    return root


def find_ast(root, clsname, pred=None):
    """All interpreted-AST nodes of the given class below root (pre-order)."""
    from pyvc import SObj
    out, seen = [], set()

    def walk(o):
        if isinstance(o, SObj):
            if id(o) in seen:
                return
            seen.add(id(o))
            if o.cls.name == clsname and (pred is None or pred(o)):
                out.append(o)
            for k, v in o.fields.items():
                if k in o.cls.lookup("_fields")[0] if o.cls.lookup("_fields")[0] else False:
                    walk(v)
        elif isinstance(o, list):
            for x in o:
                walk(x)
    walk(root)
    return out
