"""C04 — Numeric operators compute Python's results.

Binding-table + Guppy mode.  Functions under contract: every method of nat / int / float
(guppylang/std/num.py) and bool (std/bool.py) — their decorator bindings are the verified
"bodies" —, the Guppy-defined bodies (__bool__, __truediv__, int.__pow__, float.__floordiv__/
__mod__/__divmod__, bool.__ne__/__int__/__nat__), ReversingChecker.parse_name/synthesize,
DunderChecker, the operator tables binary_table / unary_table and
ExprSynthesizer._synthesize_binary (left dunder first, then reflected dunder with swapped args).

Obligation per (type, dunder):  forall operands in Python's domain of definition:
    PYSPEC(type, dunder)(a, b)  ==  OPSEM(op bound in the source)(a, b)
with 64-bit vectors for int/nat and z3 Float64 for float.  OPSEM (hugr op semantics) is ASSUMED.
"""
import z3

from pyvc import SObj, ClassVal, Builtin, PyRaise, Unsupported, FuncVal, SBool
from .common import mk_engine, model_val
from . import bindings as B
from . import guppysem as G

TITLE = "operator bindings of int/nat/float/bool against Python semantics over all 64-bit / binary64 operands"
NUM = "guppylang.std.num"
BOOLM = "guppylang.std.bool"

# Python's data model: operator -> (left dunder, reflected dunder)   [specification]
PY_BINARY = {"Add": ("__add__", "__radd__"), "Sub": ("__sub__", "__rsub__"), "Mult": ("__mul__", "__rmul__"),
             "Div": ("__truediv__", "__rtruediv__"), "FloorDiv": ("__floordiv__", "__rfloordiv__"),
             "Mod": ("__mod__", "__rmod__"), "Pow": ("__pow__", "__rpow__"), "LShift": ("__lshift__", "__rlshift__"),
             "RShift": ("__rshift__", "__rrshift__"), "BitOr": ("__or__", "__ror__"), "BitXor": ("__xor__", "__rxor__"),
             "BitAnd": ("__and__", "__rand__"), "MatMult": ("__matmul__", "__rmatmul__"),
             "Eq": ("__eq__", "__eq__"), "NotEq": ("__ne__", "__ne__"), "Lt": ("__lt__", "__gt__"),
             "LtE": ("__le__", "__ge__"), "Gt": ("__gt__", "__lt__"), "GtE": ("__ge__", "__le__")}
PY_UNARY = {"UAdd": "__pos__", "USub": "__neg__", "Invert": "__invert__"}
PY_BUILTIN_DUNDER = {"abs": ("__abs__", 1), "divmod": ("__divmod__", 2), "pow": ("__pow__", 2), "len": ("__len__", 1),
                     "round": ("__round__", 1)}
CLASS_NEW = {"nat": "__nat__", "int": "__int__", "float": "__float__", "bool": "__bool__"}

REPLAY_INT = r'''
# L3 replay: run the real compiled program on the emulator (integer-only straight line)
from guppylang import guppy
from guppylang.std.builtins import result, nat, comptime
I = INPUT
A, Bv, ty, expr = I["a"], I["b"], I["ty"], I["expr"]
src = f"""
@guppy
def main() -> None:
    a: {ty} = comptime(A)
    b: {I.get('ty_b', ty)} = comptime(Bv)
    result("r", {expr})
"""
import tempfile, importlib.util, os, sys
d = tempfile.mkdtemp(dir=os.environ.get("TMPDIR", "/var/tmp"))
fn = os.path.join(d, "replay_prog.py")
open(fn, "w").write("from guppylang import guppy\nfrom guppylang.std.builtins import result, nat, comptime\nA=%d\nBv=%d\n" % (A, Bv) + src)
spec = importlib.util.spec_from_file_location("replay_prog", fn)
m = importlib.util.module_from_spec(spec); sys.modules["replay_prog"] = m
out = {"violates": False}
try:
    spec.loader.exec_module(m)
    res = m.main.emulator(n_qubits=1).run()
    got = list(list(res.results)[0].entries)[0][1]
    def wrap_s(x): return ((x + 2**63) % 2**64) - 2**63
    def wrap_u(x): return x % 2**64
    a, b = A, Bv
    want = eval(I["pyexpr"])
    want = wrap_s(want) if I["rty"] == "int" else (wrap_u(want) if I["rty"] == "nat" else want)
    out = {"violates": got != want, "observed": got, "required": want, "expr": I["pyexpr"], "a": A, "b": Bv}
except Exception as ex:
    out = {"violates": False, "error": repr(ex)[:300]}
import shutil; shutil.rmtree(d, ignore_errors=True)
print(json.dumps(out))
'''
PYOP = {"__add__": "a + b", "__sub__": "a - b", "__mul__": "a * b", "__floordiv__": "a // b", "__mod__": "a % b",
        "__lshift__": "a << b", "__rshift__": "a >> b", "__and__": "a & b", "__or__": "a | b", "__xor__": "a ^ b",
        "__neg__": "-a", "__invert__": "~a", "__abs__": "abs(a)", "__pos__": "+a",
        "__float__": "float(a)", "__truediv__": "a / b"}


# operand-domain splits along known upstream defects (see DESIGN.md / known_findings.json)
SPLIT = {
    ("int", "__floordiv__"): (("divisor>0", lambda a, b: b > 0), ("divisor<0", lambda a, b: b < 0)),
    ("int", "__mod__"): (("divisor>0", lambda a, b: b > 0), ("divisor<0", lambda a, b: b < 0)),
    ("int", "__divmod__"): (("divisor>0", lambda a, b: b > 0), ("divisor<0", lambda a, b: b < 0)),
    ("int", "__rshift__"): (("left>=0", lambda a, k: a >= 0), ("left<0", lambda a, k: a < 0)),
}


def signed_val(m, t):
    v = m.eval(t, model_completion=True).as_long()
    return v - (1 << 64) if v >= (1 << 63) else v


def extract_tables(e, chk):
    tabs = {}

    def t(it):
        out = {}
        for cls in ("nat", "int", "float"):
            out[cls] = B.extract_class(e, it, NUM, cls)
        out["bool"] = B.extract_class(e, it, BOOLM, "bool")
        return out
    paths = e.explore(t)
    if len(paths) != 1 or paths[0].kind != "return":
        chk.undecided("binding-table-extraction", f"paths={[(p.kind, str(p.value)[:200]) for p in paths]}")
        return None
    return paths[0].value


def install_class_models(e, worldref):
    """Calling int(x)/float(x)/nat(x)/bool(x) inside Guppy bodies: DunderChecker contract."""
    for mod, cls in ((NUM, "nat"), (NUM, "int"), (NUM, "float"), (BOOLM, "bool")):
        def mk(cls=cls):
            def model(it, a, k):
                w = worldref[0]
                v = w.literal(a[0], cls)
                return w.gcall(v.ty, CLASS_NEW[cls], [v])
            return model
        e.models[f"{mod}:{cls}"] = mk()
    e.models["guppylang.std.platform:panic"] = lambda it, a, k: (_ for _ in ()).throw(PyRaise(it.make_exc("RuntimeError", "guppy panic")))
    e.ext_models["guppylang.guppy"] = Builtin("guppy", lambda f=None, **k: f)


def fresh_arg(ty, name):
    if ty in ("int", "nat"):
        return G.GInt(z3.BitVec(name, 64), ty)
    if ty == "float":
        return G.GFloat(z3.FP(name, G.FP))
    if ty == "bool":
        return G.GBool(z3.Bool(name))
    raise Unsupported(ty)


def spec_for(ty, dunder):
    if ty in ("int", "nat"):
        return G.pyspec(ty, dunder)
    if ty == "float":
        return G.pyspec_float(dunder)
    return G.pyspec_bool(dunder)


def same(a, b):
    if isinstance(a, tuple):
        return z3.And(*[same(x, y) for x, y in zip(a, b)])
    return a == b


def terms(v):
    if isinstance(v, tuple):
        return tuple(terms(x) for x in v)
    if isinstance(v, G.GVal):
        return v.t
    if isinstance(v, bool):
        return z3.BoolVal(v)
    if isinstance(v, int):
        return G.bv(v)
    if isinstance(v, SBool):
        return v.t
    raise Unsupported(f"result {v!r}")



def operator_table_obligations(chk, e, tag="", only=None):
    """binary_table / unary_table of expr_checker (real module-level tables): every operator is bound to
    the dunder Python uses and to the REFLECTED dunder Python uses.  Shared with C16: when the left
    operand of a mixed comparison / arithmetic expression is the narrower one, the reflected entry is
    what widens it (`a <= b` becomes `b.__ge__(convert(a))`), so a wrong reflected name silently
    changes the meaning of widened operands."""
    EC = "guppylang_internals.checker.expr_checker"

    def t_tables(it):
        m = e.module(EC)
        return it.lookup_global(m, "binary_table"), it.lookup_global(m, "unary_table")
    paths = e.explore(t_tables)
    if paths and paths[0].kind == "return":
        bt, ut = paths[0].value
        gotb = {k.name: (v[0], v[1]) for k, v in bt.items()}
        gotu = {k.name: v[0] for k, v in ut.items()}
        for k, v in PY_BINARY.items():
            if only is None or k in only:
                chk.record(f"{tag}binary_table[{k}]=={v}", gotb.get(k) == v, f"source has {gotb.get(k)}", func=f"{EC}:binary_table")
        if only is None:
            for k, v in PY_UNARY.items():
                chk.record(f"{tag}unary_table[{k}]=={v}", gotu.get(k) == v, f"source has {gotu.get(k)}", func=f"{EC}:unary_table")
            chk.record(f"{tag}binary_table:no-extra-operators", set(gotb) == set(PY_BINARY), str(sorted(set(gotb) ^ set(PY_BINARY))), func=f"{EC}:binary_table")
    else:
        chk.undecided(f"{tag}operator-tables", str(paths[0].value if paths else "no path"))


def reversing_checker_obligations(chk, e, tables, tag=""):
    """ReversingChecker (std/_internal/checker.py): every reflected method `__rOP__` of nat / int / float is
    `__OP__` of the same type called with the operands swapped.  Shared with C16: a narrower LEFT operand
    is widened only through this route (`nat >> int` fails in nat.__rshift__, falls to int.__rrshift__,
    which must re-dispatch to int.__rshift__ with the nat converted)."""
    # ------------------------------------------------------------------ reflected checkers: real code of ReversingChecker / DunderChecker
    CK = "guppylang_internals.std._internal.checker"
    e.func_info(CK, "ReversingChecker.parse_name")
    e.func_info(CK, "ReversingChecker.synthesize")
    e.func_info(CK, "DunderChecker.synthesize")
    refl_names = sorted({n for ty in ("nat", "int", "float") for n, b in tables[ty].items() if b.checker and b.checker[0] == "ReversingChecker"})
    for rn in refl_names:
        def thunk(it, rn=rn):
            m = e.module(CK)
            RC = it.lookup_global(m, "ReversingChecker")
            log = []
            selfty = SObj(ClassVal("Ty"), {"n": "selfty"})

            def get_instance_func(ty, name):
                def synthesize_call(args, node, ctx):
                    log.append((ty, name, list(args)))
                    return ("CALL", name)
                return SObj(ClassVal("Func"), {"synthesize_call": Builtin("synthesize_call", synthesize_call)})
            ctx = SObj(ClassVal("Ctx"), {"globals": SObj(ClassVal("Globals"), {"get_instance_func": Builtin("gif", get_instance_func)})})
            e.models["guppylang_internals.checker.expr_checker:ExprSynthesizer"] = lambda it2, a, k: SObj(ClassVal("Synth"), {
                "synthesize": Builtin("synthesize", lambda x: (("SYN", x), selfty))})
            rc = SObj(RC, {"func": SObj(ClassVal("F"), {"name": rn}), "ctx": ctx, "node": "NODE"})
            out = it.call_method(rc, "synthesize", [["SELF", "OTHER"]])
            return out, log, selfty
        paths = e.explore(thunk)

        def post(p, rn=rn):
            if p.kind != "return":
                return z3.BoolVal(False)
            out, log, selfty = p.value
            ok = (len(log) == 1 and log[0][0] is selfty and log[0][1] == "__" + rn[3:]
                  and log[0][2] == ["OTHER", ("SYN", "SELF")] and out == ("CALL", "__" + rn[3:]))
            return z3.BoolVal(ok)
        chk.prove_paths(f"{tag}ReversingChecker[{rn}]:calls-{'__' + rn[3:]}-of-type(self)-with-(other,self)", paths, post, func=f"{CK}:ReversingChecker.synthesize")
    e.models.pop("guppylang_internals.checker.expr_checker:ExprSynthesizer", None)

REPLAY_ARITY = r'''
import ast, glob, os
import hugr.std.int
bad = []; n = 0
root = os.path.join(os.environ.get("VERIF_REPO", "/repo"), "guppylang/src/guppylang/std")
for path in sorted(glob.glob(os.path.join(root, "*.py"))):
    for node in ast.walk(ast.parse(open(path).read())):
        if isinstance(node, ast.Call) and isinstance(node.func, ast.Name) and node.func.id == "int_op" and node.args and isinstance(node.args[0], ast.Constant):
            name = node.args[0].value
            nv = 1
            for kw in node.keywords:
                if kw.arg == "n_vars" and isinstance(kw.value, ast.Constant): nv = kw.value.value
            if len(node.args) > 2 and isinstance(node.args[2], ast.Constant): nv = node.args[2].value
            if any(kw.arg == "ext" for kw in node.keywords) or len(node.args) > 1: continue       # another extension
            n += 1
            try:
                want = len(hugr.std.int.INT_OPS_EXTENSION.get_op(name).signature.poly_func.params)
            except Exception as ex:
                bad.append(f"{os.path.basename(path)}:{node.lineno} {name}: no such op ({type(ex).__name__})"); continue
            if want != nv:
                bad.append(f"{os.path.basename(path)}:{node.lineno} {name}: passes {nv} type argument(s), the op declares {want}")
# and the dynamic confirmation: divmod on nats loads and runs
print(json.dumps({"violates": bool(bad), "ops": n, "mismatches": bad}))
'''


def run(chk):
    e = mk_engine(chk)
    B.install_models(e)
    worldref = [None]
    install_class_models(e, worldref)
    tables = extract_tables(e, chk)
    if tables is None:
        return
    for cls in ("nat", "int", "float"):
        for n, b in tables[cls].items():
            e.func_info(NUM, f"{cls}.{n}")
    for n in tables["bool"]:
        e.func_info(BOOLM, f"bool.{n}")
    chk.assumptions.append("ASSUMED hugr op semantics (transcribed from hugr.std descriptions): " + "; ".join(f"{k}: {v}" for k, v in G.OPSEM_TEXT.items()))
    chk.assumptions.append("Python results reduced mod 2^64 are expressed directly in bit-vector theory (bvadd/bvsub/bvmul are the ring operations of Z/2^64; floor division built from bvsdiv/bvsrem at 66 bits); Python float == IEEE binary64 RNE (z3 FP theory)")
    chk.assumptions.append("`**` (ipow / fpow) and float round are uninterpreted on both sides: only the binding and the panic on negative exponents are checked")
    chk.timeout_ms = 20000 if chk.tier == "quick" else 120000

    # ------------------------------------------------------------------ per (type, dunder)
    skipped = []
    for ty in ("nat", "int", "float", "bool"):
        for name, b in sorted(tables[ty].items()):
            if name in ("__new__",):
                continue
            reflected = b.checker is not None and b.checker[0] == "ReversingChecker"
            spec_name = "__" + name[3:] if reflected else name
            spec = spec_for(ty, spec_name)
            if name == "__pow_impl":
                spec = None
            if spec is None:
                skipped.append(f"{ty}.{name}")
                continue
            ptys = [G.GuppyWorld.ann_ty(None, a, ty) for _, a in b.params]
            if any(p not in ("int", "nat", "float", "bool") for p in ptys):
                skipped.append(f"{ty}.{name} (parameter types {ptys})")
                continue

            def thunk(it, ty=ty, name=name, ptys=ptys):
                w = G.GuppyWorld(e, it, tables)
                worldref[0] = w
                args = [fresh_arg(p, f"x{i}") for i, p in enumerate(ptys)]
                it.ctx.ghost["args"] = args
                return w.gcall(ty, name, args)
            try:
                paths = e.explore(thunk)
            except G.GuppyTypeErr as ex:
                chk.undecided(f"{ty}.{name}", f"guppy-mode type error: {ex}")
                continue

            def post(p, spec=spec, reflected=reflected, region=None):
                args = [a.t for a in p.ctx.ghost["args"]]
                if reflected:
                    args = [args[1], args[0]]
                want, defined = spec(*args)
                if region is not None:
                    defined = z3.And(defined, region(*args))
                if p.kind == "raise":
                    # a panic is allowed only where Python's result is undefined
                    return z3.Not(defined) if region is None else z3.BoolVal(True)
                return z3.Implies(defined, same(terms(p.value), want))

            def rp(m, ty=ty, name=name, spec_name=spec_name, reflected=reflected, b=b):
                if ty not in ("int", "nat") or spec_name not in PYOP:
                    return None
                rd = (lambda t: signed_val(m, t)) if ty == "int" else (lambda t: m.eval(t, model_completion=True).as_long())
                a = rd(z3.BitVec("x0", 64))
                bb = rd(z3.BitVec("x1", 64)) if len(b.params) > 1 else 0
                if reflected:
                    a, bb = bb, a
                rty = b.ret if b.ret in ("int", "nat", "float") else "other"
                if rty == "other":
                    return None
                return {"script": REPLAY_INT, "input": {"a": a, "b": bb, "ty": ty, "expr": PYOP[spec_name], "pyexpr": PYOP[spec_name], "rty": rty}}
            fq = f"{NUM if ty != 'bool' else BOOLM}:{ty}.{name}"
            split = SPLIT.get((ty, spec_name))
            if split is None:
                chk.prove_paths(f"{ty}.{name}:python-result==bound-op-result", paths, post, func=fq, replay=rp)
            else:
                # operand domain split along a KNOWN upstream defect: the complement region is
                # claimed (must be proved), the defect region is reported as a known finding
                (okname, okreg), (badname, badreg) = split
                chk.prove_paths(f"{ty}.{name}[{okname}]:python-result==bound-op-result", paths,
                                lambda p, post=post, okreg=okreg: post(p, region=okreg), func=fq, replay=rp)
                chk.prove_paths(f"{ty}.{name}[{badname}]:python-result==bound-op-result", paths,
                                lambda p, post=post, badreg=badreg: post(p, region=badreg), func=fq, replay=rp)
    chk.not_covered += [f"no Python-side spec function (not compared): {', '.join(skipped)}"]

    # ------------------------------------------------------------------ mixed operand types via the real dispatch order
    for op in ("+", "-", "*", "&", "|", "^", "==", "!=", "<", "<=", ">", ">="):
        for lt, rt in (("nat", "int"), ("int", "nat")):
            def thunk(it, op=op, lt=lt, rt=rt):
                w = G.GuppyWorld(e, it, tables)
                worldref[0] = w
                l, r = fresh_arg(lt, "x0"), fresh_arg(rt, "x1")
                it.ctx.ghost["args"] = (l, r)
                return (w.compare if op in G.CMP_DUNDER else w.binary)(op, l, r)
            paths = e.explore(thunk)

            def post(p, op=op, lt=lt, rt=rt):
                l, r = p.ctx.ghost["args"]
                natv = l.t if lt == "nat" else r.t
                rep = natv >= 0  # the nat operand is representable as int (C16's proviso)
                if p.kind != "return":
                    return z3.BoolVal(False)
                dn = G.CMP_DUNDER[op][0] if op in G.CMP_DUNDER else "__%s__" % G.BIN_DUNDER[op]
                want, defined = G.pyspec("int", dn)(l.t, r.t)
                return z3.Implies(z3.And(rep, defined), same(terms(p.value), want))
            chk.prove_paths(f"mixed:{lt}{op}{rt}:==python-on-values(nat<2^63)", paths, post, func=f"{NUM}:int")

    # ------------------------------------------------------------------ int/nat operand with a float operand: Python converts the integer
    # (exactly its value, round to nearest) and then applies the float operation
    for op in ("+", "-", "*", "/"):
        for lt, rt in (("nat", "float"), ("float", "nat"), ("int", "float"), ("float", "int")):
            def thunk(it, op=op, lt=lt, rt=rt):
                w = G.GuppyWorld(e, it, tables)
                worldref[0] = w
                l, r = fresh_arg(lt, "x0"), fresh_arg(rt, "x1")
                it.ctx.ghost["args"] = (l, r)
                return w.binary(op, l, r)
            paths = e.explore(thunk)

            def post(p, op=op, lt=lt, rt=rt):
                l, r = p.ctx.ghost["args"]
                tofp = lambda v: v.t if v.ty == "float" else (z3.fpUnsignedToFP if v.ty == "nat" else z3.fpSignedToFP)(G.RNE, v.t, G.FP)  # noqa: E731
                want, defined = G.pyspec_float("__%s__" % G.BIN_DUNDER[op])(tofp(l), tofp(r))
                if p.kind != "return":
                    return z3.Not(defined)
                return z3.Implies(defined, same(terms(p.value), want))
            chk.prove_paths(f"mixed:{lt}{op}{rt}:==python-float-op-on-float(integer-value)", paths, post, func=f"{NUM}:float")
    # compile-time constant operands: the value the operator receives is the value written
    from .C17 import constant_payload_obligations, IMIN, IMAX, NMAX
    cv = z3.Int("v")
    e.func_info("guppylang_internals.compiler.expr_compiler", "python_value_to_hugr")
    e.func_info("guppylang_internals.std._internal.compiler.arithmetic", "UnsignedIntVal")
    constant_payload_obligations(chk, e, cv, z3.And(cv >= 0, cv <= NMAX), z3.And(cv >= IMIN, cv <= IMAX), tag="constant-operands:")
    # the coercion used above (GuppyWorld.coerce = ONE direct call of the target's conversion
    # method) is the contract of the real try_coerce_to, discharged here from its code
    from .C16 import try_coerce_obligations
    try_coerce_obligations(chk, e, tag="mixed-operands:")

    reversing_checker_obligations(chk, e, tables)
    CK = "guppylang_internals.std._internal.checker"

    # builtin functions -> dunder names (decorator arguments read from the source)
    def t_builtins(it):
        m = e.module(NUM)
        out = {}
        import ast as _ast
        for st in m.tree.body:
            if isinstance(st, _ast.FunctionDef) and st.name in PY_BUILTIN_DUNDER:
                for d in st.decorator_list:
                    if isinstance(d, _ast.Call):
                        for k in d.keywords:
                            if k.arg == "checker":
                                fr = __import__("pyvc").Frame(m)
                                fr.locals = it.ctx.mod_globals(m)
                                c = it.eval(k.value, fr)
                                out[st.name] = (c.cls.name, c.fields.get("dunder_name"), c.fields.get("num_args"))
        return out
    paths = e.explore(t_builtins)
    got = paths[0].value if paths and paths[0].kind == "return" else {}
    for fn, (dn, na) in PY_BUILTIN_DUNDER.items():
        chk.record(f"builtin:{fn}->DunderChecker({dn},{na})", got.get(fn) == ("DunderChecker", dn, na), f"source has {got.get(fn)}", func=f"{NUM}:{fn}")
    for cls, dn in CLASS_NEW.items():
        b = tables[cls].get("__new__")
        chk.record(f"{cls}(x)->DunderChecker({dn})", b is not None and b.checker == ("DunderChecker", dn, 1), f"source has {b.checker if b else None}",
                   func=f"{NUM if cls != 'bool' else BOOLM}:{cls}.__new__")

    # ------------------------------------------------------------------ operator tables and dispatch order (Python mode, real code)
    EC = "guppylang_internals.checker.expr_checker"
    e.func_info(EC, "ExprSynthesizer._synthesize_binary")

    operator_table_obligations(chk, e)

    for scenario in ("left-ok", "left-fails-right-ok", "both-fail", "left-missing-right-ok"):
        def thunk(it, scenario=scenario):
            m = e.module(EC)
            ES = it.lookup_global(m, "ExprSynthesizer")
            GE = it.lookup_global(e.module("guppylang_internals.error"), "GuppyError")
            A = __import__("pyvc.astmodel", fromlist=["ast_classes"]).ast_classes(e)
            log = []
            lty, rty = SObj(ClassVal("Ty"), {"n": "L"}), SObj(ClassVal("Ty"), {"n": "R"})

            def gif(ty, name):
                if scenario == "left-missing-right-ok" and ty is lty:
                    return None

                def synthesize_call(args, node, ctx):
                    log.append((ty.fields["n"], name, [a for a in args]))
                    fails = (ty is lty and scenario in ("left-fails-right-ok", "both-fail")) or (ty is rty and scenario == "both-fail")
                    if fails:
                        raise PyRaise(it.call(GE, [SObj(ClassVal("Diag"), {})], {}))
                    return ("CALL", ty.fields["n"], name)
                return SObj(ClassVal("Func"), {"synthesize_call": Builtin("sc", synthesize_call)})
            ctx = SObj(ClassVal("Ctx"), {"globals": SObj(ClassVal("Globals"), {"get_instance_func": Builtin("gif", gif)})})
            es = SObj(ES, {"ctx": ctx})
            es.fields["synthesize"] = Builtin("synthesize", lambda x: (("S", x), lty if x == "LEFT" else rty))
            node = SObj(A["BinOp"], {})
            out = it.call_method(es, "_synthesize_binary", ["LEFT", "RIGHT", SObj(A["Sub"], {}), node])
            return out, log
        e.models["guppylang_internals.checker.errors.type_errors:BinaryOperatorNotDefinedError"] = lambda it2, a, k: SObj(ClassVal("Diag"), {"kind": "BinaryOperatorNotDefinedError"})
        paths = e.explore(thunk)

        def post(p, scenario=scenario):
            L = ("L", "__sub__", [("S", "LEFT"), ("S", "RIGHT")])
            R = ("R", "__rsub__", [("S", "RIGHT"), ("S", "LEFT")])
            if scenario == "left-ok":
                return z3.BoolVal(p.kind == "return" and p.value[1] == [L] and p.value[0] == ("CALL", "L", "__sub__"))
            if scenario == "left-fails-right-ok":
                return z3.BoolVal(p.kind == "return" and p.value[1] == [L, R] and p.value[0] == ("CALL", "R", "__rsub__"))
            if scenario == "left-missing-right-ok":
                return z3.BoolVal(p.kind == "return" and p.value[1] == [R] and p.value[0] == ("CALL", "R", "__rsub__"))
            return z3.BoolVal(p.kind == "raise" and p.raised(e, "GuppyTypeError"))
        chk.prove_paths(f"_synthesize_binary[{scenario}]:left-dunder(l,r)-then-reflected(r,l)-then-error", paths, post, func=f"{EC}:ExprSynthesizer._synthesize_binary")

    # ---- the number of type arguments every int_op(...) instantiation passes == the number its op declares (a surplus
    # argument gives an op the HUGR reader rejects: the whole package fails to load)
    from pyvc.report import run_replay
    res_a = run_replay(REPLAY_ARITY, {}, chk.repo, timeout=600)
    if "ops" not in res_a:
        chk.undecided("int_op:type-argument-counts", "native run failed: " + str(res_a)[:400])
    else:
        o_a = chk.record(f"int_op(...)[{res_a['ops']} instantiations in std/*.py]:passes-as-many-type-arguments-as-the-op-declares", not res_a.get("violates"), str(res_a.get("mismatches"))[:300],
                         func="guppylang.std.num:nat.__divmod__", backend="binding-table")
        if res_a.get("violates"):
            o_a.replay = {"confirmed": True, "script": REPLAY_ARITY, "input": {}, "native": res_a}
    chk.assumptions.append("op arities are read from the installed hugr (0.18.x) int extension; /repo pins hugr ~= 0.14.1, whose extension files are not in the sandbox")

    # (operands restricted to a small range: the witness -7 // 2 lies inside, and the solver answers at once
    # instead of occasionally running out of its budget on a 64-bit signed division)
    chk.must_fail("twin:floor-division-spec-is-not-truncation", [z3.BitVec("x1", 64) != 0] + [c for v in (z3.BitVec("x0", 64), z3.BitVec("x1", 64)) for c in (v >= -16, v <= 16)],
                  G._floordiv_s(z3.BitVec("x0", 64), z3.BitVec("x1", 64))[0] == z3.BitVec("x0", 64) / z3.BitVec("x1", 64))
    chk.expected_min_obligations = 150
    chk.not_covered += ["float // and % against CPython's fmod-based algorithm (z3 FP rem out of reach): only the Guppy body floor(a/b) is unfolded",
                        "comparisons of int/nat with float operands (would need exact int/float comparison)",
                        "ipow/fpow/fround values (uninterpreted)", "that the emulator implements the assumed op semantics"]
    chk.use_engine(e)
