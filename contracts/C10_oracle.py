"""Native oracle for C10 (bounded layer): compiler output and diagnostics are the same in every interpreter run.

What varies between two runs of the same program is the string hash seed (iteration order of sets of
strings / dataclasses over strings) and the heap layout (objects without __hash__ — basic blocks, AST
nodes — hash by address).  Every program of a family is compiled / checked in fresh interpreter
processes that differ in PYTHONHASHSEED and in the amount of memory allocated before guppylang is
imported.  Required: for every program the outcome — SHA-1 of the serialised HUGR for accepted programs;
error class, the variable it names and the line:column it points at for rejected ones — is the same in
all runs.  (Until fix 989b0e5 the dataflow worklists popped blocks in address order and the last part
failed: the recorded finding C10-liveness-witness-order, now closed.)

Family: the statement family of contracts/cfgsem.py rewritten into Guppy (C03_oracle.to_guppy; 140+
programs with loops, breaks, nested conditionals), hand-written programs with capturing nested
functions and modifier blocks capturing several variables of different types, programs with several
undefined variables used in loops, and a sample of the definedness family of C08_oracle.
"""
CHILD = r'''
import guppy_plainbool
import sys, os, json, hashlib, random, tempfile, importlib.util, shutil
sys.path.insert(0, "/verif")
I_ = INPUT
import guppylang
guppylang.enable_experimental_features()
# vary what actually varies between interpreter runs: the string hash seed (set by the parent through
# PYTHONHASHSEED) and the heap layout (addresses of the objects allocated from here on)
_junk = [object() for _ in range(I_["schedule"] * 1237)] + [str(k) * (I_["schedule"] % 7 + 1) for k in range(I_["schedule"] * 311)]
from guppylang_internals.error import GuppyError
from contracts import cfgsem as S
from contracts.C03_oracle import ORACLE as O3
ns = {}
exec(O3.split("def terminating")[0].replace("import guppy_plainbool", ""), ns)      # HELPERS, to_guppy, HEAD

HAND = [
"""@guppy
def h5(b: bool) -> int:
    z = 0
    while b:
        z = z + p
        z = z + q
    return q + p
""",
"""@guppy
def h6(b: bool) -> int:
    z = 0
    while b:
        z = x
    return x
""",
"""@guppy
def h0(b: bool) -> int:
    alpha = 1; beta = 2.5; gamma = True
    def inner(k: int) -> int:
        if k > 0:
            return alpha + k
        elif k < -3:
            return int(beta) + (1 if gamma else 0)
        return alpha + (2 if gamma else 0)
    return inner(2)
""",
"""@guppy
def h1(n: int) -> float:
    x = 1.5; y = 2; z = False; w = 7
    def inner(k: int) -> float:
        r = 0.0
        while k > 0:
            if z:
                r += x
            else:
                r += float(y)
            k -= 1
        return r + float(w)
    return inner(n)
""",
"""@guppy
def h2(n: int) -> int:
    a = 1; b = 2; c = 3; d = 4
    def f(k: int) -> int:
        if k == 0:
            return d
        if k == 1:
            return c + b
        return a
    def g(k: int) -> int:
        return f(k) + b + d
    return g(n)
""",
"""@guppy
def h3(q: qubit @owned, r: qubit @owned, c1: qubit @owned) -> tuple[qubit, qubit, qubit]:
    with control(c1):
        h(r)
        h(q)
    return q, r, c1
""",
"""@guppy
def h4(q: qubit @owned, r: qubit @owned, s: qubit @owned) -> tuple[qubit, qubit, qubit]:
    with dagger:
        cx(s, q)
        h(r)
        cx(r, q)
    return q, r, s
""",
]
HEAD2 = "from guppylang import guppy\nfrom guppylang.std.builtins import array, result, owned\nfrom guppylang.std.quantum import qubit, h, cx, x\ndagger = object()\ncontrol = object()\n"

out = {}
def load(text, name):
    d = tempfile.mkdtemp(dir=os.environ.get("TMPDIR", "/var/tmp")); fn = os.path.join(d, name + ".py")
    open(fn, "w").write(text)
    spec = importlib.util.spec_from_file_location(name, fn); m = importlib.util.module_from_spec(spec); sys.modules[name] = m
    spec.loader.exec_module(m)
    return m, d
def outcome(f):
    try:
        pkg = f.compile_function()
        return "hugr:" + hashlib.sha1(pkg.to_bytes()).hexdigest()[:16]
    except GuppyError as e:
        err = e.error
        cls = type(err).__name__
        sp = getattr(err, "span", None)
        loc = f"{getattr(sp, 'lineno', '?')}:{getattr(sp, 'col_offset', '?')}" if sp is not None and hasattr(sp, "lineno") else (f"{sp.start.line}:{sp.start.column}" if sp is not None and hasattr(sp, "start") else "?")
        return "error:" + cls + ":" + str(getattr(err, "var", getattr(err, "ident", getattr(err, "place", "")))) + "@" + loc
    except Exception as ex:
        return "crash:" + type(ex).__name__
# (a) control-flow family
progs = list(enumerate(S.programs("quick")))[I_["chunk"]::I_["nchunks"]]
text = "from guppylang import guppy\nfrom guppylang.std.builtins import array, result\n" + ns["HELPERS"] + "".join(ns["to_guppy"](src, k) for k, src in progs)
m, d = load(text, "c10_a")
for k, src in progs:
    out[f"cf{k}"] = outcome(getattr(m, f"f{k}"))
shutil.rmtree(d, ignore_errors=True)
# (b) hand-written capturing programs (every chunk)
m, d = load(HEAD2 + "".join(HAND), "c10_b")
for i in range(len(HAND)):
    out[f"hand{i}"] = outcome(getattr(m, f"h{i}"))
shutil.rmtree(d, ignore_errors=True)
# (c) definedness family sample
from contracts.C08_oracle import ORACLE as O8, DRIVER as D8
ns8 = {}
exec(O8, ns8)
exec(D8.split("I_ = INPUT")[0], ns8)
allp = ns8["programs"]("quick")
mine = allp[I_["chunk"]::I_["nchunks"] * 12]
src8 = [ns8["HEADER"]]
for i, pr in enumerate(mine):
    src8.append(f"@guppy\ndef f{i}(b: bool) -> None:")
    src8 += ns8["render"](pr)
m, d = load("\n".join(src8) + "\n", "c10_c")
for i in range(len(mine)):
    out[f"def{i}"] = outcome(getattr(m, f"f{i}"))
shutil.rmtree(d, ignore_errors=True)
print(json.dumps({"violates": False, "outcomes": out}))
'''
