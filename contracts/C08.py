"""C08 — Use-before-definition and path-dependent types are rejected exactly.

Three layers.

1. LEMMA (z3, unbounded): over an abstract CFG (uninterpreted blocks/variables, edge relation =
   successors + dummy successors) the acceptance condition implemented by check_cfg/check_bb is
   equivalent to the property statement.  "Some control-flow path reaches a use of x without an
   assignment" is the inductively defined predicate
       Unasg(entry) if x is no input;   Unasg(p) /\ x not assigned in p /\ edge(p,s) => Unasg(s)
       Bad(x) := exists b. Unasg(b) /\ x used in b before being assigned there.
   The hypotheses are the CONTRACTS of the real functions: LivenessAnalysis computes the least
   solution of the liveness equations over successors+dummy successors (proved in C09);
   check_bb's entry test and per-edge test; the row handed to a block is `live_before ∩ locals`
   of the BFS parent.  Rule induction (for Unasg, for the least liveness solution, and on the BFS
   depth) is applied by hand: every induction step is one z3 obligation.
2. CFG.analyze (pyvc, real source): `assigned_somewhere` — the set of names treated as locals —
   is the union over ALL blocks, reachable or not, plus the inputs; both analyses run over all
   blocks with include_unreachable=True.
3. BOUNDED (native, real compiler): every program of a grammar of nested if/while/for/
   while True/if False/break/continue/return/nested def over two names (one of them shadowing
   a global) is checked with the real `check()` and compared with an independent reference (a
   collecting semantics on the Python AST, contracts/C08_oracle.py).
"""
import json
import z3

from pyvc import SObj, ClassVal, Builtin, SBool
from .common import mk_engine
from .C08_oracle import ORACLE, DRIVER, REPLAY_ONE

TITLE = "definedness/branch-type checks of check_cfg are exact w.r.t. path semantics (lemma over the contracts + bounded whole-program comparison)"
CFGM = "guppylang_internals.cfg.cfg"
CHK = "guppylang_internals.checker.cfg_checker"

B = z3.DeclareSort("Blk")
V = z3.DeclareSort("Var")
edge = z3.Function("edge", B, B, z3.BoolSort())
asg = z3.Function("assigned", B, V, z3.BoolSort())
used = z3.Function("used", B, V, z3.BoolSort())
L = z3.Function("live_before", B, V, z3.BoolSort())
R = z3.Function("row", B, V, z3.BoolSort())            # names in the input row of a compiled block
inp = z3.Function("input", V, z3.BoolSort())
loc = z3.Function("assigned_somewhere", V, z3.BoolSort())
comp = z3.Function("compiled", B, z3.BoolSort())
parent = z3.Function("bfs_parent", B, B)
depth = z3.Function("bfs_depth", B, z3.IntSort())
Unasg = z3.Function("Unasg", B, V, z3.BoolSort())
entry = z3.Const("entry", B)
b_, p_, s_, q_ = z3.Consts("b p s q", B)
x_ = z3.Const("x", V)


def run(chk):
    chk.section("lemma", lambda: lemma_section(chk))
    chk.section("analyze", lambda: analyze_section(chk))
    chk.section("check_bb", lambda: check_bb_section(chk))
    chk.section("check_cfg", lambda: check_cfg_section(chk))
    for i in range(8):
        chk.section(f"variable-stats-{i}", lambda i=i: varstats_section(chk, i, 8))
    chk.section("cfg-uses", lambda: cfg_uses_section(chk))
    chk.section("nested-uses", lambda: nested_uses_section(chk))
    n = 16
    for i in range(n):
        chk.section(f"bounded-{i}", lambda i=i: bounded_section(chk, i, n))
    chk.expected_min_obligations = 14
    chk.assumptions += [
        "rule induction: a predicate closed under the defining rules of an inductively defined predicate (Unasg, the least liveness solution) contains it; induction on the BFS depth of compiled blocks — the induction SCHEMES are applied by hand, each base/step case is a z3 obligation",
        "contracts of check_bb / check_cfg used as hypotheses of the lemma (read off the code, exercised by the bounded layer, not proved function-by-function here): check_bb rejects iff a local variable live before a (dummy) successor is not in ctx.locals or, for the entry block, a used local is not an input; the row passed along an edge is `live_before[succ] ∩ ctx.locals`; check_cfg visits every edge leaving a compiled block and compiles a block with the row of the first edge reaching it",
        "BB.compute_variable_stats yields exactly the names assigned in / read-before-assigned in the block: proved per block for the blocks of a program family (section variable-stats), not for arbitrary statements",
        "LivenessAnalysis returns the least solution of the liveness equations over successors and dummy successors (proved in C09)",
    ]
    chk.not_covered += ["statically dead code (statements after a statement every path of which jumps away, reads under `if False:`): guppylang checks it through dummy links as if reachable from the preceding block; the bounded oracle skips such programs",
                        "names that are neither locals nor globals are only covered by the bounded layer"]


# ------------------------------------------------------------------------------ the lemma
def lemma_section(chk):
    live_fix = z3.ForAll([b_, x_], L(b_, x_) == z3.Or(used(b_, x_), z3.And(z3.Not(asg(b_, x_)), z3.Exists([s_], z3.And(edge(b_, s_), L(s_, x_))))))
    unasg_rules = [z3.ForAll([x_], z3.Implies(z3.Not(inp(x_)), Unasg(entry, x_))),
                   z3.ForAll([p_, s_, x_], z3.Implies(z3.And(Unasg(p_, x_), z3.Not(asg(p_, x_)), edge(p_, s_)), Unasg(s_, x_)))]
    x0 = z3.Const("x0", V)

    def bad(x):
        return z3.Exists([b_], z3.And(Unasg(b_, x), used(b_, x)))
    # acceptance, as implemented (for local names): entry test + the edge test at the entry block
    accept_entry = z3.And(
        z3.ForAll([x_], z3.Implies(z3.And(used(entry, x_), loc(x_)), inp(x_))),
        z3.ForAll([s_, x_], z3.Implies(z3.And(edge(entry, s_), L(s_, x_), loc(x_)), z3.Or(inp(x_), asg(entry, x_)))))
    # ---- accept => no bad path.  Invariant P(b) := not live_before(b, x0), for a local non-input x0
    P = lambda b: z3.Not(L(b, x0))
    hyp = [live_fix, accept_entry, loc(x0)]
    chk.prove("lemma:accept=>no-bad-path/induction-base(Unasg(entry))", hyp + [z3.Not(inp(x0))], P(entry), func=f"{CHK}:check_cfg")
    p0, s0 = z3.Consts("p0 s0", B)
    chk.prove("lemma:accept=>no-bad-path/induction-step(edge)", hyp + [P(p0), z3.Not(asg(p0, x0)), edge(p0, s0)], P(s0), func=f"{CHK}:check_cfg")
    chk.prove("lemma:accept=>no-bad-path/conclusion", hyp + [z3.ForAll([b_], z3.Implies(Unasg(b_, x0), P(b_)))], z3.Not(bad(x0)), func=f"{CHK}:check_cfg")
    # ---- reject => a bad path exists
    # (E1) rejection by the entry test
    chk.prove("lemma:entry-test-rejects=>bad-path", unasg_rules + [used(entry, x0), z3.Not(inp(x0)), loc(x0)], bad(x0), func=f"{CHK}:check_bb")
    # row invariant of compiled blocks (contract of check_bb's output rows + BFS order of check_cfg)
    rows = [z3.ForAll([x_], R(entry, x_) == inp(x_)),
            z3.ForAll([b_, x_], z3.Implies(z3.And(comp(b_), b_ != entry, loc(x_)),
                                           z3.And(comp(parent(b_)), edge(parent(b_), b_), depth(parent(b_)) < depth(b_), depth(parent(b_)) >= 0,
                                                  R(b_, x_) == z3.And(L(b_, x_), z3.Or(R(parent(b_), x_), asg(parent(b_), x_))))))]
    # Lemma A: compiled(p) /\ live(p,x) /\ x not in row(p) => Unasg(p)   — induction on BFS depth
    A = lambda b: z3.Implies(z3.And(comp(b), L(b, x0), z3.Not(R(b, x0))), Unasg(b, x0))
    chk.prove("lemma:A(row-misses-live-local=>unassigned-path)/base(entry)", unasg_rules + rows + [live_fix, loc(x0)], A(entry), func=f"{CHK}:check_cfg")
    chk.prove("lemma:A/step(BFS-parent)", unasg_rules + rows + [live_fix, loc(x0), comp(p0), p0 != entry, A(parent(p0))], A(p0), func=f"{CHK}:check_cfg")
    # Lemma B: Unasg(s) /\ live(s,x) => Bad(x)  — rule induction on the LEAST liveness solution:
    # Q(b) := Unasg(b) => Bad is closed under the liveness rules
    Q = lambda b: z3.Implies(Unasg(b, x0), bad(x0))
    chk.prove("lemma:B(unassigned-path-to-live-point=>bad-path)/closure(use-rule)", unasg_rules + [used(p0, x0)], Q(p0), func=f"{CHK}:check_cfg")
    chk.prove("lemma:B/closure(propagate-rule)", unasg_rules + [z3.Not(asg(p0, x0)), edge(p0, s0), Q(s0)], Q(p0), func=f"{CHK}:check_cfg")
    # (E2) rejection by the edge test at a compiled block p, edge p->s
    chk.prove("lemma:edge-test-rejects=>bad-path", unasg_rules + rows + [live_fix, loc(x0), comp(p0), edge(p0, s0), L(s0, x0), z3.Not(R(p0, x0)), z3.Not(asg(p0, x0)),
                                                                           A(p0), z3.ForAll([b_], z3.Implies(L(b_, x0), Q(b_)))], bad(x0), func=f"{CHK}:check_bb")
    # ---- types: comparing every later edge with the first one is the same as pairwise agreement
    E = z3.DeclareSort("Edge")
    T = z3.DeclareSort("Ty")
    into = z3.Function("into", E, B, z3.BoolSort())
    ty = z3.Function("ty", E, V, T)
    first = z3.Function("first_edge", B, E)
    e1, e2 = z3.Consts("e1 e2", E)
    chk.prove("lemma:types/compare-with-first-edge<=>pairwise-equal",
              [z3.ForAll([b_], into(first(b_), b_))],
              z3.ForAll([b_, x_], z3.ForAll([e1], z3.Implies(into(e1, b_), ty(e1, x_) == ty(first(b_), x_)))
                        == z3.ForAll([e1, e2], z3.Implies(z3.And(into(e1, b_), into(e2, b_)), ty(e1, x_) == ty(e2, x_)))),
              func=f"{CHK}:check_rows_match")
    chk.must_fail("twin:accept-is-not-vacuous", [live_fix, accept_entry], z3.BoolVal(False))
    chk.must_fail("twin:entry-test-alone-does-not-suffice", [live_fix, z3.ForAll([x_], z3.Implies(z3.And(used(entry, x_), loc(x_)), inp(x_))), loc(x0), z3.Not(inp(x0))], P(entry))


# ------------------------------------------------------------------------------ CFG.analyze
def analyze_section(chk):
    e = mk_engine(chk)
    e.func_info(CFGM, "CFG.analyze")
    e.models["guppylang_internals.cfg.analysis:LivenessAnalysis"] = lambda it, a, k: SObj(ClassVal("LA"), {"run": Builtin("run", lambda bbs: it.ctx.ghost.setdefault("calls", []).append(("live", a, k, list(bbs))) or "LIVE")})
    e.models["guppylang_internals.cfg.analysis:AssignmentAnalysis"] = lambda it, a, k: SObj(ClassVal("AA"), {"run_unpacked": Builtin("run_unpacked", lambda bbs: it.ctx.ghost.setdefault("calls", []).append(("asg", a, k, list(bbs))) or ("ASS", "MAYBE"))})
    e.models[f"{CFGM}:InoutReturnSentinel"] = lambda it, a, k: ("sentinel", k.get("var"))
    import itertools
    n = 0
    for asg_sets in itertools.product([(), ("a",)], [(), ("a",)], [(), ("a",), ("b",), ("a", "b")]):
        for inputs in ((), ("c",)):
            def t(it, asg_sets=asg_sets, inputs=inputs):
                CFG = it.lookup_global(e.module(CFGM), "CFG")
                cfg = it.call(CFG, [], {})
                blocks = [cfg.fields["entry_bb"], cfg.fields["exit_bb"], it.call_method(cfg, "new_bb", [])]
                VS = it.lookup_global(e.module("guppylang_internals.cfg.bb"), "VariableStats")
                stats = {}
                for i, (bb, names) in enumerate(zip(blocks, asg_sets)):
                    # reachability is arbitrary: scoping must not depend on it
                    bb.fields["reachable"] = SBool(z3.Bool(f"reachable{i}"))
                    st = it.call(VS, [], {})
                    st.fields["assigned"] = {nm: ("node", nm) for nm in names}
                    stats[id(bb)] = st
                e.models["guppylang_internals.cfg.bb:BB.compute_variable_stats"] = lambda it2, a, k: stats[id(a[0])]
                it.call_method(cfg, "analyze", [set(inputs), set(inputs), []])
                return cfg, blocks
            paths = e.explore(t)

            def post(p, asg_sets=asg_sets, inputs=inputs):
                if p.kind != "return":
                    return z3.BoolVal(False)
                cfg, blocks = p.value
                want = set(inputs).union(*[set(s) for s in asg_sets])
                got = cfg.fields.get("assigned_somewhere")
                ok = isinstance(got, (set, frozenset)) and set(got) == want
                calls = p.ctx.ghost.get("calls", [])
                live = [c for c in calls if c[0] == "live"]
                asgc = [c for c in calls if c[0] == "asg"]
                ok = ok and len(live) == 1 and len(asgc) == 1
                if ok:
                    ok = live[0][3] == blocks and asgc[0][3] == blocks and live[0][2].get("include_unreachable") is True and asgc[0][2].get("include_unreachable") is True
                return z3.BoolVal(bool(ok))
            name = f"CFG.analyze[assigned={'|'.join(''.join(s) or '-' for s in asg_sets)},inputs={''.join(inputs) or '-'}]:assigned_somewhere==inputs∪assigned-of-ALL-blocks/\\analyses-run-over-all-blocks-with-include_unreachable"
            chk.prove_paths(name, paths, post, func=f"{CFGM}:CFG.analyze",
                            replay=lambda m: {"script": ORACLE + REPLAY_ONE, "input": {"prog": [["iffalse", [["asg", "h", "int"]]], ["use", "h"]]}})
            n += len(paths)
    chk.record("CFG.analyze:all-scenarios-explored", n >= 32, str(n), kind="reachability")
    chk.use_engine(e)


# ------------------------------------------------------------------------------ check_bb
def check_bb_section(chk):
    """The contract of check_bb that the lemma assumes, for ONE generic variable name x and one
    block: every combination of  x in inputs / assigned in the block / used in the block /
    live before each (dummy) successor / assigned somewhere / maybe assigned / global, for an entry
    and a non-entry block with 0..2 successors and 0..1 dummy successor.  The real function is
    executed; StmtChecker is modelled by its effect on ctx.locals (adds the assigned names)."""
    import itertools
    e = mk_engine(chk)
    e.func_info(CHK, "check_bb")
    m = e.module(CHK)
    CORE = "guppylang_internals.checker.core"
    shapes = [(0, 0), (1, 0), (2, 0), (1, 1), (0, 1)]
    n_obl = 0
    for is_entry in (True, False):
        for nsucc, ndummy in shapes:
            ne = nsucc + ndummy
            for bits in itertools.product((False, True), repeat=6 + ne):
                x_in_inputs, x_assigned, x_used, x_AS, x_maybe, x_global = bits[:6]
                live = bits[6:]
                if x_in_inputs and not x_AS:
                    continue        # inputs are assigned somewhere by construction (CFG.analyze, proved above)
                if x_assigned and not x_AS:
                    continue
                if not is_entry and x_used:
                    continue        # the used-test only exists for the entry block

                def t(it, is_entry=is_entry, nsucc=nsucc, ndummy=ndummy, bits=bits):
                    x_in_inputs, x_assigned, x_used, x_AS, x_maybe, x_global = bits[:6]
                    live = bits[6:]
                    f = it.lookup_global(m, "check_bb")
                    BBc = ClassVal("BB", builtin=True)
                    succs = [SObj(BBc, {"idx": 10 + i}) for i in range(nsucc)]
                    dsuccs = [SObj(BBc, {"idx": 20 + i}) for i in range(ndummy)]
                    use_bb = SObj(BBc, {"idx": 99, "vars": SObj(ClassVal("VS", builtin=True), {"used": {"x": "USE-NODE"}})})
                    bb = SObj(BBc, {"idx": 1, "predecessors": [], "successors": list(succs), "dummy_successors": list(dsuccs), "statements": ["STMTS"], "branch_pred": None,
                                    "reachable": True, "vars": SObj(ClassVal("VS", builtin=True), {"used": {"x": "USE-NODE"} if x_used else {}})})
                    entry = bb if is_entry else SObj(BBc, {"idx": 0})
                    cfg = SObj(ClassVal("CFG", builtin=True), {
                        "entry_bb": entry, "ass_before": {bb: {"x"} if x_in_inputs else set()},
                        "live_before": {s: ({"x": use_bb} if lv else {}) for s, lv in zip(succs + dsuccs, live)},
                        "assigned_somewhere": {"x"} if x_AS else set(), "maybe_ass_before": {use_bb: {"x"} if x_maybe else set()}})
                    bb.fields["containing_cfg"] = cfg
                    Var = ClassVal("Variable", builtin=True)
                    inputs = [SObj(Var, {"name": "x"})] if x_in_inputs else []
                    G = ClassVal("GlobalsStub", builtin=True)
                    G.attrs["__contains__"] = Builtin("__contains__", lambda self, k: x_global and k == "x")
                    globals_ = SObj(G, {})

                    def stmt_checker(it2, a, k):
                        ctx = a[0]
                        def check_stmts(stmts):
                            if x_assigned:
                                it.setitem(ctx.fields["locals"] if isinstance(ctx, SObj) else ctx[1], "x", SObj(Var, {"name": "x", "new": True}))
                            return ["CHECKED"]
                        return SObj(ClassVal("StmtCheckerStub", builtin=True), {"check_stmts": Builtin("check_stmts", check_stmts)})
                    e.models["guppylang_internals.checker.stmt_checker:StmtChecker"] = stmt_checker
                    e.models[f"{CHK}:diagnose_maybe_undefined"] = lambda it2, a, k: None
                    e.models[f"{CHK}:VarNotDefinedError"] = lambda it2, a, k: SObj(ClassVal("Diag", builtin=True), {"kind": "VarNotDefinedError", "var": a[1]})
                    e.models[f"{CHK}:VarMaybeNotDefinedError"] = lambda it2, a, k: SObj(ClassVal("Diag", builtin=True), {"kind": "VarMaybeNotDefinedError", "var": a[1], "add_sub_diagnostic": Builtin("asd", lambda d: None)})
                    e.models[f"{CHK}:CheckedBB"] = lambda it2, a, k: SObj(ClassVal("CheckedBBStub", builtin=True), {"sig": k.get("sig"), "successors": None, "branch_pred": None})
                    e.models["guppylang_internals.checker.expr_checker:ExprSynthesizer"] = lambda it2, a, k: SObj(ClassVal("ES", builtin=True), {"synthesize": Builtin("syn", lambda p: (p, "TY"))})
                    e.models["guppylang_internals.checker.expr_checker:to_bool"] = lambda it2, a, k: (a[0], None)
                    if nsucc > 1:
                        bb.fields["branch_pred"] = "PRED"
                    r = it.call(f, [bb, "CHECKED_CFG", inputs, "RET_TY", {}, globals_], {})
                    sig = r.fields["sig"]
                    return [[v.fields["name"] for v in row] for row in sig.fields["output_rows"]], [[v.fields["name"] for v in row] for row in sig.fields["dummy_output_rows"]]
                paths = e.explore(t)

                def post(p, is_entry=is_entry, nsucc=nsucc, ndummy=ndummy, bits=bits):
                    x_in_inputs, x_assigned, x_used, x_AS, x_maybe, x_global = bits[:6]
                    live = bits[6:]
                    defined_after = x_in_inputs or x_assigned
                    bad_entry = is_entry and x_used and not x_in_inputs and (x_AS or not x_global)
                    bad_edge = any(lv and ((x_AS and not defined_after) or (not x_AS and not x_global)) for lv in live)
                    if bad_entry or bad_edge:
                        ok = p.kind == "raise" and p.raised(e, "GuppyError") and p.value.fields["error"].fields.get("kind") in ("VarNotDefinedError", "VarMaybeNotDefinedError") \
                            and p.value.fields["error"].fields.get("var") == "x"
                        if ok and not bad_entry:
                            # the more specific message iff x may be assigned before the use
                            ok = (p.value.fields["error"].fields["kind"] == "VarMaybeNotDefinedError") == (x_AS and x_maybe)
                        return z3.BoolVal(bool(ok))
                    if p.kind != "return":
                        return z3.BoolVal(False)
                    rows, drows = p.value
                    want = [["x"] if (lv and defined_after) else [] for lv in live]
                    return z3.BoolVal(rows == want[:nsucc] and drows == want[nsucc:])
                nm = f"{'entry' if is_entry else 'inner'},succ={nsucc},dummy={ndummy},inputs={int(bits[0])},assigned={int(bits[1])},used={int(bits[2])},AS={int(bits[3])},maybe={int(bits[4])},global={int(bits[5])},live={''.join(str(int(b)) for b in bits[6:]) or '-'}"
                chk.prove_paths(f"check_bb[{nm}]:rejects(not-defined)<=>entry-use-or-live-successor-variable-without-definition/\\otherwise-row(succ)==live_before(succ)∩locals",
                                paths, post, func=f"{CHK}:check_bb", replay=lambda m_: {"script": ORACLE + REPLAY_ONE, "input": {"prog": [["use", "h"], ["asg", "h", "int"]]}})
                n_obl += 1
    chk.record("check_bb:all-membership-combinations-explored", n_obl >= 300, str(n_obl), kind="reachability")
    chk.use_engine(e)


# ------------------------------------------------------------------------------ check_cfg
def check_cfg_section(chk):
    """The traversal contract of check_cfg that the lemma assumes, on every CFG shape with the
    blocks {entry, A, B, exit}, successor lists of length <= 2 and an optional dummy successor of
    the entry block (2,197 x 2 shapes): with check_bb / check_rows_match replaced by recorders,
      (a) every block reachable from the entry is checked exactly once, with the row its BFS
          parent hands over on the connecting edge;
      (b) every other edge leaving a checked block is matched: the row on that edge against the
          input row the target was checked with;
      (c) nothing else is checked or matched."""
    import itertools
    e = mk_engine(chk)
    e.func_info(CHK, "check_cfg")
    m = e.module(CHK)
    names = ["entry", "A", "B", "exit"]
    succ_opts = [()] + [(x,) for x in (1, 2, 3)] + [(x, y) for x in (1, 2, 3) for y in (1, 2, 3)]
    n_shapes = 0
    shapes = list(itertools.product(succ_opts, repeat=3))
    if chk.tier != "thorough":
        shapes = [s for i, s in enumerate(shapes) if i % 5 == 0 or len(s[0]) == 2]
    for shape in shapes:
        for dummy in ((), (2,)):
            def t(it, shape=shape, dummy=dummy):
                f = it.lookup_global(m, "check_cfg")
                BBc = ClassVal("BB", builtin=True)
                bbs = [SObj(BBc, {"idx": i, "name": names[i]}) for i in range(4)]
                succs = {0: shape[0], 1: shape[1], 2: shape[2], 3: ()}
                reach, todo = set(), [0]
                while todo:
                    b = todo.pop()
                    if b in reach:
                        continue
                    reach.add(b)
                    todo += list(succs[b])
                # precondition, from CFGBuilder.build's pruning loop (the only producer of CFGs): no dummy
                # edge enters a reachable block and no unreachable block jumps into a reachable one
                if any(d in reach for d in dummy) or any(s in reach for b in range(4) if b not in reach for s in succs[b]):
                    return None
                for i, b in enumerate(bbs):
                    b.fields.update({"successors": [bbs[j] for j in succs[i]], "dummy_successors": [bbs[j] for j in dummy] if i == 0 else [], "reachable": i in reach,
                                     "is_exit": i == 3, "predecessors": []})
                log = []
                CB = ClassVal("CheckedBBStub", builtin=True)

                def check_bb(it2, a, k):
                    bb, ccfg, row = a[0], a[1], a[2]
                    log.append(("check", bb.fields["idx"], row))
                    i = bb.fields["idx"]
                    sig = SObj(ClassVal("Sig", builtin=True), {"input_row": row, "output_rows": [("row", i, j) for j in range(len(bb.fields["successors"]))],
                                                                "dummy_output_rows": [("drow", i, j) for j in range(len(bb.fields["dummy_successors"]))]})
                    return SObj(CB, {"idx": i, "sig": sig, "predecessors": [], "successors": [None] * len(bb.fields["successors"]), "reachable": bb.fields["reachable"]})
                e.models[f"{CHK}:check_bb"] = check_bb
                e.models[f"{CHK}:check_rows_match"] = lambda it2, a, k: log.append(("match", a[0], a[1], a[2].fields["idx"]))
                e.models[f"{CHK}:CheckedBB"] = lambda it2, a, k: SObj(CB, {"idx": a[0], "sig": k.get("sig"), "predecessors": [], "successors": [], "reachable": k.get("reachable")})
                e.models["guppylang_internals.checker.linearity_checker:check_cfg_linearity"] = lambda it2, a, k: ("LINEARITY-CHECKED", a[0])
                e.models["guppylang_internals.checker.unitary_checker:check_cfg_unitary"] = lambda it2, a, k: None
                cfg = SObj(ClassVal("CFG", builtin=True), {"bbs": bbs, "entry_bb": bbs[0], "exit_bb": bbs[3], "analyze": Builtin("analyze", lambda *a: None),
                                                           "live_before": {b: {} for b in bbs}, "ass_before": {b: set() for b in bbs}, "maybe_ass_before": {b: set() for b in bbs},
                                                           "unitary_flags": "FLAGS"})
                res = it.call(f, [cfg, [], "RET", {}, "fname", "GLOBALS"], {})
                return log, succs, dummy, reach, res
            paths = e.explore(t)
            if len(paths) == 1 and paths[0].kind == "return" and paths[0].value is None:
                continue          # shape outside the builder's invariant

            def post(p):
                if p.kind != "return":
                    return z3.BoolVal(False)
                log, succs, dummy, reach, res = p.value
                checks = [x for x in log if x[0] == "check"]
                matches = [x for x in log if x[0] == "match"]
                # edges leaving checked blocks (dummy successors only for the entry block, as enqueued by check_cfg)
                visited, todo = set(), [0] + list(dummy)
                while todo:
                    b = todo.pop()
                    if b not in visited:
                        visited.add(b)
                        todo += list(succs[b])
                edges = [(("row", pblk, j), s) for pblk in sorted(visited) for j, s in enumerate(succs[pblk])] + [(("drow", 0, j), s) for j, s in enumerate(dummy)]
                targets = {s for _, s in edges} | {0}
                checked = [c[1] for c in checks]
                ok = sorted(checked) == sorted(targets) and checks[0][1] == 0 and checks[0][2] == []
                row_of = {c[1]: c[2] for c in checks}
                used = []
                for blk in targets - {0}:
                    cand = [r for r, s in edges if s == blk and r == row_of.get(blk)]
                    ok = ok and len(cand) >= 1
                    used.append((row_of.get(blk), blk))
                rest = [(r, s) for r, s in edges if (r, s) not in used]
                ok = ok and sorted((mm[1], mm[3]) for mm in matches) == sorted(rest) and all(mm[2] == row_of.get(mm[3]) for mm in matches)
                # (d) the result handed to the linearity checker: the reachable blocks plus the exit block,
                #     in cfg.bbs order, linked along exactly the edges between reachable blocks
                ok = ok and isinstance(res, tuple) and res[0] == "LINEARITY-CHECKED"
                if ok:
                    ccfg = res[1]
                    out = ccfg.fields.get("bbs")
                    ok = [b.fields["idx"] for b in out] == [i for i in range(4) if i in reach or i == 3]
                    by = {b.fields["idx"]: b for b in out}
                    ok = ok and ccfg.fields.get("entry_bb") is by.get(0) and ccfg.fields.get("exit_bb") is by.get(3)
                    for pblk in sorted(reach):
                        ok = ok and [x.fields["idx"] if x is not None else None for x in by[pblk].fields["successors"]] == list(succs[pblk])
                        ok = ok and all(x is by[x.fields["idx"]] for x in by[pblk].fields["successors"])
                        preds = sorted(q for q in reach for s in succs[q] if s == pblk)
                        ok = ok and sorted(x.fields["idx"] for x in by[pblk].fields["predecessors"]) == preds
                return z3.BoolVal(bool(ok))
            nm =";".join(names[i] + "->" + (",".join(names[j] for j in shape[i]) or "-") for i in range(3)) + (";entry~>B" if dummy else "")
            chk.prove_paths(f"check_cfg[{nm}]:every-reachable-block-checked-once-with-its-BFS-parent's-row/\\every-other-edge-matched-against-the-target's-input-row/\\nothing-else",
                            paths, post, func=f"{CHK}:check_cfg")
            n_shapes += 1
    chk.record("check_cfg:shapes-explored", n_shapes >= 400, str(n_shapes), kind="reachability")
    chk.use_engine(e)


# ------------------------------------------------------------------------------ bounded whole-program layer
def bounded_section(chk, i, n):
    from pyvc.report import run_replay
    res = run_replay(ORACLE + DRIVER, {"tier": chk.tier, "chunk": i, "nchunks": n}, chk.repo, timeout=6000)
    if "evaluations" not in res:
        chk.undecided(f"bounded[{i}/{n}]:programs", "oracle run failed: " + json.dumps(res)[:500])
        return
    w = res.get("witness")
    o = chk.bounded_result(f"bounded[{i}/{n}]:check()-verdict==path-semantics-reference(all programs of the grammar, slice {i} of {n}; {res['total']} programs in total)",
                           not res.get("violates"), res["evaluations"],
                           detail=res.get("detail") or f"{res['evaluations']} programs judged, {res['skipped']} with statically dead code skipped",
                           witness=w and {"program": w["program"], "detail": w["detail"]}, func=f"{CHK}:check_cfg")
    if w:
        o.replay.update({"script": ORACLE + REPLAY_ONE, "input": {"prog": w["prog"]}})


# ------------------------------------------------------------------------------ variable statistics of a block
VARSTATS_EXTRA = [
    ["x: int = x + 1", "e(x)"], ["if c0():", "    z: int = z", "e(1)"], ["while c0():", "    y: int = y + x", "    e(y)"], ["z: int = 1", "z: int = z + 1", "e(z)"],
    ["xs = array(1, 2, 3)", "xs[x] = y", "xs[y] += x", "e(xs[0])"], ["a, (b, c) = x, (y, x)", "e(a + b + c)"], ["a, *b = array(x, y, 3)", "e(a)"],
    ["x = (y := x + 2) + y", "e(y)"], ["if c0():", "    w = 1", "w", "e(2)"], ["w", "w = 1"], ["x = y = x + 1", "e(y)"], ["x, y = y, x", "x, x = x, y", "e(x)"],
    ["for i in range(x):", "    x = i", "    e(i)"], ["for x in range(y):", "    e(x)", "e(x)"], ["while x < 3:", "    x = x + 1", "    y = x", "e(y)"],
    ["e(x) if c0() else e(y)", "e(z if c1() else x)"], ["x = -x", "y = not y", "e(x < y < 3)"],
]


def varstats_section(chk, chunk, nchunks):
    """BB.compute_variable_stats / VariableVisitor (cfg/bb.py), real code, on every basic block of
    the CFG the real builder produces for each program of a family (C03's statement family without
    nested functions, plus annotated / subscript / starred / chained assignments): the names the
    block ASSIGNS and the names it READS BEFORE ASSIGNING THEM must be exactly those CPython's own
    compiler emits STORE_NAME / LOAD_NAME for, in evaluation order, when it compiles the block's
    statements and predicate as straight-line code.  (The liveness and assignment analyses, and so
    every 'not defined' / 'different types' verdict, start from these two sets.)"""
    import dis
    from . import C03 as C3
    from . import cfgsem as S
    BBM = "guppylang_internals.cfg.bb"
    e = C3.cfg_engine(chk)
    for q in ("BB.compute_variable_stats", "VariableVisitor._update_used", "VariableVisitor.visit_Name", "VariableVisitor.visit_Assign", "VariableVisitor.visit_AugAssign",
              "VariableVisitor.visit_AnnAssign", "VariableVisitor._handle_assign_target"):
        e.func_info(BBM, q)
    progs = []
    for src in S.programs(chk.tier):
        body = src.splitlines()[6:]          # without the nested-function prologue
        if any("g(" in l for l in body):
            continue
        progs.append("def f():\n    x = 0\n    y = 1\n" + "\n".join(body) + "\n")
    for b in VARSTATS_EXTRA:
        progs.append("def f():\n    x = 0\n    y = 1\n" + "\n".join("    " + l for l in b) + "\n    e(x)\n    e(y)\n")
    mine = list(enumerate(progs))[chunk::nchunks]
    n_ok = 0
    for gi, src in mine:
        def t(it, src=src):
            from .common import ast_from_source
            m = e.module(C3.B)
            it.ctx.mod_globals(m)["tmp_vars"] = [f"%tmp{i}" for i in range(300)]
            CB = it.lookup_global(m, "CFGBuilder")
            fd = ast_from_source(it, src).fields["body"][0]
            cfg = it.call_method(it.call(CB, [], {}), "build", [fd.fields["body"], True, SObj(ClassVal("Globals", builtin=True), {})])
            out = []
            for bb in cfg.fields["bbs"]:
                st = it.call_method(bb, "compute_variable_stats", [])
                out.append((bb, sorted(st.fields["assigned"].keys()), sorted(st.fields["used"].keys())))
            return out
        paths = e.explore(t)
        whys = []

        def post(p, src=src):
            if p.kind != "return":
                whys.append(f"{p.kind}: {p.value!r:.200}")
                return z3.BoolVal(False)
            for bb, assigned, used in p.value:
                try:
                    reals = [C3.to_real_ext(st) for st in bb.fields["statements"]]
                    # `return v` reads what `v` reads (module-level code cannot contain a return)
                    reals = [(__import__("ast").Expr(r.value) if r.value is not None else __import__("ast").Pass()) if isinstance(r, __import__("ast").Return) else r for r in reals]
                    # an annotation is not a variable read of the program (module-level compilation would evaluate it)
                    _a = __import__("ast")
                    reals = [(_a.Assign([r.target], r.value) if r.value is not None else _a.Pass()) if isinstance(r, _a.AnnAssign) else r for r in reals]
                    text = "\n".join(S._text(r) for r in reals)
                    if bb.fields["branch_pred"] is not None:
                        text += "\n(" + S._text(C3.to_real_ext(bb.fields["branch_pred"])) + ")"
                except S.CfgShapeError as ex:
                    whys.append(f"shape: {ex}")
                    return z3.BoolVal(False)
                ref_a, ref_u = set(), set()
                for ins in dis.get_instructions(compile(text, "<bb>", "exec")):
                    nm = ins.argval if isinstance(ins.argval, str) else None
                    if nm is None or nm in ("__make_iter", "__iter_next"):
                        continue
                    nm = nm.replace("_pct_", "%")
                    if ins.opname in ("LOAD_NAME", "LOAD_GLOBAL") and nm not in ref_a:
                        ref_u.add(nm)
                    elif ins.opname == "STORE_NAME":
                        ref_a.add(nm)
                if sorted(ref_a) != assigned or sorted(ref_u) != used:
                    whys.append(f"block `{text.replace(chr(10), ' ; ')}`: assigned {assigned} / read-before-assigned {used}; CPython's compiler: {sorted(ref_a)} / {sorted(ref_u)}")
                    return z3.BoolVal(False)
            return z3.BoolVal(True)
        body = " ; ".join(l.strip() for l in src.splitlines()[3:-2])
        outs = chk.prove_paths(f"compute_variable_stats[#{gi}: {body[:80]}]:per-block-assigned/read-before-assigned==CPython's-STORE/LOAD-order", paths, post, func=f"{BBM}:BB.compute_variable_stats")
        for o in outs:
            if o.status == "refuted" and whys:
                o.detail = (o.detail + " " if o.detail else "") + whys[0]
        n_ok += 1
    chk.record(f"compute_variable_stats:programs-explored[chunk {chunk}]", n_ok >= 8, str(n_ok), kind="reachability")
    chk.use_engine(e)


def cfg_uses_section(chk):
    """Every read of a variable in the source is a read in some basic block: the real CFGBuilder is
    run on the use/def family (bare-name statements, annotated / chained / starred assignments,
    reads in conditions and loop headers) and the CFG, executed block by block, must fail with an
    unbound variable exactly where CPython does, for every decision sequence (C03's machinery)."""
    from . import C03 as C3
    e = C3.cfg_engine(chk)
    progs = ["def f():\n    x = 0\n    y = 1\n" + "\n".join("    " + l for l in b) + "\n    e(x)\n    e(y)\n" for b in VARSTATS_EXTRA]
    n = C3.cfg_obligations(chk, e, list(enumerate(progs)), 4, what="the-CFG-reads-(and-fails-on-unbound)-exactly-the-variables-Python-reads")
    chk.record("cfg-uses:programs-explored", n == len(progs), str(n), kind="reachability")
    chk.use_engine(e)


def nested_uses_section(chk):
    """VariableVisitor.visit_NestedFunctionDef / visit_ModifiedBlock (cfg/bb.py): the outer variables a nested
    body needs are the variables live at its entry, computed the way the body is CHECKED later — unreachable
    code included (check_cfg analyses the nested CFG with include_unreachable=True) — minus what the block
    assigned before, the function's own name and its parameters.  If the two analyses disagree, a variable
    read only in unreachable code of the body is not passed on from an earlier block and the body is
    rejected with 'not defined' although every path assigns it."""
    BBM = "guppylang_internals.cfg.bb"
    e = mk_engine(chk)
    for q in ("VariableVisitor.visit_NestedFunctionDef", "VariableVisitor.visit_ModifiedBlock"):
        e.func_info(BBM, q)
    m = e.module(BBM)
    for meth in ("visit_NestedFunctionDef", "visit_ModifiedBlock"):
        def t(it, meth=meth):
            VV = it.lookup_global(m, "VariableVisitor")
            VS = it.lookup_global(m, "VariableStats")
            log = []
            ubb = lambda n_: SObj(ClassVal("BB", builtin=True), {"vars": SObj(ClassVal("Stats", builtin=True), {"used": {n_: f"USE-{n_}"}})})  # noqa: E731
            entry = SObj(ClassVal("BB", builtin=True), {"compute_variable_stats": Builtin("cvs", lambda: "STATS-E")})
            live = {entry: {"outer": ubb("outer"), "dead_only": ubb("dead_only"), "before": ubb("before"), "p": ubb("p"), "inner": ubb("inner")}}

            def LA(it2, a, k):
                log.append(("LivenessAnalysis", dict(k), len(a)))
                return SObj(ClassVal("LA", builtin=True), {"run": Builtin("run", lambda bbs: live)})
            e.models["guppylang_internals.cfg.analysis:LivenessAnalysis"] = LA
            cfg = SObj(ClassVal("CFG", builtin=True), {"bbs": [entry], "entry_bb": entry})
            stats = it.call(VS, [{"before": "ASSIGNED-BEFORE"}, {}], {})
            vis = SObj(VV, {"stats": stats, "bb": None})
            if meth == "visit_NestedFunctionDef":
                # a real function node: `inner(p)` contains a deeper function whose PARAMETER is named like the
                # outer variable `outer` that inner itself reads — only inner's own parameters may be subtracted
                from .common import ast_from_source
                fd = ast_from_source(it, "def inner(p):\n    def deep(outer, dead_only=1):\n        return outer\n    return outer + p\n").fields["body"][0]
                NFD = it.lookup_global(e.module("guppylang_internals.nodes"), "NestedFunctionDef")
                node = SObj(NFD, dict(fd.fields, cfg=cfg))
            else:
                node = SObj(ClassVal("ModifiedBlock", builtin=True), {"cfg": cfg, "control": [], "power": []})
            f, _ = VV.lookup(meth)
            it.call(f, [vis, node], {})
            return dict(stats.fields["used"]), dict(stats.fields["assigned"]), log
        paths = e.explore(t)

        def post(p, meth=meth):
            if p.kind != "return":
                return z3.BoolVal(False)
            used, assigned, log = p.value
            las = [x for x in log if x[0] == "LivenessAnalysis"]
            ok = len(las) == 1 and las[0][1].get("include_unreachable") is True
            if meth == "visit_NestedFunctionDef":
                ok = ok and used == {"outer": "USE-outer", "dead_only": "USE-dead_only"} and assigned.get("inner") is not None and "before" in assigned
            else:
                ok = ok and used == {"outer": "USE-outer", "dead_only": "USE-dead_only", "p": "USE-p", "inner": "USE-inner"}
            return z3.BoolVal(bool(ok))
        chk.prove_paths(f"VariableVisitor.{meth}:outer-uses==live-at-the-body's-entry(unreachable-code-included,as-in-the-later-check)-minus-own-bindings", paths, post,
                        func=f"{BBM}:VariableVisitor.{meth}", replay=lambda m_: {"script": REPLAY_NESTED_DEAD, "input": {}})
    chk.use_engine(e)


REPLAY_NESTED_DEAD = r'''
import tempfile, importlib.util, os, sys, shutil
import guppylang
guppylang.enable_experimental_features()
from guppylang_internals.error import GuppyError
src = """from guppylang import guppy
@guppy
def f(c: bool) -> int:
    x = 1
    if c:
        pass
    def inner() -> int:
        if False:
            return x
        return 0
    return inner()
"""
d = tempfile.mkdtemp(dir=os.environ.get("TMPDIR", "/var/tmp")); fn = os.path.join(d, "replay_c08n.py"); open(fn, "w").write(src)
spec = importlib.util.spec_from_file_location("replay_c08n", fn); m = importlib.util.module_from_spec(spec); sys.modules["replay_c08n"] = m
try:
    spec.loader.exec_module(m)
    try:
        m.f.check(); out = {"violates": False, "observed": "accepted"}
    except GuppyError as ex:
        out = {"violates": True, "observed": "rejected: " + type(ex.error).__name__, "required": "x is assigned on every path; the program has neither problem and must be accepted"}
except Exception as ex:
    out = {"violates": False, "error": repr(ex)[:300]}
shutil.rmtree(d, ignore_errors=True)
print(json.dumps(out))
'''
