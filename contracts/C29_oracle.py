"""Native oracle for C29 (runs under /venv/bin/python with the compat shim, on the real code).

`check_render(lines, diag)` renders a diagnostic with the real DiagnosticsRenderer and checks the
output against the property statement by PARSING it (no reference renderer):
  * rendering terminates without an exception;
  * every numbered line shows the true text of the source line with that number, minus a common
    whitespace-only prefix (the same number of columns on every line of the snippet);
  * exactly the expected lines are shown (context lines, first and last line of the span);
  * highlight markers sit exactly under the spanned columns;
  * the words of every label/message are the words of the rendered text, in order (no word is
    split, dropped or duplicated: lines are wrapped only at whitespace).
This text is exec'd by the replay scripts and the bounded finder of contracts/C29.py.
"""
ORACLE = r'''
import re
from dataclasses import dataclass
from typing import ClassVar
from guppylang_internals.diagnostic import DiagnosticsRenderer, Error, Note, Help, wrap
from guppylang_internals.span import SourceMap, Span, Loc

def mk_span(s):
    return None if s is None else Span(Loc("f", s[0], s[1]), Loc("f", s[2], s[3]))

def mk_diag(d):
    @dataclass(frozen=True)
    class E(Error):
        title: ClassVar[str] = "{t}"
        span_label: ClassVar[str | None] = None
        message: ClassVar[str | None] = None
        t: str = ""
        l: str | None = None
        m: str | None = None
        @property
        def rendered_span_label(self): return self.l
        @property
        def rendered_message(self): return self.m
    @dataclass(frozen=True)
    class N(Note):
        l: str | None = None
        m: str | None = None
        @property
        def rendered_span_label(self): return self.l
        @property
        def rendered_message(self): return self.m
    e = E(mk_span(d.get("span")), d.get("title", "Title"), d.get("label"), d.get("message"))
    for c in d.get("children", []):
        e.add_sub_diagnostic(N(mk_span(c.get("span")), c.get("label"), c.get("message")))
    return e

def words(s):
    return s.split()

KNOWN_SPLITS = []

def same_words(got, want):
    """True if the rendered words are the expected words.  Recorded deviation (open finding
    C29-overlong-words-are-split), recognised exactly: a word longer than the line width W of the block
    (60 for labels, 80 for messages) appears as consecutive pieces — the rest of the current line, then full lines of W characters, then
    the remainder — whose concatenation is the word — then the comparison succeeds and the occurrence is counted."""
    i, splits = 0, []
    for w in want:
        if i < len(got) and got[i] == w:
            i += 1; continue
        ok = False
        j, acc, pieces = i, "", []
        while acc != w and j < len(got) and w.startswith(acc + got[j]):
            acc += got[j]; pieces.append(got[j]); j += 1
        for W in (60, 80):
            # textwrap fills what is left of the current line, then full lines, then the remainder
            if acc == w and len(w) > W and len(pieces) >= 2 and len(pieces[0]) <= W and len(pieces[-1]) <= W and all(len(p_) == W for p_ in pieces[1:-1]):
                i = j; splits.append((w, W)); ok = True; break
        if not ok:
            return False
    if i != len(got):
        return False
    KNOWN_SPLITS.extend(splits)
    return True

def check_render(lines, d):
    sm = SourceMap(); sm.sources["f"] = list(lines)
    r = DiagnosticsRenderer(sm)
    try:
        r.render_diagnostic(mk_diag(d))
    except BaseException as ex:
        return "rendering raised " + repr(ex)[:200]
    buf = list(r.buffer)
    return check_buffer(lines, d, buf)

def check_buffer(lines, d, buf):
    pos = 0
    def take():
        nonlocal pos
        if pos >= len(buf): raise LookupError("output ends early (line %d)" % pos)
        pos += 1
        return buf[pos - 1]
    def text_block(expected_text, what):
        # consume lines up to the next blank line / end; their words must be the expected words
        nonlocal pos
        got = []
        if not words(expected_text):
            # text without any word: rendered as one empty line
            return None if take().strip() == "" else f"{what}: expected an empty line"
        while pos < len(buf) and buf[pos] != "":
            got.append(buf[pos]); pos += 1
        if not same_words(words(" ".join(got)), words(expected_text)):
            return f"{what}: words {words(' '.join(got))!r} != {words(expected_text)!r}"
        return None
    try:
        span = d.get("span")
        kids = d.get("children", [])
        if span is None:
            msg = d.get("message") or d.get("title", "Title")
            bad = text_block("Error: " + msg, "message")
            if bad: return bad
        else:
            head = take()
            if head != f"Error: {d.get('title', 'Title')} (at f:{span[0]}:{span[1]})":
                return "title line: " + repr(head)
            spans = [(span, d.get("label"), "^", 2)] + [(c["span"], c.get("label"), "-", 0) for c in kids if c.get("span") is not None]
            D = len(str(max(s[0][2] for s in spans)))
            bar = " " * D + " | "
            for (sl, sc, el, ec), label, hc, prefix in spans:
                if take() != bar: return f"padding line expected at {pos - 1}: {buf[pos - 1]!r}"
                p = min(prefix, sl - 1)
                rm = None
                def numbered(n):
                    nonlocal rm
                    ln = take()
                    want_pfx = " " * (D - len(str(n))) + str(n) + " | "
                    if not ln.startswith(want_pfx): return f"line {n}: gutter {ln[:D + 3]!r} != {want_pfx!r}"
                    shown, orig = ln[len(want_pfx):], lines[n - 1]
                    k = len(orig) - len(shown)
                    if k < 0 or orig[k:] != shown or orig[:k].strip() != "": return f"line {n}: shows {shown!r}, source is {orig!r}"
                    if rm is None: rm = k
                    elif rm != k: return f"line {n}: trimmed by {k} columns, other lines by {rm}"
                    return None
                for n in range(sl - p, sl + 1):
                    bad = numbered(n)
                    if bad: return bad
                def label_after(prefix_str):
                    # the highlight line and its continuation lines
                    ln = take()
                    if not ln.startswith(bar + prefix_str): return f"highlight {ln!r} does not start with {bar + prefix_str!r}"
                    rest = ln[len(bar + prefix_str):]
                    if rest[:1] == hc: return f"too many markers in {ln!r}"
                    got = [rest]
                    nonlocal pos
                    while pos < len(buf) and buf[pos] != "" and buf[pos] != bar and buf[pos].startswith(bar) and buf[pos][len(bar):].startswith(" " * (len(prefix_str) + 1)):
                        got.append(buf[pos][len(bar):]); pos += 1
                    if not same_words(words(" ".join(got)), words(label or "")): return f"label words {words(' '.join(got))!r} != {words(label or '')!r}"
                    if rest and not rest.startswith(" "): return f"label glued to the markers: {ln!r}"
                    return None
                if sl == el:
                    if rm > sc: return f"trimmed {rm} columns but the span starts at column {sc}"
                    bad = label_after(" " * (sc - rm) + hc * (ec - sc))
                    if bad: return bad
                else:
                    ln = take()
                    want = bar + " " * (sc - rm) + hc * (len(lines[sl - 1]) - sc)
                    if ln != want: return f"first-line highlight {ln!r} != {want!r}"
                    if el - sl >= 2:
                        if take() != bar + "...": return "missing '...' for omitted lines"
                    bad = numbered(el)
                    if bad: return bad
                    if rm > ec: return f"trimmed {rm} columns but the span ends at column {ec}"
                    bad = label_after(hc * (ec - rm))
                    if bad: return bad
            if d.get("message"):
                if take() != "": return "blank line before the message expected"
                bad = text_block(d["message"], "message")
                if bad: return bad
        for c in kids:
            if c.get("message"):
                if take() != "": return "blank line before a sub-diagnostic message expected"
                bad = text_block("Note: " + c["message"], "sub-diagnostic message")
                if bad: return bad
        if pos != len(buf): return f"unexpected trailing output from line {pos}: {buf[pos:pos + 3]!r}"
    except LookupError as ex:
        return str(ex)
    return None
'''
