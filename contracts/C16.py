"""C16 — Implicit numeric coercions only widen.

Functions under contract: NumericType.Kind (auto numbering + __lt__), expr_checker.try_coerce_to,
the coercion branch of check_type_against, and (binding-table mode) nat.__int__, nat.__float__,
int.__float__.  The 3x3 kind domain is enumerated exhaustively (a complete proof); values are
64-bit vectors / binary64.
"""
import z3

from pyvc import SObj, ClassVal, Builtin, PyRaise
from .common import mk_engine, ast_from_source
from . import bindings as B
from . import guppysem as G
from .C04 import extract_tables, install_class_models, fresh_arg, terms, NUM

TITLE = "implicit coercion relation is exactly nat<int<float, calls the direct conversion, and the conversions preserve values"
EC = "guppylang_internals.checker.expr_checker"
TY = "guppylang_internals.tys.ty"
KINDS = ["Nat", "Int", "Float"]
ORDER = {"Nat": 0, "Int": 1, "Float": 2}

REPLAY = r'''
from guppylang import guppy
from guppylang.std.builtins import nat, comptime, result
import tempfile, importlib.util, os, sys, shutil
I = INPUT
src = "from guppylang import guppy\nfrom guppylang.std.builtins import nat, comptime, result\nV=%d\n" % I["v"] + f"""
@guppy
def conv(x: {I['src']}) -> {I['dst']}:
    return x
@guppy
def main() -> None:
    v: {I['src']} = comptime(V)
    result("r", conv(v))
"""
d = tempfile.mkdtemp(dir=os.environ.get("TMPDIR", "/var/tmp")); fn = os.path.join(d, "replay_c16.py"); open(fn, "w").write(src)
spec = importlib.util.spec_from_file_location("replay_c16", fn); m = importlib.util.module_from_spec(spec); sys.modules["replay_c16"] = m
try:
    spec.loader.exec_module(m)
    res = m.main.emulator(n_qubits=1).run()
    got = list(list(res.results)[0].entries)[0][1]
    want = float(I["v"]) if I["dst"] == "float" else I["v"]
    out = {"violates": got != want, "observed": got, "required": want}
except Exception as ex:
    out = {"violates": False, "error": repr(ex)[:300]}
shutil.rmtree(d, ignore_errors=True)
print(json.dumps(out))
'''

def _numty(e, it, k):
    NT = it.lookup_global(e.module(TY), "NumericType")
    return it.call(NT, [it.getattr(it.getattr(NT, "Kind"), k)], {})


def _mk_ctx(it, log):
    def gif(ty, name):
        log.append(("get_instance_func", ty, name))

        def check_call(args, exp, node, ctx):
            log.append(("check_call", ty, name, list(args), exp))
            return (("COERCED", name, args[0]), {})
        return SObj(ClassVal("Func"), {"check_call": Builtin("check_call", check_call)})
    return SObj(ClassVal("Ctx"), {"globals": SObj(ClassVal("Globals"), {"get_instance_func": Builtin("gif", gif)})})


def try_coerce_obligations(chk, e, tag=""):
    """try_coerce_to over all kind pairs (+ a non-numeric actual / expected): coerces iff strictly
    widening, by ONE direct call of the conversion method named after the target kind (so
    nat -> float goes through nat.__float__ = convert_u, never through a signed reading).
    Shared with C04 (mixed-type operands reach the operator through this function)."""
    e.func_info(EC, "try_coerce_to")
    # implicit widening of the LEFT operand happens through the reflected operator (shared with C04)
    from .C04 import operator_table_obligations
    operator_table_obligations(chk, e, tag="widening-through-reflection:")

    numty = lambda it, k: _numty(e, it, k)  # noqa: E731
    mk_ctx = _mk_ctx
    cases = [(a, b) for a in KINDS + ["None"] for b in KINDS + ["None"]]
    for a, b in cases:
        def t(it, a=a, b=b):
            m = e.module(EC)
            NoneT = it.lookup_global(e.module(TY), "NoneType")
            act = it.call(NoneT, [], {}) if a == "None" else numty(it, a)
            exp = it.call(NoneT, [], {}) if b == "None" else numty(it, b)
            log = []
            r = it.call(it.lookup_global(m, "try_coerce_to"), [act, exp, "NODE", mk_ctx(it, log)], {})
            return r, log, act, exp
        paths = e.explore(t)

        def post(p, a=a, b=b):
            if p.kind != "return":
                return z3.BoolVal(False)
            r, log, act, exp = p.value
            widen = a != "None" and b != "None" and ORDER[a] < ORDER[b]
            if not widen:
                return z3.BoolVal(r is None and log == [])
            name = f"__{b.lower()}__"
            ok = (r == ("COERCED", name, "NODE") and len(log) == 2 and log[0] == ("get_instance_func", act, name)
                  and log[1][:3] == ("check_call", act, name) and log[1][3] == ["NODE"]
                  and isinstance(log[1][4], SObj) and log[1][4].cls.name == "NumericType" and log[1][4].fields["kind"] is exp.fields["kind"])
            return z3.BoolVal(ok)
        chk.prove_paths(f"{tag}try_coerce_to({a}->{b}):coerces<=>strictly-widening/\\calls-{a}.__{b.lower()}__-directly-once", paths, post, func=f"{EC}:try_coerce_to",
                        replay=(lambda m, a=a, b=b: {"script": REPLAY, "input": {"src": a.lower(), "dst": b.lower(), "v": (1 << 63) if a == "Nat" else -5}})
                        if (a != "None" and b != "None" and ORDER[a] < ORDER[b]) else None)



def run(chk):
    e = mk_engine(chk)
    B.install_models(e)
    worldref = [None]
    install_class_models(e, worldref)
    e.func_info(TY, "NumericType.Kind.__lt__")
    e.func_info(EC, "try_coerce_to")
    e.func_info(EC, "check_type_against")

    numty = lambda it, k: _numty(e, it, k)  # noqa: E731
    mk_ctx = _mk_ctx

    # ---- Kind ordering == Nat < Int < Float
    for a in KINDS:
        for b in KINDS:
            def t(it, a=a, b=b):
                NT = it.lookup_global(e.module(TY), "NumericType")
                K = it.getattr(NT, "Kind")
                return it.cmp("<", it.getattr(K, a), it.getattr(K, b))
            paths = e.explore(t)
            chk.prove_paths(f"Kind.{a}<Kind.{b}=={ORDER[a] < ORDER[b]}", paths,
                            lambda p, a=a, b=b: z3.BoolVal(p.kind == "return" and p.value is (ORDER[a] < ORDER[b])), func=f"{TY}:NumericType.Kind.__lt__")

    try_coerce_obligations(chk, e)

    # ---- check_type_against: coercion only after unification failed, never the reverse direction
    e.models["guppylang_internals.checker.errors.type_errors:TypeMismatchError"] = lambda it2, a, k: SObj(ClassVal("Diag"), {"kind": "TypeMismatchError"})
    for a in KINDS:
        for b in KINDS:
            def t(it, a=a, b=b):
                m = e.module(EC)
                log = []
                node = ast_from_source(it, "x", "eval").fields["body"]
                r = it.call(it.lookup_global(m, "check_type_against"), [numty(it, a), numty(it, b), node, mk_ctx(it, log)], {})
                return r, log, node
            paths = e.explore(t)

            def post(p, a=a, b=b):
                if a == b:
                    return z3.BoolVal(p.kind == "return" and p.value[0][0] is p.value[2] and p.value[1] == [] and p.value[0][1] == {} and p.value[0][2] == [])
                if ORDER[a] < ORDER[b]:
                    return z3.BoolVal(p.kind == "return" and isinstance(p.value[0][0], tuple) and p.value[0][0][:2] == ("COERCED", f"__{b.lower()}__"))
                return z3.BoolVal(p.kind == "raise" and p.raised(e, "GuppyTypeError"))
            chk.prove_paths(f"check_type_against(act={a},exp={b}):same->as-is;widening->coerced;narrowing->GuppyTypeError", paths, post, func=f"{EC}:check_type_against")

    # ---- values: the three conversion methods preserve the value whenever representable
    tables = extract_tables(e, chk)
    if tables is None:
        return
    from .C04 import reversing_checker_obligations
    reversing_checker_obligations(chk, e, tables, tag="widening-through-reflection:")
    for cls, meth in (("nat", "__int__"), ("nat", "__float__"), ("int", "__float__")):
        e.func_info(NUM, f"{cls}.{meth}")
    x = z3.BitVec("x0", 64)

    def conv(src, meth):
        def t(it):
            w = G.GuppyWorld(e, it, tables)
            worldref[0] = w
            return w.gcall(src, meth, [fresh_arg(src, "x0")])
        return e.explore(t)

    def rp(src, dst):
        def f(m):
            v = m.eval(x, model_completion=True).as_long()
            if src == "int" and v >= 1 << 63:
                v -= 1 << 64
            return {"script": REPLAY, "input": {"src": src, "dst": dst, "v": v}}
        return f
    chk.prove_paths("nat.__int__:total(no panic for any nat)/\\same-bit-pattern(value preserved below 2^63, reduced modulo 2^64 above)", conv("nat", "__int__"),
                    lambda p: z3.BoolVal(False) if p.kind != "return" else z3.And(z3.BoolVal(p.value.ty == "int"), terms(p.value) == x, z3.Implies(x >= 0, z3.BV2Int(terms(p.value), True) == z3.BV2Int(x, False))),
                    func=f"{NUM}:nat.__int__", replay=rp("nat", "int"))
    chk.prove_paths("nat.__float__:==round-to-nearest(unsigned value)", conv("nat", "__float__"),
                    lambda p: z3.BoolVal(False) if p.kind != "return" else terms(p.value) == z3.fpUnsignedToFP(G.RNE, x, G.FP),
                    func=f"{NUM}:nat.__float__", replay=rp("nat", "float"))
    chk.prove_paths("int.__float__:==round-to-nearest(signed value)", conv("int", "__float__"),
                    lambda p: z3.BoolVal(False) if p.kind != "return" else terms(p.value) == z3.fpSignedToFP(G.RNE, x, G.FP),
                    func=f"{NUM}:int.__float__", replay=rp("int", "float"))
    chk.must_fail("twin:signed-and-unsigned-float-conversion-differ", [], z3.fpUnsignedToFP(G.RNE, x, G.FP) == z3.fpSignedToFP(G.RNE, x, G.FP))
    chk.assumptions.append("ASSUMED: hugr convert_u / convert_s round the unsigned / signed reading to nearest-even; NoopCompiler emits no op (bit pattern unchanged)")
    chk.assumptions.append("Context.globals.get_instance_func / check_call are mocked: the obligation is which method of which type is requested, with which arguments")
    chk.expected_min_obligations = 35
    # array literals: an element is coerced towards the element type fixed by the EARLIER elements,
    # never the other way round (shared obligation with C12)
    from .C12 import array_literal_threading
    array_literal_threading(chk, e, tag="array-literal:")
    chk.use_engine(e)
    chk.section("widening-sites", lambda: widening_sites(chk))


REPLAY_SITES = r'''
import tempfile, importlib.util, os, sys, shutil
from guppylang_internals.error import GuppyError
SITES = {
    "variable-assigned": ("def f() -> float:\n    y = g()\n    x: float = y\n    return x\n", True),
    "literal-assigned": ("def f() -> float:\n    x: float = 3\n    return x\n", True),
    "operator-result-assigned": ("def f(n: int) -> float:\n    x: float = n + 1\n    return x\n", True),
    "variable-argument": ("def f(n: int) -> float:\n    return h(n)\n", True),
    "variable-returned": ("def f(n: nat) -> int:\n    return n\n", True),
    "call-result-assigned": ("def f() -> float:\n    x: float = g()\n    return x\n", True),
    "call-result-returned": ("def f() -> float:\n    return g()\n", True),
    "call-result-argument": ("def f() -> float:\n    return h(g())\n", True),
    "comptime-value-assigned": ("def f() -> float:\n    x: float = comptime(3)\n    return x\n", True),
    "subscript-assignment": ("def f(n: nat) -> None:\n    xs = array(1.0, 2.0)\n    xs[0] = n\n", True),
    "narrowing-call-result": ("def f() -> int:\n    x: int = hf()\n    return x\n", False),
    "narrowing-variable": ("def f(z: float) -> int:\n    x: int = z\n    return x\n", False),
    "narrowing-int-to-nat": ("def f(z: int) -> nat:\n    return z\n", False),
}
I = INPUT
body, want = SITES[I["site"]]
src = """from guppylang import guppy
from guppylang.std.builtins import array, comptime, nat
@guppy
def g() -> int:
    return 1
@guppy
def hf() -> float:
    return 1.5
@guppy
def h(x: float) -> float:
    return x
@guppy
""" + body
d = tempfile.mkdtemp(dir=os.environ.get("TMPDIR", "/var/tmp")); fn = os.path.join(d, "replay_c16s.py"); open(fn, "w").write(src)
spec = importlib.util.spec_from_file_location("replay_c16s", fn); m = importlib.util.module_from_spec(spec); sys.modules["replay_c16s"] = m
spec.loader.exec_module(m)
try:
    m.f.check(); got = True
except GuppyError as ex:
    got = False; err = type(ex.error).__name__
shutil.rmtree(d, ignore_errors=True)
print(json.dumps({"violates": got != want, "evaluations": 1, "observed": "accepted" if got else "rejected", "required": "accepted (widening)" if want else "rejected (narrowing)",
                  "detail": f"{I['site']}: {'accepted' if got else 'rejected'}, required {'accepted' if want else 'rejected'}"}))
'''


def widening_sites(chk):
    """BOUNDED: one program per SITE at which an int/nat value meets an expected int/float type (and three
    narrowing controls): widening sites are accepted, narrowing ones rejected."""
    import json
    from pyvc.report import run_replay
    for site in ("variable-assigned", "literal-assigned", "operator-result-assigned", "variable-argument", "variable-returned", "call-result-assigned", "call-result-returned",
                 "call-result-argument", "comptime-value-assigned", "subscript-assignment", "narrowing-call-result", "narrowing-variable", "narrowing-int-to-nat"):
        res = run_replay(REPLAY_SITES, {"site": site}, chk.repo, timeout=600)
        if "evaluations" not in res:
            chk.undecided(f"bounded:widening-site[{site}]", "oracle run failed: " + json.dumps(res)[:600])
            continue
        o = chk.bounded_result(f"bounded:widening-site[{site}]:widening-accepted/narrowing-rejected", not res.get("violates"), 1, detail=res.get("detail"),
                               witness={"site": site, "observed": res.get("observed")} if res.get("violates") else None, func=f"{EC}:check_call")
        if res.get("violates"):
            o.replay.update({"script": REPLAY_SITES, "input": {"site": site}})

