"""C31 — Printed types read back as the same type.

Functions under contract (tys/printing.py): TypePrinter._visit_TupleType,
_visit_OpaqueType_StructType, _visit_NoneType, _visit_NumericType, _visit_ConstValue,
_visit_TypeArg/_visit_ConstArg, _fresh_name, _visit_ExistentialVar, _visit_FunctionType (naming).

 T  templates (pyvc + CPython's own parser): each printer method is executed on a node whose
    children print as placeholder names; the resulting text must parse, with `ast.parse`, to the
    Python expression shape the annotation parser maps back to the same constructor with the
    same children (tuple display with n elements, `name[...]` with n arguments, `None`, a name,
    a literal).  This is the induction step of the round-trip argument; that Python's grammar is
    compositional for bracketed sub-expressions is assumed.
 N  names: `_fresh_name` never returns the same name twice (all request sequences up to length 5
    over two display names); distinct existential variables — inside or outside a quantified
    function type, in any order — get distinct names and the same variable keeps its name.
 B  BOUNDED: print/parse round trip through the real annotation parser for every annotation of a
    pool (contracts/C31_oracle.py; quick: depth 2 = 747 types, thorough: depth 3 sample).
Recorded deviation: a tuple that is the ONLY argument of a generic type prints as `G[(a, b)]`,
which Python's grammar reads as the argument list `G[a, b]`.
"""
import ast
import itertools
import json
import z3

from pyvc import SObj, ClassVal, Builtin, PyRaise
from .common import mk_engine
from .C13 import K
from .C31_oracle import ORACLE, DRIVER, REPLAY_ONE

TITLE = "type printer: every constructor prints a Python expression of the shape the annotation parser inverts; fresh names are distinct; round trip on a type pool"
PR = "guppylang_internals.tys.printing"
NCH = 8


def run(chk):
    chk.section("templates", lambda: templates(chk))
    chk.section("names", lambda: names(chk))
    chk.section("const-values", lambda: const_values(chk))
    for i in range(NCH):
        chk.section(f"bounded-{i}", lambda i=i: bounded(chk, i))
    chk.expected_min_obligations = 30
    chk.assumptions += ["Python's expression grammar is compositional for parenthesised / bracketed sub-expressions (CPython ast.parse is used as the reference parser for the templates)",
                        "the annotation parser maps ast.Tuple to TupleType of its elements, `name[args]` to the named definition applied to the arguments, None/names/literals to the corresponding leaves (read off tys/parsing.py; exercised end-to-end by the bounded layer)",
                        "argument / element counts 0..3 are enumerated for the templates"]
    chk.not_covered += ["function types (excluded by the property)", "two definitions with the same name in scope", "float constants inf/nan and negative integer constants as type arguments"]


REPLAY_CONST_NAMES = r'''
from guppylang_internals.tys.ty import TupleType, NumericType, ExistentialTypeVar
from guppylang_internals.tys.const import ExistentialConstVar
from guppylang_internals.tys.builtin import array_type, nat_type, int_type
from guppylang_internals.tys.arg import ConstArg
n1 = ExistentialConstVar.fresh("n", nat_type()); n2 = ExistentialConstVar.fresh("n", nat_type())
t1 = ExistentialTypeVar.fresh("T", True, True); t2 = ExistentialTypeVar.fresh("T", True, True)
def arr(el, n): return array_type(el, n)
s_const = str(TupleType([arr(int_type(), n1), arr(int_type(), n2)]))
s_type = str(TupleType([t1, t2]))
import re
names_c = re.findall(r"\\?n(?:'\\d+)?", s_const)
names_t = re.findall(r"\\?T(?:'\\d+)?", s_type)
print(json.dumps({"violates": len(set(names_c)) != 2 or len(set(names_t)) != 2, "observed": {"two const variables named n": s_const, "two type variables named T": s_type},
                  "required": "distinct variables are printed with distinct names"}))
'''


def templates(chk):
    e = mk_engine(chk)
    for q in ("TypePrinter._visit_TupleType", "TypePrinter._visit_OpaqueType_StructType", "TypePrinter._visit_NoneType", "TypePrinter._visit_NumericType",
              "TypePrinter._visit_ConstValue", "TypePrinter._visit_TypeArg", "TypePrinter._visit_ConstArg"):
        e.func_info(PR, q)

    def printer(it):
        TP = it.lookup_global(e.module(PR), "TypePrinter")
        p = it.call(TP, [], {})
        kids = {}

        def visit(x, inside_row=False):
            # children print as placeholder identifiers
            if isinstance(x, SObj) and "ph" in x.fields:
                return x.fields["ph"]
            raise PyRaise(it.make_exc("AssertionError", "unexpected child"))
        p.fields["_visit"] = Builtin("_visit", visit)
        return p

    def shape(src):
        """shape of the parsed template: ('tuple', [..]) / ('sub', name, [..]) / ('name', id) / ('const', v)"""
        try:
            n = ast.parse(src, mode="eval").body
        except SyntaxError:
            return ("syntax-error", src)

        def sh(n):
            if isinstance(n, ast.Tuple):
                return ("tuple", [sh(x) for x in n.elts])
            if isinstance(n, ast.Subscript) and isinstance(n.value, ast.Name):
                args = n.slice.elts if isinstance(n.slice, ast.Tuple) else [n.slice]
                return ("sub", n.value.id, [sh(x) for x in args])
            if isinstance(n, ast.Name):
                return ("name", n.id)
            if isinstance(n, ast.Constant):
                return ("const", n.value)
            return ("other", type(n).__name__)
        return sh(n)
    PH = ClassVal("Child", builtin=True)
    for n in range(0, 4):
        def t_tuple(it, n=n):
            p = printer(it)
            kids = [SObj(PH, {"ph": f"X{i}"}) for i in range(n)]
            ty = SObj(ClassVal("TupleTypeStub", builtin=True), {"args": kids})
            f = it.lookup_global(e.module(PR), "TypePrinter").lookup("_visit_TupleType")[0]
            return it.call(f, [p, ty, False], {})
        chk.prove_paths(f"TypePrinter._visit_TupleType[{n}]:prints-a-Python-tuple-display-with-{n}-elements-in-order", e.explore(t_tuple),
                        lambda p, n=n: z3.BoolVal(p.kind == "return" and isinstance(p.value, str) and shape(p.value) == ("tuple", [("name", f"X{i}") for i in range(n)])),
                        func=f"{PR}:TypePrinter._visit_TupleType", replay=lambda m, n=n: {"script": ORACLE + REPLAY_ONE, "input": {"annotation": "tuple[" + (", ".join(["int"] * n) or "()") + "]"}})

        def t_opq(it, n=n):
            p = printer(it)
            kids = [SObj(PH, {"ph": f"X{i}"}) for i in range(n)]
            ty = SObj(ClassVal("OpaqueTypeStub", builtin=True), {"args": kids, "defn": SObj(ClassVal("Defn", builtin=True), {"name": "Name"})})
            f = it.lookup_global(e.module(PR), "TypePrinter").lookup("_visit_OpaqueType_StructType")[0]
            return it.call(f, [p, ty, False], {})
        want = ("name", "Name") if n == 0 else ("sub", "Name", [("name", f"X{i}") for i in range(n)])
        chk.prove_paths(f"TypePrinter._visit_OpaqueType_StructType[{n}]:prints-the-definition-name-applied-to-{n}-arguments-in-order", e.explore(t_opq),
                        lambda p, want=want: z3.BoolVal(p.kind == "return" and isinstance(p.value, str) and shape(p.value) == want), func=f"{PR}:TypePrinter._visit_OpaqueType_StructType")

    # arguments are printed by THIS printer (its naming state — the names already issued — is what keeps two
    # variables with the same display name apart), not by a fresh one via str()
    for meth, field in (("_visit_ConstArg", "const"), ("_visit_TypeArg", "ty")):
        for inside in (False, True):
            def t_arg(it, meth=meth, field=field, inside=inside):
                p = printer(it)
                seen = []
                inner = p.fields["_visit"]
                p.fields["_visit"] = Builtin("_visit", lambda x, inside_row=False: (seen.append((x, inside_row)), inner.fn(x, inside_row))[1])
                child = SObj(PH, {"ph": "CHILD"})
                arg = SObj(ClassVal("ArgStub", builtin=True), {field: child})
                f = it.lookup_global(e.module(PR), "TypePrinter").lookup(meth)[0]
                return it.call(f, [p, arg, inside], {}), seen, child
            chk.prove_paths(f"TypePrinter.{meth}[inside_row={inside}]:the-component-is-printed-by-this-printer(shared-naming-state)", e.explore(t_arg),
                            lambda p, inside=inside: z3.BoolVal(p.kind == "return" and p.value[0] == "CHILD" and len(p.value[1]) == 1 and p.value[1][0][0] is p.value[2]),
                            func=f"{PR}:TypePrinter.{meth}", replay=lambda m_: {"script": REPLAY_CONST_NAMES, "input": {}})

    def t_leaves(it):
        k = K(e, it)
        TP = it.lookup_global(e.module(PR), "TypePrinter")
        p = it.call(TP, [], {})
        out = {"None": it.call_method(p, "visit", [k.call(k.NoneT)])}
        for nm, ty in (("nat", k.nat()), ("int", k.int_()), ("float", k.flt())):
            out[nm] = it.call_method(p, "visit", [ty])
        for v in (0, 7, True, False, 1.5):
            out[("c", v, type(v).__name__)] = it.call_method(p, "visit", [k.call(k.CV, k.nat(), v)])
        a = k.call(k.TA, k.int_())
        out["TypeArg"] = it.call_method(p, "visit", [a])
        out["ConstArg"] = it.call_method(p, "visit", [k.call(k.CA, k.call(k.CV, k.nat(), 3))])
        return out

    def post_leaves(p):
        if p.kind != "return":
            return z3.BoolVal(False)
        o = p.value
        ok = shape(o["None"]) == ("const", None) and all(shape(o[n]) == ("name", n) for n in ("nat", "int", "float"))
        for key, s in o.items():
            if isinstance(key, tuple):
                sh = shape(s)
                ok = ok and sh[0] == "const" and sh[1] == key[1] and type(sh[1]).__name__ == key[2]
        ok = ok and shape(o["TypeArg"]) == ("name", "int") and shape(o["ConstArg"]) == ("const", 3)
        return z3.BoolVal(bool(ok))
    chk.prove_paths("TypePrinter(leaves):None,-numeric-kinds,-constants-and-arguments-print-as-the-literal/name-the-parser-maps-back", e.explore(t_leaves), post_leaves, func=f"{PR}:TypePrinter._visit_NumericType")
    chk.use_engine(e)


def names(chk):
    e = mk_engine(chk)
    for q in ("TypePrinter._fresh_name", "TypePrinter._visit_ExistentialVar", "TypePrinter._visit_FunctionType", "TypePrinter._visit_BoundVar"):
        e.func_info(PR, q)
    for n in range(1, 6):
        for seq in itertools.product(("T", "U"), repeat=n):
            def t(it, seq=seq):
                TP = it.lookup_global(e.module(PR), "TypePrinter")
                p = it.call(TP, [], {})
                return [it.call_method(p, "_fresh_name", [s]) for s in seq]
            chk.prove_paths(f"TypePrinter._fresh_name[{''.join(seq)}]:all-returned-names-pairwise-distinct", e.explore(t),
                            lambda p: z3.BoolVal(p.kind == "return" and len(set(p.value)) == len(p.value)), func=f"{PR}:TypePrinter._fresh_name")
    # look-alike display names: whatever a generated name looks like, it must not be a name a user can
    # choose (identifiers: letters, digits, underscore) — otherwise `T, T, <that name>` prints two
    # different variables alike
    POOL = ("T", "U", "T1", "T_1", "T2", "T_2", "T0", "T_0", "T__1", "T_", "T1_")
    seqs = [q for n in (2, 3) for q in itertools.product(POOL, repeat=n)] + [q for n in (4, 5) for q in itertools.product(("T", "T_1", "T1", "T_2"), repeat=n)]
    seqs = [q for q in seqs if len(set(q)) > 1 and len(set(q)) < len(q)]

    def t_pool(it):
        TP = it.lookup_global(e.module(PR), "TypePrinter")
        bad = []
        for seq in seqs:
            p = it.call(TP, [], {})
            out = [it.call_method(p, "_fresh_name", [s_]) for s_ in seq]
            if len(set(out)) != len(out):
                bad.append((seq, out))
        return bad
    chk.prove_paths(f"TypePrinter._fresh_name[{len(seqs)} request sequences over identifier look-alikes {POOL}]:all-returned-names-pairwise-distinct", e.explore(t_pool),
                    lambda p: z3.BoolVal(p.kind == "return" and p.value == []), func=f"{PR}:TypePrinter._fresh_name",
                    replay=lambda m: {"script": REPLAY_POOL, "input": {"pool": list(POOL)}})
    fresh_name_induction(chk, e)
    # existential variables with the same display name around / inside a quantified function type
    SHAPES = ["E0,E1", "F(E0),E1", "E0,F(E1)", "F(E0),F(E1)", "F(E0),E1,E0", "F(E0,E1),E2", "E0,F(E1),E2,E1"]
    for sh in SHAPES:
        def t(it, sh=sh):
            k = K(e, it)
            TP = it.lookup_global(e.module(PR), "TypePrinter")
            p = it.call(TP, [], {})
            exs = {}

            def ex(i):
                if i not in exs:
                    exs[i] = k.call(k.ETV, "U", 100 + i, True, True)
                return exs[i]
            out = []
            for part in _split(sh):
                if part.startswith("F("):
                    inner = [ex(int(x[1:])) for x in part[2:-1].split(",")]
                    ft = k.call(k.Fn, [k.inp(k.tv(0, "T"))], k.call(k.Tup, inner), [k.call(k.TP, 0, "T", True, True)])
                    out.append((None, it.call_method(p, "visit", [ft])))
                else:
                    i = int(part[1:])
                    out.append((i, it.call_method(p, "visit", [ex(i)])))
            return out, dict(p.fields["existential_names"])
        paths = e.explore(t)

        def post(p):
            if p.kind != "return":
                return z3.BoolVal(False)
            out, names_ = p.value
            vals = list(names_.values())
            ok = len(set(vals)) == len(vals)                      # distinct variables, distinct names
            seen = {}
            for i, s in out:
                if i is None:
                    continue
                if i in seen and seen[i] != s:
                    ok = False                                       # the same variable keeps its name
                seen[i] = s
            ok = ok and len(set(seen.values())) == len(seen)
            return z3.BoolVal(bool(ok))
        chk.prove_paths(f"TypePrinter[{sh}]:distinct-existential-variables-print-with-distinct-names(inside-and-outside-a-forall)/\\same-variable-same-name", paths, post,
                        func=f"{PR}:TypePrinter._visit_ExistentialVar", replay=lambda m: {"script": REPLAY_NAMES, "input": {}})
    chk.use_engine(e)


def _split(s):
    out, depth, cur = [], 0, ""
    for ch in s:
        if ch == "," and depth == 0:
            out.append(cur)
            cur = ""
            continue
        depth += ch == "("
        depth -= ch == ")"
        cur += ch
    return out + [cur]


REPLAY_POOL = r'''
import itertools
from guppylang_internals.tys.printing import TypePrinter
from guppylang_internals.tys.ty import FunctionType, NoneType
from guppylang_internals.tys.param import TypeParam
POOL = INPUT["pool"]
bad = None
for n in (2, 3):
    for seq in itertools.product(POOL, repeat=n):
        ft = FunctionType([], NoneType(), [TypeParam(i, nm, True, True) for i, nm in enumerate(seq)])
        txt = TypePrinter().visit(ft)
        names = [x.strip() for x in txt[len("forall "):txt.index(".")].split(",")]
        if len(set(names)) != len(names):
            bad = {"params": list(seq), "printed": txt}; break
    if bad: break
print(json.dumps({"violates": bad is not None, "witness": bad}))
'''

REPLAY_NAMES = r'''
from guppylang_internals.tys.printing import TypePrinter
from guppylang_internals.tys.ty import ExistentialTypeVar, FunctionType, FuncInput, InputFlags, BoundTypeVar, TupleType
from guppylang_internals.tys.param import TypeParam
e0, e1 = ExistentialTypeVar("U", 100, True, True), ExistentialTypeVar("U", 101, True, True)
f = FunctionType([FuncInput(BoundTypeVar("T", 0, True, True), InputFlags.NoFlags)], TupleType([e0]), [TypeParam(0, "T", True, True)])
p = TypePrinter()
a, b = p.visit(f), p.visit(e1)
n0 = p.existential_names[e0.id]; n1 = p.existential_names[e1.id]
print(json.dumps({"violates": n0 == n1, "printed": [a, b], "names": [n0, n1]}))
'''


def bounded(chk, i):
    from pyvc.report import run_replay
    inp = {"depth": 2, "chunk": i, "nchunks": NCH} if chk.tier != "thorough" else {"depth": 3, "chunk": i, "nchunks": NCH, "limit": 6000}
    res = run_replay(ORACLE + DRIVER, inp, chk.repo, timeout=6000)
    if "evaluations" not in res:
        chk.undecided(f"bounded[{i}/{NCH}]:round-trip", "oracle run failed: " + json.dumps(res)[:500])
        return
    w = res.get("witness")
    o = chk.bounded_result(f"bounded[{i}/{NCH}]:parse(print(t))==t(slice {i} of {NCH}; pool of {res['total']} annotations)", not res.get("violates"), res["evaluations"],
                           detail=res.get("detail") or f"{res['evaluations']} types printed and read back", witness=w, func=f"{PR}:TypePrinter")
    if w:
        o.replay.update({"script": ORACLE + REPLAY_ONE, "input": {"annotation": w["annotation"]}})
    if res.get("known_one_tuple"):
        k1 = chk.bounded_result(f"known-deviation[one-tuple]:{res['known_one_tuple']['printed']}", False, 1, detail=res["known_one_tuple"]["detail"], witness=res["known_one_tuple"], func=f"{PR}:TypePrinter._visit_TupleType")
        k1.replay.update({"script": ORACLE + REPLAY_ONE, "input": {"annotation": res["known_one_tuple"]["annotation"]}})
    if res.get("known"):
        k = chk.bounded_result(f"known-deviation[sole-tuple-argument]:{res['known']['printed']}", False, 1, detail=res["known"]["detail"], witness=res["known"], func=f"{PR}:TypePrinter._visit_OpaqueType_StructType")
        k.replay.update({"script": ORACLE + REPLAY_ONE, "input": {"annotation": res["known"]["annotation"]}})


def fresh_name_induction(chk, e):
    """`_fresh_name` never returns the same name twice — for EVERY sequence of requests whose display
    names contain no prime (every Python identifier), by induction over the sequence.

    Ghost state: `issued`, the set of names returned so far.  Invariant Inv(counter, issued):
      I1  every counter is >= 1;
      I3  every key of `counter` is prime-free;
      I2  every issued name n is accounted for: n is a key of `counter`, or n = e'k for a key e and
          1 <= k < counter[e].
    Inv holds after __init__ (counter = {}, issued = {}), obligation `init`.  For an ARBITRARY state
    satisfying Inv (the counter dict is a pair of uninterpreted z3 arrays) and an arbitrary prime-free
    display name d, the real `_fresh_name` is executed symbolically; per path:
      spec       the result and the new counter are the stated function of (counter, d), nothing else
                 changes (frame);
      fresh      the result is not in `issued`;
      keep-I1/I2/I3   Inv holds again for (counter', issued + {result}).
    The quantified invariants are used the way a deductive verifier uses them: instantiated by hand at
    the terms the proof needs (stated next to each obligation); existentials in goals get explicit
    witnesses.  Solvers: z3 then cvc5 --strings-exp."""
    from pyvc.symcoll import SDict, StrElem, IntElem, elem_codec
    from pyvc.values import to_z3
    S, I, B = z3.StringSort(), z3.IntSort(), z3.BoolSort()
    PRIME = z3.StringVal("'")

    def primed(d, k):
        return z3.Concat(d, PRIME, z3.If(k >= 0, z3.IntToStr(k), z3.Concat(z3.StringVal("-"), z3.IntToStr(-k))))

    def pf(x):
        return z3.Not(z3.Contains(x, PRIME))

    # init: TypePrinter() starts with an empty counter
    def t0(it):
        TP = it.lookup_global(e.module(PR), "TypePrinter")
        return it.call(TP, [], {}).fields["counter"]
    chk.prove_paths("TypePrinter.__init__:counter-starts-empty(Inv-holds-with-issued-empty)", e.explore(t0), lambda p: z3.BoolVal(p.kind == "return" and p.value == {}), func=f"{PR}:TypePrinter.__init__")

    # two string lemmas, proved once and then used by instantiation
    la, lb, ls, lt = z3.Strings("la lb ls lt")
    lk1, lk2 = z3.Ints("lk1 lk2")

    def L2(a, b, s_, t_):
        return z3.Implies(z3.And(pf(a), pf(b), z3.Concat(a, PRIME, s_) == z3.Concat(b, PRIME, t_)), z3.And(a == b, s_ == t_))

    def L3(k1, k2):
        return z3.Implies(z3.And(k1 >= 0, k2 >= 0, z3.IntToStr(k1) == z3.IntToStr(k2)), k1 == k2)
    chk.prove("lemma L2: a's = b't with a, b prime-free  =>  a = b and s = t", [], L2(la, lb, ls, lt), func=f"{PR}:TypePrinter._fresh_name")
    chk.prove("lemma L3: str(k1) = str(k2) for naturals  =>  k1 = k2", [], L3(lk1, lk2), func=f"{PR}:TypePrinter._fresh_name")

    dom, cnt, issued = z3.Const("dom", z3.ArraySort(S, B)), z3.Const("cnt", z3.ArraySort(S, I)), z3.Const("issued", z3.ArraySort(S, B))

    def t(it):
        TP = it.lookup_global(e.module(PR), "TypePrinter")
        p = it.call(TP, [], {})
        sd = SDict(StrElem(), elem_codec(IntElem()), dom, [cnt])
        p.fields["counter"] = sd
        d = it.ctx.fresh_str("d")
        it.ctx.assume(pf(d.t))                                   # precondition: display names are prime-free
        it.ctx.assume(z3.Implies(z3.Select(dom, d.t), z3.Select(cnt, d.t) >= 1))   # I1 at d
        r = it.call_method(p, "_fresh_name", [d])
        post = p.fields["counter"]
        return d, r, post
    paths = e.explore(t)
    chk.record("TypePrinter._fresh_name[arbitrary state]:paths(first use / reuse)", len([p for p in paths if p.kind == "return"]) == 2 and all(p.kind == "return" for p in paths),
               str([p.kind for p in paths]), kind="reachability", func=f"{PR}:TypePrinter._fresh_name")
    F = f"{PR}:TypePrinter._fresh_name"
    for i, p in enumerate(paths):
        if p.kind != "return":
            chk.undecided(f"TypePrinter._fresh_name[arbitrary state]/path{i}", f"path ended with {p.kind}: {p.value!r:.200}", func=F)
            continue
        d, r, post = p.value
        d, r = d.t, to_z3(r)
        if not isinstance(post, SDict):
            chk.record(f"TypePrinter._fresh_name/path{i}:counter-is-still-the-dict", False, repr(post), func=F)
            continue
        dom2, cnt2 = post.dom, post.cols[0]
        hy = list(p.pc)
        c = z3.Select(cnt, d)
        # spec: strongest postcondition
        spec = z3.If(z3.Select(dom, d),
                     z3.And(r == primed(d, c), dom2 == dom, cnt2 == z3.Store(cnt, d, c + 1)),
                     z3.And(r == d, dom2 == z3.Store(dom, d, z3.BoolVal(True)), cnt2 == z3.Store(cnt, d, z3.IntVal(1))))
        chk.prove(f"_fresh_name/path{i}:spec(result = d on first use, d'counter[d] afterwards; counter[d] := 1 resp. +1; every other key unchanged)", hy, spec, func=F)
        # fresh: I2 instantiated at n := result with Skolem witnesses (e0, k0); I3 at result and at e0
        e0, k0 = z3.String("e0"), z3.Int("k0")
        i2_r = z3.Implies(z3.Select(issued, r), z3.Or(z3.Select(dom, r), z3.And(z3.Select(dom, e0), 1 <= k0, k0 < z3.Select(cnt, e0), r == primed(e0, k0))))
        i3 = lambda x: z3.Implies(z3.Select(dom, x), pf(x))   # noqa: E731
        chk.prove(f"_fresh_name/path{i}:fresh(the result was never issued before)  [I2 at result, I3 at result and witness, L2, L3]", hy + [i2_r, i3(r), i3(e0), i3(d), L2(d, e0, z3.IntToStr(c), z3.IntToStr(k0)), L3(c, k0)], z3.Not(z3.Select(issued, r)), func=F,
                  replay=lambda m: {"script": REPLAY_POOL, "input": {"pool": ["T", "U", "T1", "T_1", "T2", "T_2", "T0", "T_0", "T__1", "T_", "T1_", "T-1", "T.1", "T 1"]}})
        # keep-I1, keep-I3 for an arbitrary key x
        x = z3.String("x")
        chk.prove(f"_fresh_name/path{i}:keep-I1(every counter >= 1)  [I1 at x]", hy + [z3.Implies(z3.Select(dom, x), z3.Select(cnt, x) >= 1)],
                  z3.Implies(z3.Select(dom2, x), z3.Select(cnt2, x) >= 1), func=F)
        chk.prove(f"_fresh_name/path{i}:keep-I3(every key prime-free)  [I3 at x]", hy + [i3(x)], z3.Implies(z3.Select(dom2, x), pf(x)), func=F)
        # keep-I2 for an arbitrary name n: hypothesis I2 at n with Skolem witnesses (e1, k1); goal witnesses (e1, k1) or (d, counter[d])
        n, e1, k1 = z3.String("n"), z3.String("e1"), z3.Int("k1")
        i2_n = z3.Implies(z3.Select(issued, n), z3.Or(z3.Select(dom, n), z3.And(z3.Select(dom, e1), 1 <= k1, k1 < z3.Select(cnt, e1), n == primed(e1, k1))))
        issued2 = z3.Store(issued, r, z3.BoolVal(True))

        def wit(ee, kk):
            return z3.And(z3.Select(dom2, ee), 1 <= kk, kk < z3.Select(cnt2, ee), n == primed(ee, kk))
        chk.prove(f"_fresh_name/path{i}:keep-I2(every issued name, the new one included, is accounted for)  [I2 at n; witnesses (old) or (d, counter[d])]",
                  hy + [i2_n, spec], z3.Implies(z3.Select(issued2, n), z3.Or(z3.Select(dom2, n), wit(e1, k1), wit(d, c))), func=F)
    # vacuity guards: the hypotheses are satisfiable on each path; a wrong goal fails
    chk.must_fail("_fresh_name:guard(an issued name CAN be returned if primes are allowed in display names)", [], z3.Implies(z3.And(z3.String("a") != z3.String("b")), primed(z3.String("a"), z3.IntVal(1)) != z3.String("b")), func=F)


def const_values(chk):
    """TypePrinter._visit_ConstValue: a constant used as a type argument is printed as a Python literal
    that evaluates to EXACTLY that constant (same value, same type) — the annotation parser reads const
    arguments with ast.literal_eval-like rules, so anything less (a rounded float) reads back as a
    different type, and two different constants could print alike.  Pool: ints, nats at the 64-bit
    boundaries, bools, and floats that do not survive rounding (0.1 + 0.2, pi, 1e-15, 2e-15, 1e300,
    5e-324, 1/3, 2**53 + 2.0)."""
    import ast as _ast
    e = mk_engine(chk)
    e.func_info(PR, "TypePrinter._visit_ConstValue")
    POOL = [0, 1, -1, 42, 2 ** 63 - 1, -2 ** 63, 2 ** 64 - 1, True, False, 1.5, 0.25, 42.0, 0.1 + 0.2, 3.141592653589793, 1e-15, 2e-15, 1e300, 5e-324, 1 / 3, 2.0 ** 53 + 2.0, -0.75, 123456789.123456789]

    def t(it):
        TP = it.lookup_global(e.module(PR), "TypePrinter")
        out = []
        for v in POOL:
            p = it.call(TP, [], {})
            cv = SObj(ClassVal("ConstValue", builtin=True), {"value": v, "ty": None})
            f, _ = TP.lookup("_visit_ConstValue")
            out.append(it.call(f, [p, cv, False], {}))
        return out
    paths = e.explore(t)

    def post(p):
        if p.kind != "return":
            return z3.BoolVal(False)
        bad = []
        for v, txt in zip(POOL, p.value):
            try:
                back = _ast.literal_eval(txt)
            except Exception:  # noqa
                back = object()
            if type(back) is not type(v) or back != v:
                bad.append((v, txt))
        p.ctx.ghost["bad"] = bad
        texts = list(p.value)
        return z3.BoolVal(not bad and len(set(zip(map(type, POOL), texts))) == len(POOL))
    chk.prove_paths(f"TypePrinter._visit_ConstValue[{len(POOL)} constants]:the-printed-literal-evaluates-to-exactly-the-constant/\\different-constants-print-differently", paths, post,
                    func=f"{PR}:TypePrinter._visit_ConstValue", replay=lambda m: {"script": REPLAY_CONST, "input": {}})
    chk.use_engine(e)


REPLAY_CONST = r'''
import ast
from guppylang_internals.tys.printing import TypePrinter
from guppylang_internals.tys.const import ConstValue
from guppylang_internals.tys.ty import NumericType
bad = []
for v in (0.1 + 0.2, 3.141592653589793, 1e-15, 2e-15, 1 / 3, 1.5, 42.0):
    txt = TypePrinter().visit(ConstValue(NumericType(NumericType.Kind.Float), v))
    if ast.literal_eval(txt) != v:
        bad.append([repr(v), txt])
print(json.dumps({"violates": bool(bad), "constant_and_printed_text": bad}))
'''
