"""C31 — Printed types read back as the same type.

Functions under contract (tys/printing.py): TypePrinter._visit_TupleType,
_visit_OpaqueType_StructType, _visit_NoneType, _visit_NumericType, _visit_ConstValue,
_visit_TypeArg/_visit_ConstArg, _fresh_name, _visit_ExistentialVar, _visit_FunctionType (naming).

 T  templates (pyvc + CPython's own parser): each printer method is executed on a node whose
    children print as placeholder names; the resulting text must parse, with `ast.parse`, to the
    Python expression shape the annotation parser maps back to the same constructor with the
    same children (tuple display with n elements, `name[...]` with n arguments, `None`, a name,
    a literal).  This is the induction step of the round-trip argument; that Python's grammar is
    compositional for bracketed sub-expressions is assumed.
 N  names: `_fresh_name` never returns the same name twice (all request sequences up to length 5
    over two display names); distinct existential variables — inside or outside a quantified
    function type, in any order — get distinct names and the same variable keeps its name.
 B  BOUNDED: print/parse round trip through the real annotation parser for every annotation of a
    pool (contracts/C31_oracle.py; quick: depth 2 = 747 types, thorough: depth 3 sample).
Recorded deviation: a tuple that is the ONLY argument of a generic type prints as `G[(a, b)]`,
which Python's grammar reads as the argument list `G[a, b]`.
"""
import ast
import itertools
import json
import z3

from pyvc import SObj, ClassVal, Builtin, PyRaise
from .common import mk_engine
from .C13 import K
from .C31_oracle import ORACLE, DRIVER, REPLAY_ONE

TITLE = "type printer: every constructor prints a Python expression of the shape the annotation parser inverts; fresh names are distinct; round trip on a type pool"
PR = "guppylang_internals.tys.printing"
NCH = 8


def run(chk):
    chk.section("templates", lambda: templates(chk))
    chk.section("names", lambda: names(chk))
    for i in range(NCH):
        chk.section(f"bounded-{i}", lambda i=i: bounded(chk, i))
    chk.expected_min_obligations = 30
    chk.assumptions += ["Python's expression grammar is compositional for parenthesised / bracketed sub-expressions (CPython ast.parse is used as the reference parser for the templates)",
                        "the annotation parser maps ast.Tuple to TupleType of its elements, `name[args]` to the named definition applied to the arguments, None/names/literals to the corresponding leaves (read off tys/parsing.py; exercised end-to-end by the bounded layer)",
                        "argument / element counts 0..3 are enumerated for the templates"]
    chk.not_covered += ["function types (excluded by the property)", "two definitions with the same name in scope", "float constants inf/nan and negative integer constants as type arguments"]


def templates(chk):
    e = mk_engine(chk)
    for q in ("TypePrinter._visit_TupleType", "TypePrinter._visit_OpaqueType_StructType", "TypePrinter._visit_NoneType", "TypePrinter._visit_NumericType",
              "TypePrinter._visit_ConstValue", "TypePrinter._visit_TypeArg", "TypePrinter._visit_ConstArg"):
        e.func_info(PR, q)

    def printer(it):
        TP = it.lookup_global(e.module(PR), "TypePrinter")
        p = it.call(TP, [], {})
        kids = {}

        def visit(x, inside_row=False):
            # children print as placeholder identifiers
            if isinstance(x, SObj) and "ph" in x.fields:
                return x.fields["ph"]
            raise PyRaise(it.make_exc("AssertionError", "unexpected child"))
        p.fields["_visit"] = Builtin("_visit", visit)
        return p

    def shape(src):
        """shape of the parsed template: ('tuple', [..]) / ('sub', name, [..]) / ('name', id) / ('const', v)"""
        try:
            n = ast.parse(src, mode="eval").body
        except SyntaxError:
            return ("syntax-error", src)

        def sh(n):
            if isinstance(n, ast.Tuple):
                return ("tuple", [sh(x) for x in n.elts])
            if isinstance(n, ast.Subscript) and isinstance(n.value, ast.Name):
                args = n.slice.elts if isinstance(n.slice, ast.Tuple) else [n.slice]
                return ("sub", n.value.id, [sh(x) for x in args])
            if isinstance(n, ast.Name):
                return ("name", n.id)
            if isinstance(n, ast.Constant):
                return ("const", n.value)
            return ("other", type(n).__name__)
        return sh(n)
    PH = ClassVal("Child", builtin=True)
    for n in range(0, 4):
        def t_tuple(it, n=n):
            p = printer(it)
            kids = [SObj(PH, {"ph": f"X{i}"}) for i in range(n)]
            ty = SObj(ClassVal("TupleTypeStub", builtin=True), {"args": kids})
            f = it.lookup_global(e.module(PR), "TypePrinter").lookup("_visit_TupleType")[0]
            return it.call(f, [p, ty, False], {})
        chk.prove_paths(f"TypePrinter._visit_TupleType[{n}]:prints-a-Python-tuple-display-with-{n}-elements-in-order", e.explore(t_tuple),
                        lambda p, n=n: z3.BoolVal(p.kind == "return" and isinstance(p.value, str) and shape(p.value) == ("tuple", [("name", f"X{i}") for i in range(n)])),
                        func=f"{PR}:TypePrinter._visit_TupleType", replay=lambda m, n=n: {"script": ORACLE + REPLAY_ONE, "input": {"annotation": "tuple[" + (", ".join(["int"] * n) or "()") + "]"}})

        def t_opq(it, n=n):
            p = printer(it)
            kids = [SObj(PH, {"ph": f"X{i}"}) for i in range(n)]
            ty = SObj(ClassVal("OpaqueTypeStub", builtin=True), {"args": kids, "defn": SObj(ClassVal("Defn", builtin=True), {"name": "Name"})})
            f = it.lookup_global(e.module(PR), "TypePrinter").lookup("_visit_OpaqueType_StructType")[0]
            return it.call(f, [p, ty, False], {})
        want = ("name", "Name") if n == 0 else ("sub", "Name", [("name", f"X{i}") for i in range(n)])
        chk.prove_paths(f"TypePrinter._visit_OpaqueType_StructType[{n}]:prints-the-definition-name-applied-to-{n}-arguments-in-order", e.explore(t_opq),
                        lambda p, want=want: z3.BoolVal(p.kind == "return" and isinstance(p.value, str) and shape(p.value) == want), func=f"{PR}:TypePrinter._visit_OpaqueType_StructType")

    def t_leaves(it):
        k = K(e, it)
        TP = it.lookup_global(e.module(PR), "TypePrinter")
        p = it.call(TP, [], {})
        out = {"None": it.call_method(p, "visit", [k.call(k.NoneT)])}
        for nm, ty in (("nat", k.nat()), ("int", k.int_()), ("float", k.flt())):
            out[nm] = it.call_method(p, "visit", [ty])
        for v in (0, 7, True, False, 1.5):
            out[("c", v, type(v).__name__)] = it.call_method(p, "visit", [k.call(k.CV, k.nat(), v)])
        a = k.call(k.TA, k.int_())
        out["TypeArg"] = it.call_method(p, "visit", [a])
        out["ConstArg"] = it.call_method(p, "visit", [k.call(k.CA, k.call(k.CV, k.nat(), 3))])
        return out

    def post_leaves(p):
        if p.kind != "return":
            return z3.BoolVal(False)
        o = p.value
        ok = shape(o["None"]) == ("const", None) and all(shape(o[n]) == ("name", n) for n in ("nat", "int", "float"))
        for key, s in o.items():
            if isinstance(key, tuple):
                sh = shape(s)
                ok = ok and sh[0] == "const" and sh[1] == key[1] and type(sh[1]).__name__ == key[2]
        ok = ok and shape(o["TypeArg"]) == ("name", "int") and shape(o["ConstArg"]) == ("const", 3)
        return z3.BoolVal(bool(ok))
    chk.prove_paths("TypePrinter(leaves):None,-numeric-kinds,-constants-and-arguments-print-as-the-literal/name-the-parser-maps-back", e.explore(t_leaves), post_leaves, func=f"{PR}:TypePrinter._visit_NumericType")
    chk.use_engine(e)


def names(chk):
    e = mk_engine(chk)
    for q in ("TypePrinter._fresh_name", "TypePrinter._visit_ExistentialVar", "TypePrinter._visit_FunctionType", "TypePrinter._visit_BoundVar"):
        e.func_info(PR, q)
    for n in range(1, 6):
        for seq in itertools.product(("T", "U"), repeat=n):
            def t(it, seq=seq):
                TP = it.lookup_global(e.module(PR), "TypePrinter")
                p = it.call(TP, [], {})
                return [it.call_method(p, "_fresh_name", [s]) for s in seq]
            chk.prove_paths(f"TypePrinter._fresh_name[{''.join(seq)}]:all-returned-names-pairwise-distinct", e.explore(t),
                            lambda p: z3.BoolVal(p.kind == "return" and len(set(p.value)) == len(p.value)), func=f"{PR}:TypePrinter._fresh_name")
    # existential variables with the same display name around / inside a quantified function type
    SHAPES = ["E0,E1", "F(E0),E1", "E0,F(E1)", "F(E0),F(E1)", "F(E0),E1,E0", "F(E0,E1),E2", "E0,F(E1),E2,E1"]
    for sh in SHAPES:
        def t(it, sh=sh):
            k = K(e, it)
            TP = it.lookup_global(e.module(PR), "TypePrinter")
            p = it.call(TP, [], {})
            exs = {}

            def ex(i):
                if i not in exs:
                    exs[i] = k.call(k.ETV, "U", 100 + i, True, True)
                return exs[i]
            out = []
            for part in _split(sh):
                if part.startswith("F("):
                    inner = [ex(int(x[1:])) for x in part[2:-1].split(",")]
                    ft = k.call(k.Fn, [k.inp(k.tv(0, "T"))], k.call(k.Tup, inner), [k.call(k.TP, 0, "T", True, True)])
                    out.append((None, it.call_method(p, "visit", [ft])))
                else:
                    i = int(part[1:])
                    out.append((i, it.call_method(p, "visit", [ex(i)])))
            return out, dict(p.fields["existential_names"])
        paths = e.explore(t)

        def post(p):
            if p.kind != "return":
                return z3.BoolVal(False)
            out, names_ = p.value
            vals = list(names_.values())
            ok = len(set(vals)) == len(vals)                      # distinct variables, distinct names
            seen = {}
            for i, s in out:
                if i is None:
                    continue
                if i in seen and seen[i] != s:
                    ok = False                                       # the same variable keeps its name
                seen[i] = s
            ok = ok and len(set(seen.values())) == len(seen)
            return z3.BoolVal(bool(ok))
        chk.prove_paths(f"TypePrinter[{sh}]:distinct-existential-variables-print-with-distinct-names(inside-and-outside-a-forall)/\\same-variable-same-name", paths, post,
                        func=f"{PR}:TypePrinter._visit_ExistentialVar", replay=lambda m: {"script": REPLAY_NAMES, "input": {}})
    chk.use_engine(e)


def _split(s):
    out, depth, cur = [], 0, ""
    for ch in s:
        if ch == "," and depth == 0:
            out.append(cur)
            cur = ""
            continue
        depth += ch == "("
        depth -= ch == ")"
        cur += ch
    return out + [cur]


REPLAY_NAMES = r'''
from guppylang_internals.tys.printing import TypePrinter
from guppylang_internals.tys.ty import ExistentialTypeVar, FunctionType, FuncInput, InputFlags, BoundTypeVar, TupleType
from guppylang_internals.tys.param import TypeParam
e0, e1 = ExistentialTypeVar("U", 100, True, True), ExistentialTypeVar("U", 101, True, True)
f = FunctionType([FuncInput(BoundTypeVar("T", 0, True, True), InputFlags.NoFlags)], TupleType([e0]), [TypeParam(0, "T", True, True)])
p = TypePrinter()
a, b = p.visit(f), p.visit(e1)
n0 = p.existential_names[e0.id]; n1 = p.existential_names[e1.id]
print(json.dumps({"violates": n0 == n1, "printed": [a, b], "names": [n0, n1]}))
'''


def bounded(chk, i):
    from pyvc.report import run_replay
    inp = {"depth": 2, "chunk": i, "nchunks": NCH} if chk.tier != "thorough" else {"depth": 3, "chunk": i, "nchunks": NCH, "limit": 6000}
    res = run_replay(ORACLE + DRIVER, inp, chk.repo, timeout=6000)
    if "evaluations" not in res:
        chk.undecided(f"bounded[{i}/{NCH}]:round-trip", "oracle run failed: " + json.dumps(res)[:500])
        return
    w = res.get("witness")
    o = chk.bounded_result(f"bounded[{i}/{NCH}]:parse(print(t))==t(slice {i} of {NCH}; pool of {res['total']} annotations)", not res.get("violates"), res["evaluations"],
                           detail=res.get("detail") or f"{res['evaluations']} types printed and read back", witness=w, func=f"{PR}:TypePrinter")
    if w:
        o.replay.update({"script": ORACLE + REPLAY_ONE, "input": {"annotation": w["annotation"]}})
    if res.get("known_one_tuple"):
        k1 = chk.bounded_result(f"known-deviation[one-tuple]:{res['known_one_tuple']['printed']}", False, 1, detail=res["known_one_tuple"]["detail"], witness=res["known_one_tuple"], func=f"{PR}:TypePrinter._visit_TupleType")
        k1.replay.update({"script": ORACLE + REPLAY_ONE, "input": {"annotation": res["known_one_tuple"]["annotation"]}})
    if res.get("known"):
        k = chk.bounded_result(f"known-deviation[sole-tuple-argument]:{res['known']['printed']}", False, 1, detail=res["known"]["detail"], witness=res["known"], func=f"{PR}:TypePrinter._visit_OpaqueType_StructType")
        k.replay.update({"script": ORACLE + REPLAY_ONE, "input": {"annotation": res["known"]["annotation"]}})
