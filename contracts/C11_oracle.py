"""Native oracle for C11 (bounded layer): session histories on the real compiler.

A module with a dozen definitions (structs, generic functions, nested functions — one of them
recursive and named like a module-level definition —, loops, comptime,
overloads, a broken function and a broken struct) is loaded.  For every TARGET definition the HUGR
is compiled (a) in a fresh interpreter process with no history and (b) after each of a set of
session histories (other definitions checked/compiled before, the target compiled once or twice
before, failing checks and failing compiles before, check-then-compile).  The serialised HUGR
must be identical up to the numbering of generated names.
"""
MODULE = r'''
from guppylang import guppy
from guppylang.std.builtins import array, owned, result, comptime, nat
from guppylang.std.quantum import qubit, h, cx, measure, discard
import guppylang
guppylang.enable_experimental_features()
control = object()
T = guppy.type_var("T")

@guppy.struct
class P:
    a: int
    b: float

@guppy.struct
class Q:
    p: P
    n: int

@guppy.struct
class BrokenStruct:
    x: "NoSuchType"

@guppy
def helper(x: int) -> int:
    y = x + 1 if x > 0 else x - 1
    return y * 2

@guppy
def ident(x: T) -> T:
    return x

@guppy
def loops(n: int) -> int:
    acc = 0
    for i in range(3):
        if i == 1:
            continue
        acc += helper(i + n)
    while acc > 10 and n < 5:
        acc -= 3
    return acc

@guppy
def structs(n: int) -> float:
    q = Q(P(n, 1.5), 2)
    r = Q(P(helper(q.n), q.p.b), q.p.a)
    return r.p.b + ident(r.p.a)

@guppy
def nested(n: int) -> int:
    def inner(z: int) -> int:
        return z + helper(z)
    return inner(n) + inner(2)

@guppy
def quantum(q: qubit @owned) -> bool:
    r = qubit()
    h(q)
    cx(q, r)
    discard(r)
    return measure(q)

@guppy
def arrays(xs: array[int, 3]) -> int:
    s = 0
    for x in xs.copy():
        s += ident(x)
    return s + xs[1]

@guppy.comptime
def traced(n: int) -> int:
    acc = n
    for i in range(3):
        acc = acc + i
    return acc

@guppy
def uses_traced(n: int) -> int:
    return traced(n) + helper(n)

@guppy
def shadow_user(n: int) -> int:
    # a non-capturing RECURSIVE nested function with the name of a module-level definition
    def helper(k: int) -> int:
        if k <= 0:
            return 0
        return k + helper(k - 1)
    return helper(n)

@guppy
def leaf_a(x: int) -> int:
    return x + 1

@guppy
def leaf_b(x: int) -> int:
    return x * 2

@guppy
def leaf_c(x: int) -> int:
    return x - 3

@guppy
def two_nested(x: int) -> int:
    # two nested functions that pull in further definitions: the order in which the bodies are lowered must not depend on the session
    def first(y: int) -> int:
        return leaf_a(y)
    def second(y: int) -> int:
        return leaf_b(y)
    return first(x) + second(x) + leaf_c(x)

@guppy
def generic_nested(x: int, k: int @comptime) -> int:
    def helper2(y: int) -> int:
        return y + 7
    return helper2(x) + k

@guppy
def twice_mono(x: int) -> int:
    # the enclosing function of a nested definition is monomorphized twice
    return generic_nested(x, 1) + generic_nested(x, 2)

@guppy
def nested_loops(n: int) -> int:
    # two pairs of generated temporaries (iterators) alive in the same blocks
    s = 0
    for i in range(n):
        for j in range(n):
            s += i * j if i > j else 1
    return s

@guppy
def tmp_filler(x: int) -> int:
    # checking this consumes exactly one generated temporary name
    return 1 if x > 0 else 2

@guppy
def modified(q: qubit, c: qubit) -> None:
    with control(c):
        h(q)

@guppy.comptime
def bad_traced(n: int) -> int:
    return undefined_thing + n

@guppy
def broken_fn(x: int) -> int:
    return x + undefined_name

@guppy
def uses_broken_struct(b: BrokenStruct) -> int:
    return 1
'''

ORACLE = r'''
import os, sys, json, re, subprocess, tempfile, importlib.util, shutil, hashlib

TARGETS = ["helper", "loops", "structs", "nested", "quantum", "arrays", "uses_traced", "ident", "shadow_user", "two_nested", "twice_mono", "nested_loops", "modified"]
FAILING = ["broken_fn", "uses_broken_struct"]

def load(d):
    fn = os.path.join(d, "c11_mod.py")
    spec = importlib.util.spec_from_file_location("c11_mod", fn); m = importlib.util.module_from_spec(spec); sys.modules["c11_mod"] = m
    spec.loader.exec_module(m)
    return m

def norm(s):
    # numbering of generated names is not significant
    s = re.sub(r"%tmp\d+", "%tmp", s)
    s = re.sub(r"\$\d+", "$", s)
    s = re.sub(r"DefId\(id=\d+\)", "DefId(id=#)", s)      # generated names of modifier blocks carry the definition counter
    return s

def ser(pkg):
    hg = pkg.modules[0] if hasattr(pkg, "modules") else pkg
    # the module as a whole: nodes, links, metadata (to_str) and the extensions shipped with the package
    exts = sorted(str(getattr(x, "name", x)) for x in getattr(pkg, "extensions", []))
    meta = json.dumps(hg[hg.module_root].metadata if hasattr(hg, "module_root") else {}, sort_keys=True, default=str)
    return norm(hg.to_str()) + "\n|module-metadata:" + norm(meta) + "\n|package-extensions:" + ",".join(exts)

def tmp_counter():
    """number of the next generated temporary (reading it consumes that one)"""
    from guppylang_internals.cfg.builder import tmp_vars
    return int(next(tmp_vars)[4:]) + 1

def act(m, step):
    kind, name = step
    f = getattr(m, name)
    try:
        if kind == "check": f.check()
        else: f.compile_function()
        return "ok"
    except BaseException as e:
        return type(e).__name__

def histories(target):
    others = [t for t in TARGETS if t != target]
    hs = [
        [("compile", target)],
        [("check", target)],
        [("compile", target), ("compile", target)],
        [("compile", o) for o in others],
        [("check", o) for o in reversed(others)],
        [("check", "broken_fn")],
        [("compile", "broken_fn"), ("compile", "uses_broken_struct")],
        [("check", "uses_broken_struct"), ("check", target), ("compile", "broken_fn")],
        [("compile", others[0]), ("check", "broken_fn"), ("compile", target), ("compile", others[-1])],
        [("compile", target), ("compile", "two_nested"), ("compile", target), ("compile", "twice_mono"), ("compile", target), ("compile", "nested"), ("compile", target)],
        [("compile", "modified")],
        [("compile", "modified"), ("check", target), ("compile", "modified")],
        [("check", "tmp_filler")] * 3,
    ]
    return hs

BASE_SCRIPT = """
import sys, json
sys.path.insert(0, '/verif/compat'); import guppy_compat
sys.path.insert(0, {d!r})
exec(open({oracle!r}).read())
m = load({d!r})
print("RESULT" + json.dumps({{t: ser(getattr(m, t).compile_function()) for t in {targets!r}}}))
"""
'''

DRIVER = r'''
I_ = INPUT
d = tempfile.mkdtemp(dir=os.environ.get("TMPDIR", "/var/tmp"))
bad = None; n = 0
try:
    open(os.path.join(d, "c11_mod.py"), "w").write(I_["module"])
    open(os.path.join(d, "oracle.py"), "w").write(I_["oracle"])
    mine = TARGETS[I_["chunk"]::I_["nchunks"]]
    # (a) fresh-process baselines
    env = dict(os.environ)
    out = subprocess.run([sys.executable, "-c", BASE_SCRIPT.format(d=d, oracle=os.path.join(d, "oracle.py"), targets=mine)], capture_output=True, text=True, env=env, timeout=900)
    line = [l for l in out.stdout.splitlines() if l.startswith("RESULT")]
    if not line: raise RuntimeError("baseline failed: " + (out.stderr or out.stdout)[-600:])
    base = json.loads(line[0][6:])
    # (b) histories in this process
    sys.path.insert(0, d)
    m = load(d)
    for t in mine:
        for hist in histories(t):
            outcomes = [act(m, st) for st in hist]
            try:
                got = ser(getattr(m, t).compile_function())
            except Exception as ex:
                got = f"<compile raised {type(ex).__name__}: {str(ex)[:120]}>"      # the fresh session compiled it
            n += 1
            if got != base[t] and bad is None:
                import difflib
                a, b = base[t], got
                i = next((k for k in range(min(len(a), len(b))) if a[k] != b[k]), min(len(a), len(b)))
                bad = {"target": t, "history": hist, "outcomes": outcomes, "detail": f"HUGR of `{t}` differs from the fresh-session HUGR after history {hist}: ...{a[max(0, i - 60): i + 60]!r} vs ...{b[max(0, i - 60): i + 60]!r}"}
        # the session-wide counter of generated names at every position around its digit boundaries
        # (…8|9|10…, …98|99|100…): the counter is advanced by checking `tmp_filler` (one name per check)
        for boundary in I_.get("boundaries", (10, 100)):
            for off in range(6, -1, -1):
                cur = tmp_counter()
                if cur > boundary - off:
                    continue
                hist = [("check", "tmp_filler")] * (boundary - off - cur)
                for st in hist: act(m, st)
                try:
                    got = ser(getattr(m, t).compile_function())
                except Exception as ex:
                    got = f"<compile raised {type(ex).__name__}: {str(ex)[:120]}>"
                n += 1
                if got != base[t] and bad is None:
                    a, b = base[t], got
                    i = next((k for k in range(min(len(a), len(b))) if a[k] != b[k]), min(len(a), len(b)))
                    bad = {"target": t, "history": f"{boundary - off} generated temporaries issued earlier in the session (checks of `tmp_filler`)",
                           "detail": f"HUGR of `{t}` compiled when the counter of generated names stands at {boundary - off} differs from the fresh-session HUGR: ...{a[max(0, i - 60): i + 60]!r} vs ...{b[max(0, i - 60): i + 60]!r}"}
        # a failed check must not change later outcomes either
        for f in FAILING:
            r1 = act(m, ("check", f)); r2 = act(m, ("check", f)); n += 1
            if r1 != r2 and bad is None:
                bad = {"target": f, "history": [("check", f)], "detail": f"checking `{f}` twice gives {r1} then {r2}"}
        # a failed comptime trace must not leave the session in tracing mode
        from guppylang_internals.tracing.state import tracing_active
        r = act(m, ("compile", "bad_traced")); n += 1
        if tracing_active() and bad is None:
            bad = {"target": "bad_traced", "history": [("compile", "bad_traced")], "detail": f"after the failed comptime compile ({r}) tracing_active() is still True: Guppy functions can be called from plain Python"}
        try:
            got = ser(getattr(m, t).compile_function())
        except Exception as ex:
            got = f"<compile raised {type(ex).__name__}: {str(ex)[:120]}>"
        n += 1
        if got != base[t] and bad is None:
            bad = {"target": t, "history": [("compile", "bad_traced")], "detail": f"HUGR of `{t}` differs after a failed comptime compile"}
finally:
    shutil.rmtree(d, ignore_errors=True)
print(json.dumps({"violates": bad is not None, "evaluations": n, "witness": bad, "detail": bad and bad["detail"]}))
'''
