"""C26 — Loaded pytket circuits act like the circuit.

Functions under contract (definition/pytket_circuits.py): ParsedPytketDef.compile_outer (the
wrapper function that adapts Guppy's calling convention to the circuit's HUGR),
_signature_from_circuit, RawPytketDef.parse (stub accepted iff signatures equal).

compile_outer is executed by pyvc against a recording function builder, for circuits described by
(qubit registers, classical registers, symbolic parameter names in the order the circuit's HUGR
lists them).  The wiring is then read back:
  * qubits reach the circuit in order — flat, or register by register in `q_registers` order
    with every array unpacked;
  * every classical input bit is initialised to False;
  * the user's angle arguments are in LEXICOGRAPHIC name order: the circuit's j-th parameter,
    named p_j, receives the argument whose rank among the sorted names is rank(p_j) — checked for
    every permutation of up to 4 names;
  * results: one bool per classical bit (converted to Guppy's bool), then the borrowed qubits in
    order; with arrays one array per classical register, then one per qubit register.
"""
import itertools
import z3

from pyvc import SObj, ClassVal, Builtin, PyRaise
from .common import mk_engine

TITLE = "pytket wrapper: qubits in register order, bits initialised False, parameters bound by lexicographic rank, one bool per bit and qubits handed back; signature from circuit shape"
PM = "guppylang_internals.definition.pytket_circuits"


def run(chk):
    chk.section("wiring", lambda: wiring(chk))
    chk.section("signature", lambda: signature(chk))
    chk.section("empty-body", lambda: empty_body(chk))
    for i in range(NCH_B):
        chk.section(f"bounded-{i}", lambda i=i: bounded(chk, i))
    chk.expected_min_obligations = 40
    chk.assumptions += [
        "pytket: Circuit.q_registers / c_registers list the registers in lexicographic order with their sizes; n_qubits / n_bits / free_symbols() are as documented",
        "tket (Tk2Circuit) lowers a circuit to a HUGR function taking qubits, then bits, then the parameters in the order of its TKET1.input_parameters metadata, and returning qubits then bits",
        "hugr-py function builder: inputs() are the function inputs in order, call(f, *wires) passes wires positionally, set_outputs fixes the outputs positionally",
        "parameter lists of up to 4 names (all permutations), up to 2 registers of sizes 1..2 are enumerated",
    ]
    chk.not_covered += ["the unitary the circuit's HUGR implements (tket's responsibility; the bounded layer compares with pytket's own unitary for eighteen circuits, two of them with an implicit qubit permutation)", "angle -> half-turn conversion of parameters beyond unpacking the angle struct (bounded layer only)"]
    chk.assumptions += ["bounded layer: tket.circuit.Tk2Circuit is a stand-in over the installed tket (rotation parameters converted from float half-turns where they enter the circuit function), see C26_oracle.py"]


REPLAY_PASS = r'''
import tempfile, importlib.util, os, sys, shutil, builtins
sys.path.insert(0, "/verif")
from contracts.C26_oracle import ORACLE
exec(ORACLE.split("import itertools, os, tempfile")[0])      # the Tk2Circuit stand-in for this sandbox
from pytket import Circuit
from guppylang_internals.error import GuppyError
c = Circuit(1); c.X(0)
builtins._c26_circ = c
res = {}
for body in ("pass", "...", '"""doc"""', '"""doc"""\n    ...', "x = 1", "pass\n    pass"):
    src = f"""import builtins
from guppylang import guppy
from guppylang.std.quantum import qubit
@guppy.pytket(builtins._c26_circ)
def s(q: qubit) -> None:
    {body}
"""
    d = tempfile.mkdtemp(dir=os.environ.get("TMPDIR", "/var/tmp")); fn = os.path.join(d, "replay_c26p.py"); open(fn, "w").write(src)
    spec = importlib.util.spec_from_file_location("replay_c26p", fn); m = importlib.util.module_from_spec(spec); sys.modules["replay_c26p"] = m
    try:
        spec.loader.exec_module(m); m.s.check(); res[body] = "accepted"
    except GuppyError as ex:
        res[body] = "rejected:" + type(ex.error).__name__
    shutil.rmtree(d, ignore_errors=True)
bad = [b for b in ("pass", "...") if res[b] != "accepted"] + [b for b in ("x = 1", "pass\n    pass") if res[b] == "accepted"]
print(json.dumps({"violates": bool(bad), "observed": res, "required": "a stub whose signature matches is accepted when its body is `pass` or `...`, rejected when the body has statements"}))
'''


def empty_body(chk):
    """has_empty_body (ast_util.py) decides whether a @guppy.pytket stub (and a @guppy.declare / custom
    function) "has no body": RawPytketDef.parse rejects a stub with BodyNotEmptyError otherwise, before the
    signatures are compared.  Its documented meaning: no statement, a single `pass`, or a single `...`."""
    from .common import ast_from_source
    AU = "guppylang_internals.ast_util"
    e = mk_engine(chk)
    e.func_info(AU, "has_empty_body")
    CASES = [("pass", True), ("...", True), ("pass\n    pass", False), ("...\n    ...", False), ("x = 1", False), ("return", False), ("0", False), ("None", False), ("'...'", False),
             ("pass\n    ...", False), ("f()", False), ("(...)", True)]
    for body, want in CASES:
        def t(it, body=body):
            fd = ast_from_source(it, f"def s(q):\n    {body}\n").fields["body"][0]
            return it.call(it.lookup_global(e.module(AU), "has_empty_body"), [fd], {})
        chk.prove_paths(f"has_empty_body[{body!r}]=={want}", e.explore(t), lambda p, want=want: z3.BoolVal(p.kind == "return" and p.value is want), func=f"{AU}:has_empty_body",
                        replay=lambda m_: {"script": REPLAY_PASS, "input": {}})

    def t0(it):
        fd = ast_from_source(it, "def s(q):\n    pass\n").fields["body"][0]
        fd.fields["body"] = []
        return it.call(it.lookup_global(e.module(AU), "has_empty_body"), [fd], {})
    chk.prove_paths("has_empty_body[no statements]==True", e.explore(t0), lambda p: z3.BoolVal(p.kind == "return" and p.value is True), func=f"{AU}:has_empty_body")
    chk.use_engine(e)


NCH_B = 8


def bounded(chk, i):
    """BOUNDED: loaded circuits on the state-vector emulator against pytket's own unitary (C26_oracle.py)"""
    import json
    from pyvc.report import run_replay
    from .C26_oracle import ORACLE, DRIVER
    res = run_replay(ORACLE + DRIVER, {"chunk": i, "nchunks": NCH_B, "tier": chk.tier}, chk.repo, timeout=6000)
    if "evaluations" not in res:
        chk.undecided(f"bounded[{i}/{NCH_B}]:circuits", "oracle run failed: " + json.dumps(res)[:800])
        return
    w = res.get("witness")
    o = chk.bounded_result(f"bounded[{i}/{NCH_B}]:loaded-circuit-on-the-emulator==pytket's-unitary-on-the-qubits-in-lexicographic-register-order/\\bits-in-pytket's-order/\\parameters-by-name(slice {i} of {NCH_B})",
                           not res.get("violates"), res["evaluations"],
                           detail=res.get("detail") or f"{res['evaluations']} runs (circuit x use_arrays x input state; declared stubs in slice 0) agree with pytket", witness=w, func=f"{PM}:ParsedPytketDef.compile_outer")
    if w and w.get("circuit") != "stub":
        o.replay.update({"script": ORACLE + DRIVER, "input": {"chunk": 0, "nchunks": 1, "only": w["circuit"]}})


class Rec:
    """recording function builder"""

    def __init__(self, n_inputs):
        self.inputs_ = [("in", i) for i in range(n_inputs)]
        self.ops = []
        self.outputs = None
        self.call_args = None


def wiring(chk):
    e = mk_engine(chk)
    e.func_info(PM, "ParsedPytketDef.compile_outer")
    m = e.module(PM)
    PC = ClassVal("PytketCircuit", builtin=True)
    e.ext_models["pytket.circuit.Circuit"] = PC
    e.ext_models["pytket"] = SObj(ClassVal("pytket_mod", builtin=True), {"circuit": SObj(ClassVal("pytket_circuit_mod", builtin=True), {"Circuit": PC})})
    count = 0
    UNIT = ClassVal("UnitID", builtin=True)
    UNIT.attrs["__str__"] = Builtin("__str__", lambda self_: self_.fields["name"])
    UNIT.attrs["__repr__"] = Builtin("__repr__", lambda self_: self_.fields["name"])

    def units(names, sizes):
        """pytket's unit order: register by register (names in lexicographic order), index numerically — NOT the string order of `reg[idx]`"""
        return [SObj(UNIT, {"name": f"{n}[{i}]", "reg_name": n, "index": [i]}) for n, sz in zip(names, sizes) for i in range(sz)]
    shapes = []
    for qregs in ([1], [2], [1, 2], [2, 1], [11]):
        for cregs in ([], [1], [2, 1], [1, 2, 1]):
            shapes.append((qregs, cregs))
    names_pool = ["a", "b", "c", "d"]
    perms = [()] + [p for n in range(1, 5) for p in itertools.permutations(names_pool[:n])]
    scenarios = [(q, c, p, arr) for (q, c) in shapes[:6] for p in perms[:9] for arr in (False, True)] + [([11], [], (), arr) for arr in (False, True)] + [([1], [], p, arr) for p in perms[9:] for arr in (False, True)]
    for qregs, cregs, params, use_arrays in scenarios:
        def t(it, qregs=qregs, cregs=cregs, params=params, use_arrays=use_arrays):
            PPD = it.lookup_global(m, "ParsedPytketDef")
            nq, nb = sum(qregs), sum(cregs)
            qunits = units(["q", "q2", "qB"], qregs)
            # an implicit qubit permutation (here: the reversal) is part of the circuit's MEANING and is realised by the
            # circuit's HUGR (tket); the wrapper must hand qubit i of the inner function's results back as qubit i
            circ = SObj(PC, {"q_registers": [SObj(ClassVal("Reg", builtin=True), {"size": s}) for s in qregs],
                             "c_registers": [SObj(ClassVal("Reg", builtin=True), {"size": s}) for s in cregs],
                             "n_qubits": nq, "n_bits": nb, "free_symbols": Builtin("free_symbols", lambda: set(params)),
                             "implicit_qubit_permutation": Builtin("implicit_qubit_permutation", lambda: dict(zip(qunits, reversed(qunits)))),
                             "qubits": qunits, "bits": units(["c", "c1", "cA"], cregs)})
            n_in = (len(qregs) if use_arrays else nq) + ((1 if params else 0) if use_arrays else len(params))
            rec = Rec(n_in)

            class W(tuple):
                pass

            def add_op(op, *wires):
                rec.ops.append((op, wires))
                kind = op[0]
                if kind == "array_unpack":
                    return [("elem", wires[0], k) for k in range(op[2])]
                if kind == "UnpackTuple":
                    return [("halfturns", wires[0])]
                if kind == "array_new":
                    return ("array", op[1], tuple(wires))
                if kind == "make_opaque":
                    return ("opaque", wires[0])
                return ("op", kind, wires)

            def call(f, *wires):
                rec.call_args = list(wires)
                WC = ClassVal("Wire", builtin=True)

                def mkw(tag):
                    o = SObj(WC, {"w": tag})
                    o.fields["out_port"] = Builtin("out_port", lambda o=o: o)
                    return o
                outs = [mkw(("cq", k)) for k in range(nq)] + [mkw(("cb", k)) for k in range(nb)]
                return SObj(ClassVal("CallNode", builtin=True), {"outputs": Builtin("outputs", lambda: list(outs))})
            hugr_stub = SObj(ClassVal("HugrStub", builtin=True), {"port_type": Builtin("port_type", lambda w: "BOOL" if w.fields["w"][0] == "cb" else "QUBIT")})
            outer = SObj(ClassVal("FuncBuilder", builtin=True), {
                "inputs": Builtin("inputs", lambda: list(rec.inputs_)), "add_op": Builtin("add_op", add_op), "call": Builtin("call", call),
                "load": Builtin("load", lambda v: ("FALSE",)), "hugr": hugr_stub,
                "set_outputs": Builtin("set_outputs", lambda *ws: setattr(rec, "outputs", list(ws)))})
            hugr_func = SObj(ClassVal("HFunc", builtin=True), {"metadata": {"TKET1.input_parameters": list(params)} if params else {}})
            circ_mod = SObj(ClassVal("CircMod", builtin=True), {"entrypoint": "EP"})
            module = SObj(ClassVal("ModBuilder", builtin=True), {
                "hugr": SObj(ClassVal("H", builtin=True), {"insert_hugr": Builtin("insert_hugr", lambda c: {"EP": hugr_func})}),
                "module_root_builder": Builtin("mrb", lambda: SObj(ClassVal("Root", builtin=True), {"define_function": Builtin("define_function", lambda *a: outer)}))})
            body = SObj(ClassVal("Body", builtin=True), {"input": "IN", "output": "OUT"})
            ty = SObj(ClassVal("FT", builtin=True), {"to_hugr_poly": Builtin("to_hugr_poly", lambda ctx: SObj(ClassVal("Poly", builtin=True), {"body": body}))})
            self_ = SObj(PPD, {"id": "ID", "name": "circ", "defined_at": None, "ty": ty, "input_circuit": circ, "use_arrays": use_arrays})
            g = it.ctx.mod_globals(m)
            # port-type test: wire.out_port() is handed to hugr.port_type
            for nm in ("array_unpack", "array_new"):
                g[nm] = Builtin(nm, lambda ty_, n, nm=nm: (nm, ty_, n))
            g["make_opaque"] = Builtin("make_opaque", lambda: ("make_opaque",))
            g["CompiledPytketDef"] = Builtin("CompiledPytketDef", lambda *a: ("COMPILED", a))
            g["float_type"] = Builtin("float_type", lambda: SObj(ClassVal("FTy", builtin=True), {"to_hugr": Builtin("to_hugr", lambda c: "F64")}))
            it.call_method(self_, "compile_outer", [module, "CTX"])
            return rec
        e.ext_models["tket.circuit.Tk2Circuit"] = lambda it, a, k: SObj(ClassVal("Tk2", builtin=True), {"to_bytes": Builtin("to_bytes", lambda *x: b"")})
        e.models[f"{PM}:envelope"] = None
        e.models.pop(f"{PM}:envelope")
        e.global_presets = {
            (PM, "envelope"): SObj(ClassVal("EnvNS", builtin=True), {"read_envelope": Builtin("read_envelope", lambda b: SObj(ClassVal("Pkg", builtin=True), {"modules": [SObj(ClassVal("CircMod", builtin=True), {"entrypoint": "EP"})]}))}),
            (PM, "EnvelopeConfig"): SObj(ClassVal("EC", builtin=True), {"TEXT": "TEXT"}),
            (PM, "ht"): SObj(ClassVal("ht", builtin=True), {"Qubit": "QUBIT", "Bool": "BOOL", "Tuple": Builtin("Tuple", lambda *a: ("Tuple", a))}),
            (PM, "ops"): SObj(ClassVal("opsns", builtin=True), {"UnpackTuple": Builtin("UnpackTuple", lambda tys: ("UnpackTuple", tuple(tys)))}),
            (PM, "val"): SObj(ClassVal("valns", builtin=True), {"FALSE": "FALSE"}),
            (PM, "FLOAT_T"): "F64", (PM, "OpaqueBool"): "OPAQUEBOOL",
        }
        paths = e.explore(t)

        def post(p, qregs=qregs, cregs=cregs, params=params, use_arrays=use_arrays):
            if p.kind != "return":
                return z3.BoolVal(False)
            rec = p.value
            nq, nb = sum(qregs), sum(cregs)
            ins = rec.inputs_
            # qubits as the circuit receives them
            if use_arrays:
                want_q = [("elem", ins[r], k) for r, s in enumerate(qregs) for k in range(s)]
                lex = [("elem", ins[len(qregs)], k) for k in range(len(params))] if params else []
            else:
                want_q = ins[:nq]
                lex = ins[nq:]
            names_sorted = sorted(params)
            want_params = [("halfturns", lex[names_sorted.index(nm)]) for nm in params]
            ok = rec.call_args == list(want_q) + [("FALSE",)] * nb + want_params
            # results
            def norm(w):
                if isinstance(w, SObj) and "w" in w.fields:
                    return w.fields["w"]
                if isinstance(w, tuple):
                    return tuple(norm(x) for x in w)
                return w
            outs = [norm(w) for w in (rec.outputs or [])]
            bools = [("opaque", ("cb", k)) for k in range(nb)]
            qs = [("cq", k) for k in range(nq)]
            if use_arrays:
                want_out, i = [], 0
                for s in cregs:
                    want_out.append(("array", "OPAQUEBOOL", tuple(bools[i:i + s])))
                    i += s
                i = 0
                for s in qregs:
                    want_out.append(("array", "QUBIT", tuple(qs[i:i + s])))
                    i += s
            else:
                want_out = bools + qs
            ok = ok and outs == want_out
            return z3.BoolVal(bool(ok))
        nm = f"q={qregs},c={cregs},params={''.join(params) or '-'},arrays={use_arrays}"
        chk.prove_paths(f"compile_outer[{nm}]:qubits-in-register-order/\\bits-False/\\parameter-j<-argument-of-lexicographic-rank(name_j)/\\one-bool-per-bit-then-qubits-handed-back",
                        paths, post, func=f"{PM}:ParsedPytketDef.compile_outer")
        count += 1
    chk.record("compile_outer:scenarios-explored", count >= 100, str(count), kind="reachability")
    chk.use_engine(e)


REPLAY_GAPS = r'''
import sys
sys.path.insert(0, "/verif")
from contracts.C26_oracle import ORACLE
exec(ORACLE.split("import itertools, os, tempfile")[0])      # the Tk2Circuit stand-in for this sandbox
from pytket import Circuit, Qubit, Bit
from guppylang import guppy
from guppylang_internals.error import GuppyError
from guppylang_internals.engine import ENGINE
c1 = Circuit(); c1.add_qubit(Qubit("q", 0)); c1.add_qubit(Qubit("q", 2)); c1.add_qubit(Qubit("w", 1)); c1.X(Qubit("q", 2))
c2 = Circuit(1); c2.add_bit(Bit("c", 1)); c2.X(0); c2.Measure(Qubit(0), Bit("c", 1))
res = {}
for name, circ in (("qubits_outside_registers", c1), ("bit_outside_register", c2)):
    try:
        f = guppy.load_pytket(name, circ, use_arrays=True)
        f.check()
        ty = ENGINE.get_parsed(f.id).ty
        res[name] = f"accepted with signature {ty} for a circuit with {circ.n_qubits} qubits and {circ.n_bits} bits"
    except GuppyError as ex:
        res[name] = "rejected:" + type(ex.error).__name__
print(json.dumps({"violates": any(v.startswith("accepted") for v in res.values()), "observed": res, "required": "every qubit has a parameter and every bit a result, or the circuit is rejected"}))
'''


def signature(chk):
    e = mk_engine(chk)
    e.func_info(PM, "_signature_from_circuit")
    m = e.module(PM)
    PC = ClassVal("PytketCircuit", builtin=True)
    e.ext_models["pytket.circuit.Circuit"] = PC
    e.ext_models["pytket"] = SObj(ClassVal("pytket_mod", builtin=True), {"circuit": SObj(ClassVal("pytket_circuit_mod", builtin=True), {"Circuit": PC})})
    e.ext_models["tket"] = SObj(ClassVal("tket_mod", builtin=True), {})
    # the Guppy-side definitions the function imports lazily (qubit, angle) are stubs
    TD = ClassVal("TypeDef", builtin=True)
    GD = ClassVal("GuppyDefinition", builtin=True)
    qdef = SObj(TD, {"check_instantiate": Builtin("ci", lambda a: "QUBIT_TY")})
    adef = SObj(TD, {"check_instantiate": Builtin("ci", lambda a: "ANGLE_TY")})
    e.global_presets = {(PM, "TypeDef"): TD, ("guppylang.defs", "GuppyDefinition"): GD,
                        ("guppylang.std.quantum", "qubit"): SObj(GD, {"wrapped": qdef}), ("guppylang.std.angles", "angle"): SObj(GD, {"id": "ANGLE_ID"})}
    cnt = 0
    for qregs, cregs, nparams, use_arrays in itertools.product(([1], [2, 1], [1, 1, 2]), ([], [1], [2, 1], [1, 2, 1]), (0, 1, 3), (False, True)):
        def t(it, qregs=qregs, cregs=cregs, nparams=nparams, use_arrays=use_arrays):
            f = it.lookup_global(m, "_signature_from_circuit")
            circ = SObj(PC, {"q_registers": [SObj(ClassVal("Reg", builtin=True), {"size": s}) for s in qregs],
                             "c_registers": [SObj(ClassVal("Reg", builtin=True), {"size": s}) for s in cregs],
                             "n_qubits": sum(qregs), "n_bits": sum(cregs), "free_symbols": Builtin("free_symbols", lambda: set(range(nparams)))})
            g = it.ctx.mod_globals(m)
            g["ENGINE"] = SObj(ClassVal("Eng", builtin=True), {"get_checked": Builtin("get_checked", lambda i: adef)})
            g["array_type"] = Builtin("array_type", lambda t_, n: ("array", t_, n))
            g["bool_type"] = Builtin("bool_type", lambda: "BOOL_TY")
            g["row_to_type"] = Builtin("row_to_type", lambda row: ("row", tuple(row)))
            g["FunctionType"] = Builtin("FunctionType", lambda ins, out: ("FT", list(ins), out))
            g["FuncInput"] = Builtin("FuncInput", lambda ty_, fl: (ty_, fl.name if hasattr(fl, "name") else str(fl)))
            return it.call(f, [circ, None, use_arrays], {})
        paths = e.explore(t)

        def post(p, qregs=qregs, cregs=cregs, nparams=nparams, use_arrays=use_arrays):
            if p.kind != "return" or not isinstance(p.value, tuple):
                return z3.BoolVal(False)
            _, ins, out = p.value
            ins = [(a, "Inout" if "Inout" in str(b) else "NoFlags" if ("NoFlags" in str(b) or str(b) == "InputFlags(0)") else str(b)) for a, b in ins]
            if use_arrays:
                want_in = [(("array", "QUBIT_TY", s), "Inout") for s in qregs] + ([(("array", "ANGLE_TY", nparams), "NoFlags")] if nparams else [])
                want_out = ("row", tuple(("array", "BOOL_TY", s) for s in cregs))
            else:
                want_in = [("QUBIT_TY", "Inout")] * sum(qregs) + [("ANGLE_TY", "NoFlags")] * nparams
                want_out = ("row", tuple(["BOOL_TY"] * sum(cregs)))
            return z3.BoolVal(ins == want_in and out == want_out)
        chk.prove_paths(f"_signature_from_circuit[q={qregs},c={cregs},params={nparams},arrays={use_arrays}]:one-borrowed-qubit(-array)-per-qubit(-register)/\\one-angle-per-symbol/\\one-bool-per-bit",
                        paths, post, func=f"{PM}:_signature_from_circuit")
        cnt += 1
    # qubits / bits that belong to no complete register (pytket lists only registers reg[0..n-1]): in array mode they
    # have no parameter / result to live in, so the circuit is rejected instead of losing them; flat mode still
    # has one parameter per qubit and one result per bit
    e.models["guppylang_internals.checker.errors.generic:UnsupportedError"] = lambda it, a, k: SObj(ClassVal("Diag"), {"kind": "UnsupportedError", "args": tuple(a)})
    for qregs, nq, cregs, nb in (([1], 2, [], 0), ([], 3, [], 0), ([2], 2, [], 1), ([1], 1, [1], 3), ([2, 1], 4, [1], 1)):
        for use_arrays in (False, True):
            def t_gap(it, qregs=qregs, nq=nq, cregs=cregs, nb=nb, use_arrays=use_arrays):
                f = it.lookup_global(m, "_signature_from_circuit")
                circ = SObj(PC, {"q_registers": [SObj(ClassVal("Reg", builtin=True), {"size": s_}) for s_ in qregs],
                                 "c_registers": [SObj(ClassVal("Reg", builtin=True), {"size": s_}) for s_ in cregs],
                                 "n_qubits": nq, "n_bits": nb, "free_symbols": Builtin("free_symbols", lambda: set())})
                g = it.ctx.mod_globals(m)
                g["ENGINE"] = SObj(ClassVal("Eng", builtin=True), {"get_checked": Builtin("get_checked", lambda i: adef)})
                g["array_type"] = Builtin("array_type", lambda t_, n: ("array", t_, n))
                g["bool_type"] = Builtin("bool_type", lambda: "BOOL_TY")
                g["row_to_type"] = Builtin("row_to_type", lambda row: ("row", tuple(row)))
                g["FunctionType"] = Builtin("FunctionType", lambda ins, out: ("FT", list(ins), out))
                g["FuncInput"] = Builtin("FuncInput", lambda ty_, fl: (ty_, fl.name if hasattr(fl, "name") else str(fl)))
                return it.call(f, [circ, None, use_arrays], {})

            def post_gap(p, nq=nq, nb=nb, use_arrays=use_arrays):
                if use_arrays:
                    return z3.BoolVal(p.kind == "raise" and p.raised(e, "GuppyError") and getattr(p.value.fields.get("error"), "fields", {}).get("kind") == "UnsupportedError")
                return z3.BoolVal(p.kind == "return" and isinstance(p.value, tuple) and len(p.value[1]) == nq and p.value[2] == ("row", tuple(["BOOL_TY"] * nb)))
            chk.prove_paths(f"_signature_from_circuit[registers q={qregs} of {nq} qubits, c={cregs} of {nb} bits, arrays={use_arrays}]:{'rejected(no unit is dropped silently)' if use_arrays else 'one-parameter-per-qubit/one-bool-per-bit'}",
                            e.explore(t_gap), post_gap, func=f"{PM}:_signature_from_circuit", replay=lambda m_: {"script": REPLAY_GAPS, "input": {}})
    # a stub is accepted iff inputs and output equal the circuit's
    import ast
    src = ast.unparse(m.find("RawPytketDef").body[-1]) if hasattr(m, "find") and m.find("RawPytketDef") else ""
    chk.record("RawPytketDef.parse:accepts-iff-stub.inputs==circuit.inputs-and-stub.output==circuit.output",
               "circuit_signature.inputs == stub_signature.inputs and circuit_signature.output == stub_signature.output" in src and "raise GuppyError(err)" in src, "",
               func=f"{PM}:RawPytketDef.parse", backend="structural")
    chk.record("_signature_from_circuit:all-shapes-explored", cnt >= 50, str(cnt), kind="reachability")
    chk.use_engine(e)
