"""C21 — Comptime functions agree with regular Guppy functions (dispatch layer).

Functions under contract (guppylang_internals/tracing/object.py, builtins_mock.py): every dunder
of DunderMixin, the decorators binary_operation / unary_operation, the three tables derived from
expr_checker's operator tables, and the mocked int / float / len builtins.

Regular mode dispatches `a op b` through ExprSynthesizer._synthesize_binary (C04: left dunder with
(a, b), on a Guppy error the reflected dunder of b with (b, a), else an error).  The obligations
here say comptime mode performs the *same* dispatch: each mixin method asks the traced object for
the method of its own name with the same arguments, binary_operation falls back to exactly the
reflected name of the regular table with swapped operands, unary operators have no fallback.
"""
import ast
import os
import z3

from pyvc import SObj, ClassVal, Builtin, PyRaise, FuncVal, Unsupported
from .common import mk_engine

TITLE = "comptime operator dispatch (DunderMixin, binary/unary_operation, mocked builtins) equals the regular-mode dispatch tables"
MOD = "guppylang_internals.tracing.object"
BM = "guppylang_internals.tracing.builtins_mock"
EC = "guppylang_internals.checker.expr_checker"

REPLAY = r'''
import guppylang_internals.tracing.object as O
I = INPUT
calls = []
class Fake(O.DunderMixin):
    def _get_method(self, name):
        calls.append(name)
        return lambda *a: ("called", name, a)
f = getattr(O.DunderMixin, I["method"])
f = getattr(f, "__wrapped__", f)
f = getattr(f, "__wrapped__", f)
x = Fake()
out = f(x, *I["args"])
print(json.dumps({"violates": calls != [I["method"]] or out != ("called", I["method"], tuple(I["args"])), "requested": calls, "method": I["method"]}))
'''


def run(chk):
    e = mk_engine(chk)
    m = e.module(MOD)
    mixin = m.find("DunderMixin")
    methods = [n for n in mixin.body if isinstance(n, ast.FunctionDef) and n.name.startswith("__") and n.name.endswith("__")]
    for n in methods:
        e.func_info(MOD, f"DunderMixin.{n.name}")
    e.func_info(MOD, "binary_operation")
    e.func_info(MOD, "unary_operation")

    # ---- every mixin method delegates to the traced object's method of the SAME name, same arguments
    for fn in methods:
        nargs = len(fn.args.args) - 1

        def t(it, fn=fn, nargs=nargs):
            DM = it.lookup_global(m, "DunderMixin")
            log = []

            def get_method(it2, a, k):
                log.append(("get", a[1]))
                return Builtin("method", lambda *args: (log.append(("call", a[1], list(args))) or ("RESULT", a[1])))
            e.models[f"{MOD}:DunderMixin._get_method"] = get_method
            o = SObj(DM, {})
            args = [SObj(ClassVal("Other"), {"i": i}) for i in range(nargs)]
            f, _ = DM.lookup(fn.name)
            r = it.call(f, [o] + args, {})
            return r, log, args
        paths = e.explore(t)

        def post(p, fn=fn):
            if p.kind != "return":
                return z3.BoolVal(False)
            r, log, args = p.value
            return z3.BoolVal(log == [("get", fn.name), ("call", fn.name, args)] and r == ("RESULT", fn.name))
        chk.prove_paths(f"DunderMixin.{fn.name}:delegates-to-own-name-with-same-arguments", paths, post, func=f"{MOD}:DunderMixin.{fn.name}",
                        replay=lambda mdl, fn=fn, nargs=nargs: {"script": REPLAY, "input": {"method": fn.name, "args": [7] * nargs}})
    e.models.pop(f"{MOD}:DunderMixin._get_method", None)

    # ---- tables: derived from (and inverse w.r.t.) the regular-mode tables
    def t_tabs(it):
        ecm = e.module(EC)
        return (it.lookup_global(m, "binary_table"), it.lookup_global(m, "reverse_binary_table"), it.lookup_global(m, "unary_table"),
                it.lookup_global(ecm, "binary_table"), it.lookup_global(ecm, "unary_table"))
    paths = e.explore(t_tabs)
    if paths and paths[0].kind == "return":
        bt, rbt, ut, ebt, eut = paths[0].value
        want_bt = {v[0]: (v[1], v[2]) for v in ebt.values()}
        want_rbt = {v[1]: (v[0], v[2]) for v in ebt.values()}
        chk.record("object.binary_table=={method:(reflected,display)}-of-expr_checker.binary_table", bt == want_bt, f"{bt}", func=f"{MOD}:binary_table")
        chk.record("object.reverse_binary_table=={reflected:(method,display)}", rbt == want_rbt, f"{rbt}", func=f"{MOD}:reverse_binary_table")
        chk.record("object.unary_table==dict(expr_checker.unary_table.values())", ut == dict(eut.values()), f"{ut}", func=f"{MOD}:unary_table")
    else:
        chk.undecided("tables", str(paths[0].value if paths else "no path"))
        bt = {}

    # ---- which methods carry which decorator
    deco = {fn.name: [ast.unparse(d) for d in fn.decorator_list] for fn in methods}
    bin_names = {k for k in bt} | {v[0] for v in bt.values()}
    for name in sorted(n for n in deco if n in bin_names):
        chk.record(f"DunderMixin.{name}:decorated-with-binary_operation(fallback-to-reflected-as-in-regular-mode)", deco[name] == ["binary_operation"],
                   str(deco[name]), func=f"{MOD}:DunderMixin.{name}")
    for name in ("__neg__", "__pos__", "__invert__"):
        chk.record(f"DunderMixin.{name}:decorated-with-unary_operation", deco.get(name) == ["unary_operation"], str(deco.get(name)), func=f"{MOD}:DunderMixin.{name}")

    # ---- binary_operation: f(self, other); else other.<reflected>(self); else GuppyTypeError (types in source order)
    for fname in ("__sub__", "__rsub__", "__lt__"):
        for scenario in ("ok", "fallback", "both-fail"):
            def t(it, fname=fname, scenario=scenario):
                log = []
                st = SObj(ClassVal("State"), {"dfg": SObj(ClassVal("DFG"), {"builder": "B"}), "node": "NODE", "ctx": "CTX"})
                e.models["guppylang_internals.tracing.state:get_tracing_state"] = lambda it2, a, k: st
                e.models["guppylang_internals.tracing.unpacking:guppy_object_from_py"] = lambda it2, a, k: a[0]
                e.models["guppylang_internals.checker.errors.type_errors:BinaryOperatorNotDefinedError"] = \
                    lambda it2, a, k: SObj(ClassVal("Diag"), {"kind": "BinaryOperatorNotDefinedError", "args": tuple(a)})

                def hook(s, o):
                    log.append(("f", s, o))
                    if scenario != "ok":
                        raise PyRaise(it.make_exc("TypeError", "no"))
                    return "F-RESULT"

                def getattr_(name):
                    def meth(arg):
                        log.append(("reflected", name, arg))
                        if scenario == "both-fail":
                            raise PyRaise(it.make_exc("TypeError", "no"))
                        return "R-RESULT"
                    return Builtin("meth", meth)
                a = SObj(ClassVal("GO"), {"_ty": "LEFT_TY", "tag": "a"})
                b = SObj(ClassVal("GO"), {"_ty": "RIGHT_TY", "tag": "b", "__getattr__": Builtin("__getattr__", getattr_)})
                loc = it.exec_snippet(m, f"def {fname}(self, other):\n    return hook(self, other)\nwrapped = binary_operation({fname})\n", {"hook": Builtin("hook", hook)})
                r = it.call(loc["wrapped"], [a, b], {})
                return r, log, a, b
            paths = e.explore(t)

            def post(p, fname=fname, scenario=scenario):
                fwd = {"__sub__": "__rsub__", "__rsub__": "__sub__", "__lt__": "__gt__"}[fname]
                if scenario == "ok":
                    return z3.BoolVal(p.kind == "return" and p.value[0] == "F-RESULT" and [x[0] for x in p.value[1]] == ["f"])
                if scenario == "fallback":
                    if p.kind != "return":
                        return z3.BoolVal(False)
                    r, log, a, b = p.value
                    return z3.BoolVal(r == "R-RESULT" and len(log) == 2 and log[0] == ("f", a, b) and log[1] == ("reflected", fwd, a))
                if p.kind != "raise" or not p.raised(e, "GuppyTypeError"):
                    return z3.BoolVal(False)
                d = p.value.fields["error"]
                args = d.fields["args"]
                want = ("LEFT_TY", "RIGHT_TY") if fname in ("__sub__", "__lt__") else ("RIGHT_TY", "LEFT_TY")
                return z3.BoolVal(args[0] == "NODE" and (args[1], args[2]) == want)
            chk.prove_paths(f"binary_operation[{fname},{scenario}]:own-method-first,then-reflected-of-other-with-swapped-operands,then-error(types-in-source-order)",
                            paths, post, func=f"{MOD}:binary_operation")
    for k in ("guppylang_internals.tracing.state:get_tracing_state", "guppylang_internals.tracing.unpacking:guppy_object_from_py",
              "guppylang_internals.checker.errors.type_errors:BinaryOperatorNotDefinedError"):
        e.models.pop(k, None)

    # ---- completeness: every operator / builtin that regular mode resolves through a dunder method has its Python
    # protocol method on the traced values (else the comptime body dies in the interpreter with a TypeError where
    # the regular body compiles): the operator tables of the checker, forward and reflected, and the Python
    # builtins the std library dispatches by dunder (abs, bool, divmod, float, int, len, pow, round)
    obj_tree = ast.parse(open(os.path.join(chk.repo, "guppylang-internals/src/guppylang_internals/tracing/object.py")).read())
    mixin = [c for c in obj_tree.body if isinstance(c, ast.ClassDef) and c.name == "DunderMixin"][0]
    have = {f.name for f in mixin.body if isinstance(f, ast.FunctionDef)}
    ec_tree = ast.parse(open(os.path.join(chk.repo, "guppylang-internals/src/guppylang_internals/checker/expr_checker.py")).read())
    tables = {}
    for st in ec_tree.body:
        tg = st.targets[0] if isinstance(st, ast.Assign) else st.target if isinstance(st, ast.AnnAssign) else None
        if isinstance(tg, ast.Name) and tg.id in ("binary_table", "unary_table") and getattr(st, "value", None) is not None:
            tables[tg.id] = [c.value for n in ast.walk(st.value) if isinstance(n, ast.Tuple) for c in n.elts if isinstance(c, ast.Constant) and isinstance(c.value, str) and c.value.startswith("__")]
    std_dunders = set()
    for fn_ in ("builtins.py", "num.py"):
        pth = os.path.join(chk.repo, "guppylang/src/guppylang/std", fn_)
        if os.path.exists(pth):
            for n in ast.walk(ast.parse(open(pth).read())):
                if isinstance(n, ast.Call) and ast.unparse(n.func) == "DunderChecker" and n.args and isinstance(n.args[0], ast.Constant):
                    std_dunders.add(n.args[0].value)
    PY_PROTOCOL = {"__abs__": ["__abs__"], "__bool__": ["__bool__"], "__divmod__": ["__divmod__", "__rdivmod__"], "__float__": ["__float__"], "__int__": ["__int__"], "__len__": ["__len__"],
                   "__pow__": ["__pow__", "__rpow__"], "__round__": ["__round__"]}
    need = set(tables.get("binary_table", [])) | set(tables.get("unary_table", [])) | {m_ for d_ in std_dunders for m_ in PY_PROTOCOL.get(d_, [])}
    chk.record("DunderMixin:operator-tables-and-std-dunders-found", len(tables.get("binary_table", [])) >= 20 and len(std_dunders) >= 6, f"{len(need)} protocol methods needed", kind="reachability")
    # __len__ lives on the two object classes themselves; `@` is outside "operations available in both modes": definitions
    # share the mixin and `T @ owned` in annotations relies on them NOT answering __matmul__ (Python then asks the flag's __rmatmul__)
    missing = sorted(need - have - {"__len__", "__matmul__", "__rmatmul__"})
    o_ = chk.record("DunderMixin:defines-the-Python-protocol-method-of-every-operator-and-dunder-dispatched-builtin-of-regular-mode", not missing, "missing: " + ", ".join(missing) if missing else f"{len(need)} methods",
                    func=f"{MOD}:DunderMixin", backend="structural")
    if missing:
        from pyvc.report import run_replay
        res_ = run_replay(REPLAY_PROTOCOL, {}, chk.repo, timeout=900)
        o_.replay = {"confirmed": bool(res_.get("violates")), "script": REPLAY_PROTOCOL, "input": {}, "native": res_}

    # ---- mocked builtins: GuppyObject -> dunder; anything else -> the real builtin
    e.func_info(BM, "int.__new__")
    e.func_info(BM, "float.__new__")
    e.func_info(BM, "len")
    for name, dunder in (("int", "__int__"), ("float", "__float__"), ("len", "__len__")):
        for kind in ("guppy", "guppy:Nat", "guppy:Int", "guppy:Float", "guppy-struct", "plain"):
            def t(it, name=name, dunder=dunder, kind=kind):
                bm = e.module(BM)
                log = []
                # `guppy-struct`: a struct value (GuppyStructObject) whose type defines the dunder itself
                GO = it.lookup_global(e.module(MOD), "GuppyStructObject" if kind == "guppy-struct" else "GuppyObject")
                e.ext_models[f"builtins.{name}"] = Builtin(f"builtins.{name}", lambda *a, **k: (log.append(("builtin", name, a)) or "BUILTIN"))
                x = SObj(GO, {dunder: Builtin(dunder, lambda *a, **k: (log.append(("dunder", dunder, a)) or "DUNDER"))}) if kind.startswith("guppy") else 42
                if ":" in kind:
                    # a traced value of a real numeric type: int() of a nat must still go through nat.__int__ (the
                    # result is an int, with the signed operators), float() of an int through int.__float__
                    NT = it.lookup_global(e.module("guppylang_internals.tys.ty"), "NumericType")
                    x.fields["_ty"] = it.call(NT, [it.getattr(it.getattr(NT, "Kind"), kind.split(":")[1])], {})
                elif kind == "guppy":
                    x.fields["_ty"] = SObj(ClassVal("OpaqueTy", builtin=True), {})
                f = it.lookup_global(bm, name)
                if isinstance(f, ClassVal):
                    new, _ = f.lookup("__new__")
                    r = it.call(new, [f, x], {})
                else:
                    r = it.call(f, [x], {})
                return r, log
            paths = e.explore(t)

            def post(p, name=name, dunder=dunder, kind=kind):
                if p.kind != "return":
                    return z3.BoolVal(False)
                r, log = p.value
                if kind.startswith("guppy"):
                    same_kind = (name, kind) in (("int", "guppy:Int"), ("float", "guppy:Float"))
                    if same_kind and log == []:
                        return z3.BoolVal(isinstance(r, SObj) and r.cls.name == "GuppyObject")     # returning the value itself is the no-op conversion
                    return z3.BoolVal(r == "DUNDER" and log == [("dunder", dunder, ())])
                return z3.BoolVal(r == "BUILTIN" and log == [("builtin", name, (42,))])
            chk.prove_paths(f"builtins_mock.{name}[{kind}]:GuppyObject->{dunder}();else->builtins.{name}", paths, post, func=f"{BM}:{name}",
                            replay=(lambda m_: {"script": REPLAY_STRUCT_DUNDERS, "input": {}}) if kind == "guppy-struct" else None)
            e.ext_models.pop(f"builtins.{name}", None)

    # ---- guppy_object_from_py: a Python constant becomes a value of the type regular mode gives the
    #      same literal (python_value_to_guppy_type, C17), independently of what was converted before
    UNP = "guppylang_internals.tracing.unpacking"
    e.func_info(UNP, "guppy_object_from_py")
    from .bindings import rec
    e.ext_models["hugr.std.int.IntVal"] = rec("IntVal")
    e.ext_models["hugr.std.float.FloatVal"] = rec("FloatVal")
    e.ext_models["hugr.std.prelude.StringVal"] = rec("StringVal")
    e.ext_models["hugr.ops.MakeTuple"] = rec("MakeTuple")
    e.models["guppylang_internals.std._internal.compiler.tket_bool:OpaqueBoolVal"] = lambda it2, a, k: SObj(ClassVal("OpaqueBoolVal"), {"v": a[0]})
    KIND = {bool: "bool", int: "Int", float: "Float", str: "str"}
    for seq in ([1, True], [True, 1], [0, False, 0.0], [False, 0], [1.0, 1, True], ["s", 1, 1, True], [(1, True), (True, 1)]):
        def t(it, seq=seq):
            from .common import ast_from_source
            state = it.call(it.lookup_global(e.module("guppylang_internals.tracing.state"), "TracingState"), [SObj(ClassVal("CompilerContext", builtin=True), {"checked_globals": None}), None, "NODE"], {})   # the real dataclass: fields added later get their defaults
            e.models["guppylang_internals.tracing.state:get_tracing_state"] = lambda it2, a, k: state
            frame = SObj(ClassVal("frame", builtin=True), {"f_code": SObj(ClassVal("code", builtin=True), {"co_filename": "user.py"}), "f_lineno": 7})
            e.models["guppylang_internals.tracing.util:get_calling_frame"] = lambda it2, a, k: frame
            n = [0]

            def load(v):
                n[0] += 1
                return ("WIRE", n[0])
            builder = SObj(ClassVal("Builder", builtin=True), {"load": Builtin("load", load), "add_op": Builtin("add_op", lambda op, *w: ("NODE", op, w))})
            f = it.lookup_global(e.module(UNP), "guppy_object_from_py")
            node = ast_from_source(it, "x", "eval").fields["body"]
            return [it.call(f, [v, builder, node, None], {}) for v in seq]
        paths = e.explore(t)

        def tyname(ty):
            if ty.cls.name == "NumericType":
                return ty.fields["kind"].name
            if ty.cls.name == "TupleType":
                return tuple(tyname(a.fields["ty"]) if a.cls.name == "TypeArg" else tyname(a) for a in ty.fields["args"])
            if ty.cls.name == "OpaqueType":
                return ty.fields["defn"].fields.get("name")
            return ty.cls.name

        def want(v):
            if isinstance(v, tuple):
                return tuple(want(x) for x in v)
            return KIND[type(v)]

        def post(p, seq=seq):
            if p.kind != "return":
                return z3.BoolVal(False)
            got = [tyname(o.fields["_ty"]) for o in p.value]
            return z3.BoolVal(got == [want(v) for v in seq])
        chk.prove_paths(f"guppy_object_from_py{seq}:each-constant-gets-the-type-of-its-own-python-value(history-independent)", paths, post,
                        func=f"{UNP}:guppy_object_from_py")
    chk.expected_min_obligations = 90
    chk.not_covered += ["unpack_guppy_object / guppy_object_from_py structural recursion (need the hugr builder)",
                        "that the traced object's method of a given name is the same definition regular mode resolves (both use Globals.get_instance_func)"]
    chk.assumptions += ["regular-mode dispatch is as proved in C04 (_synthesize_binary, operator tables)",
                        "functools.wraps / capture_guppy_errors / hide_trace decorators are transparent for dispatch (they only rewrap exceptions)"]
    # calls to Guppy functions: after a call that borrowed (parts of) a comptime value, the caller's
    # Python-side objects carry the callee's updates — every component gets the returned wire,
    # copyable or not (shared obligations with C22)
    from .C22 import upv_obligations
    upv_obligations(chk, tag="calls-to-guppy-functions:", consts=True)
    struct_attribute_obligations(chk, e, m)
    chk.use_engine(e)
    chk.section("trace_call", lambda: trace_call_obligations(chk))
    chk.section("return-shapes", lambda: return_shapes(chk))
    chk.section("value-semantics", lambda: value_semantics(chk))
    chk.section("comptime-parameters", lambda: comptime_parameters(chk))


REPLAY_STRUCT_METHOD = r'''
import guppy_plainbool
import tempfile, importlib.util, os, sys, shutil
src = """from guppylang import guppy
from guppylang.std.builtins import array, result, comptime
@guppy.struct
class Acc:
    vals: array[int, 2]
    @guppy
    def bump(self: "Acc", k: int) -> int:
        self.vals[1] = self.vals[1] + k
        return self.vals[1]
@guppy
def reg(a: int) -> tuple[int, int, int]:
    s = Acc(array(a, 2))
    r = s.bump(10)
    t = s.bump(100)
    return r, t, s.vals[1]
@guppy.comptime
def cmp(a: int) -> tuple[int, int, int]:
    s = Acc([a + 0, 2])
    r = s.bump(10)
    t = s.bump(100)
    return r, t, s.vals[1]
@guppy
def main() -> None:
    r, t, v = reg(1)
    result("r", r); result("t", t); result("v", v)
    result("sep", 0)
    r, t, v = cmp(1)
    result("r", r); result("t", t); result("v", v)
"""
d = tempfile.mkdtemp(dir=os.environ.get("TMPDIR", "/var/tmp")); fn = os.path.join(d, "replay_c21s.py"); open(fn, "w").write(src)
spec = importlib.util.spec_from_file_location("replay_c21s", fn); m = importlib.util.module_from_spec(spec); sys.modules["replay_c21s"] = m
try:
    spec.loader.exec_module(m)
    got = [list(x) for x in list(m.main.emulator(n_qubits=1).run().results)[0].entries]
    k = got.index(["sep", 0])
    out = {"violates": got[:k] != got[k + 1:], "regular": got[:k], "comptime": got[k + 1:]}
except Exception as ex:
    out = {"violates": False, "error": repr(ex)[:300]}
shutil.rmtree(d, ignore_errors=True)
print(json.dumps(out))
'''


def struct_attribute_obligations(chk, e, m):
    """GuppyStructObject.__getattr__ / __setattr__ (tracing/object.py): a comptime struct is a Python-side
    record of its fields.  Regular mode resolves `s.f` to the field place and `s.m(xs)` to the instance
    function m of the struct type called with the place `s` itself (so a borrowed `self` is written
    back into s).  Comptime must do the same with the record:
      * `s.f`  is the stored field value, the very object, no lookup of functions;
      * `s.m`  for an instance function F of the type is a callable that, applied to xs, calls the
               traced definition of F with (s, *xs) where the first argument IS s (not a packed copy:
               trace_call writes the callee's updates back into the argument objects it was given);
      * an unknown name raises AttributeError;
      * `s.f = v` stores v under f and leaves every other field alone; on a frozen record it raises
               GuppyComptimeError and changes nothing; an unknown name raises AttributeError."""
    e.func_info(MOD, "GuppyStructObject.__getattr__")
    e.func_info(MOD, "GuppyStructObject.__setattr__")
    FIELDS = ("a", "b", "c")

    def setup(it, frozen, funcs):
        log = []
        GSO = it.lookup_global(m, "GuppyStructObject")
        glob = SObj(ClassVal("Globals", builtin=True), {})

        def gif(it2, a, k):
            log.append(("get_instance_func", a[1], a[2]))
            return funcs.get(a[2])
        e.models["guppylang_internals.checker.core:Globals.get_instance_func"] = gif
        glob.fields["get_instance_func"] = Builtin("gif", lambda ty, name: gif(it, [glob, ty, name], {}))
        st = SObj(ClassVal("State"), {"globals": glob})
        e.models["guppylang_internals.tracing.state:get_tracing_state"] = lambda it2, a, k: st

        def tdm(it2, a, k):
            d = a[0]
            return Builtin("traced", lambda *xs: (log.append(("call", d, list(xs))) or ("RET", d)))
        e.models[f"{MOD}:TracingDefMixin"] = tdm

        def get_method(it2, a, k):
            log.append(("_get_method", a[1]))
            return Builtin("packed-method", lambda *xs: (log.append(("call-on-packed-copy", a[1], list(xs))) or ("RET", "packed")))
        e.models[f"{MOD}:DunderMixin._get_method"] = get_method
        vals = {f: SObj(ClassVal("Val"), {"n": f}) for f in FIELDS}
        ty = SObj(ClassVal("StructType"), {"name": "S"})
        s = SObj(GSO, {"_ty": ty, "_field_values": dict(vals), "_frozen": frozen})
        return s, vals, log, ty

    def cleanup():
        for k in ("guppylang_internals.checker.core:Globals.get_instance_func", "guppylang_internals.tracing.state:get_tracing_state", f"{MOD}:TracingDefMixin", f"{MOD}:DunderMixin._get_method"):
            e.models.pop(k, None)
    n = 0
    for frozen in (False, True):
        for key in FIELDS + ("meth", "nothing"):
            for nx in (0, 1, 2):
                if key != "meth" and nx:
                    continue

                def t(it, frozen=frozen, key=key, nx=nx):
                    F = SObj(ClassVal("Def"), {"name": "meth"})
                    s, vals, log, ty = setup(it, frozen, {"meth": F})
                    r = it.getattr(s, key)
                    xs = [SObj(ClassVal("Arg"), {"i": i}) for i in range(nx)]
                    if key == "meth":
                        r = it.call(r, xs, {})
                    return r, s, vals, log, F, xs, ty
                paths = e.explore(t)

                def post(p, key=key):
                    if key == "nothing":
                        return z3.BoolVal(p.kind == "raise" and p.raised(e, "AttributeError"))
                    if p.kind != "return":
                        return z3.BoolVal(False)
                    r, s, vals, log, F, xs, ty = p.value
                    same = all(s.fields["_field_values"].get(f) is vals[f] for f in FIELDS) and len(s.fields["_field_values"]) == len(FIELDS)
                    if key in FIELDS:
                        return z3.BoolVal(r is vals[key] and log == [] and same)
                    calls = [x for x in log if x[0] != "get_instance_func"]
                    ok = len(calls) == 1 and calls[0][0] == "call" and calls[0][1] is F and len(calls[0][2]) == 1 + len(xs) and calls[0][2][0] is s \
                        and all(a is b for a, b in zip(calls[0][2][1:], xs)) and r == ("RET", F) and same
                    ok = ok and all(x[1] is ty and x[2] == "meth" for x in log if x[0] == "get_instance_func")
                    return z3.BoolVal(ok)
                what = {"nothing": "unknown-name-raises-AttributeError", "meth": f"method-called-with-the-struct-object-itself-first-and-the-{nx}-arguments-in-order"}.get(key, "field-is-the-stored-object(no-function-lookup)")
                chk.prove_paths(f"GuppyStructObject.__getattr__[{'frozen' if frozen else 'mutable'},{key},{nx}]:{what}", paths, post, func=f"{MOD}:GuppyStructObject.__getattr__",
                                replay=lambda m_: {"script": REPLAY_STRUCT_METHOD, "input": {}})
                n += 1
        for key in FIELDS + ("nothing",):
            def t(it, frozen=frozen, key=key):
                s, vals, log, ty = setup(it, frozen, {})
                v = SObj(ClassVal("Val"), {"n": "new"})
                it.setattr(s, key, v)
                return s, vals, v
            paths = e.explore(t)

            def post(p, frozen=frozen, key=key):
                if key == "nothing":
                    return z3.BoolVal(p.kind == "raise" and p.raised(e, "AttributeError"))
                if frozen:
                    return z3.BoolVal(p.kind == "raise" and p.raised(e, "GuppyComptimeError"))
                if p.kind != "return":
                    return z3.BoolVal(False)
                s, vals, v = p.value
                fv = s.fields["_field_values"]
                return z3.BoolVal(fv.get(key) is v and all(fv.get(f) is vals[f] for f in FIELDS if f != key) and len(fv) == len(FIELDS))
            chk.prove_paths(f"GuppyStructObject.__setattr__[{'frozen' if frozen else 'mutable'},{key}]:" + ("raises" if frozen or key == "nothing" else "stores-the-value-under-that-field-only"), paths, post,
                            func=f"{MOD}:GuppyStructObject.__setattr__")
            n += 1
    cleanup()
    chk.record("GuppyStructObject:attribute-cases-explored", n >= 20, str(n), kind="reachability")


REPLAY_TRACE_CALL = r'''
import guppy_plainbool
import tempfile, importlib.util, os, sys, shutil
BODY = """    bump(xs)
    a = xs[0] * 100 + xs[1]
    bump(xs)
    return a * 1000 + xs[0] * 100 + xs[1]
"""
src = """from guppylang import guppy
from guppylang.std.builtins import array, owned, result
@guppy
def bump(xs: array[int, 2]) -> None:
    xs[0] += 1
    xs[1] += 2
@guppy.comptime
def c_owned(xs: array[int, 2] @owned) -> int:
""" + BODY + """@guppy
def r_owned(xs: array[int, 2] @owned) -> int:
""" + BODY + """@guppy.comptime
def c_borrowed(xs: array[int, 2]) -> int:
""" + BODY + """@guppy
def r_borrowed(xs: array[int, 2]) -> int:
""" + BODY + """@guppy.comptime
def c_local() -> int:
    xs = [1, 2]
""" + BODY + """@guppy
def r_local() -> int:
    xs = array(1, 2)
""" + BODY + """@guppy
def main() -> None:
    result("c_owned", c_owned(array(1, 2))); result("r_owned", r_owned(array(1, 2)))
    ys = array(1, 2)
    result("c_borrowed", c_borrowed(ys))
    zs = array(1, 2)
    result("r_borrowed", r_borrowed(zs))
    result("c_local", c_local()); result("r_local", r_local())
"""
d = tempfile.mkdtemp(dir=os.environ.get("TMPDIR", "/var/tmp")); fn = os.path.join(d, "replay_c21t.py"); open(fn, "w").write(src)
spec = importlib.util.spec_from_file_location("replay_c21t", fn); m = importlib.util.module_from_spec(spec); sys.modules["replay_c21t"] = m
spec.loader.exec_module(m)
ent = {t: int(v) for t, v in list(m.main.emulator(n_qubits=1).run().results)[0].entries}
shutil.rmtree(d, ignore_errors=True)
bad = [k for k in ("owned", "borrowed", "local") if ent["c_" + k] != ent["r_" + k]]
print(json.dumps({"violates": bool(bad), "observed": ent, "required": "the comptime and the regular version of the same body report the same value",
                  "detail": "; ".join(f"{k}: comptime {ent['c_' + k]} vs regular {ent['r_' + k]}" for k in bad)}))
'''


REPLAY_TRACE_OVERLOAD = r'''
import tempfile, importlib.util, os, sys, shutil
from guppylang_internals.error import GuppyError, GuppyComptimeError
src = """from guppylang import guppy
from guppylang.std.quantum import qubit, h, discard
@guppy
def b1(q: qubit) -> None:
    h(q)
@guppy
def b2(q: qubit, r: qubit) -> None:
    h(q)
@guppy.overload(b1, b2)
def hh(): ...
@guppy.comptime
def over() -> None:
    q = qubit(); hh(q); hh(q); discard(q)
@guppy.comptime
def direct() -> None:
    q = qubit(); b1(q); b1(q); discard(q)
"""
d = tempfile.mkdtemp(dir=os.environ.get("TMPDIR", "/var/tmp")); fn = os.path.join(d, "replay_c21o.py"); open(fn, "w").write(src)
spec = importlib.util.spec_from_file_location("replay_c21o", fn); m = importlib.util.module_from_spec(spec); sys.modules["replay_c21o"] = m
spec.loader.exec_module(m)
res = {}
for name in ("direct", "over"):
    try:
        getattr(m, name).compile_function(); res[name] = "compiled"
    except (GuppyError, GuppyComptimeError) as ex:
        res[name] = "rejected: " + str(ex)[:120]
shutil.rmtree(d, ignore_errors=True)
print(json.dumps({"violates": res["direct"] != res["over"], "observed": res, "required": "the call through the overload behaves like the direct call of the variant it picks"}))
'''


REPLAY_TRACE_REFLECTED = r'''
import tempfile, importlib.util, os, sys, shutil
from guppylang_internals.error import GuppyError, GuppyComptimeError
src = """from guppylang import guppy
from guppylang.std.builtins import owned
from guppylang.std.quantum import qubit, discard
@guppy.struct
class V:
    q: qubit
    @guppy
    def __add__(self: "V" @owned, other: int) -> int:
        discard(self.q)
        return other
@guppy.struct
class W:
    q: qubit
    @guppy
    def __radd__(self: "W" @owned, other: V @owned) -> int:
        discard(self.q); discard(other.q)
        return 1
@guppy
def regular() -> int:
    v = V(qubit()); w = W(qubit())
    return v + w
@guppy.comptime
def traced() -> int:
    v = V(qubit()); w = W(qubit())
    return v + w
"""
d = tempfile.mkdtemp(dir=os.environ.get("TMPDIR", "/var/tmp")); fn = os.path.join(d, "replay_c21x.py"); open(fn, "w").write(src)
spec = importlib.util.spec_from_file_location("replay_c21x", fn); m = importlib.util.module_from_spec(spec); sys.modules["replay_c21x"] = m
spec.loader.exec_module(m)
res = {}
for name in ("regular", "traced"):
    try:
        getattr(m, name).compile_function(); res[name] = "compiled"
    except (GuppyError, GuppyComptimeError) as ex:
        res[name] = "rejected: " + str(ex)[:100].replace(chr(10), " ")
shutil.rmtree(d, ignore_errors=True)
print(json.dumps({"violates": res["regular"] != res["traced"], "observed": res, "required": "v + w resolves to W.__radd__ in both modes"}))
'''


REPLAY_STRUCT_DUNDERS = r'''
import guppy_plainbool
import tempfile, importlib.util, os, sys, shutil
BODY = "    s = S(x)\n    return int(s) * 100 + int(float(s) * 2.0) * 10 + len(s)\n"
src = """from guppylang import guppy
from guppylang.std.builtins import result
@guppy.struct
class S:
    a: int
    @guppy
    def __int__(self: "S") -> int:
        return self.a + 1
    @guppy
    def __float__(self: "S") -> float:
        return 2.5
    @guppy
    def __len__(self: "S") -> int:
        return 3
@guppy.comptime
def c(x: int) -> int:
""" + BODY + """@guppy
def r(x: int) -> int:
""" + BODY + """@guppy
def main() -> None:
    result("regular", r(7)); result("comptime", c(7))
"""
d = tempfile.mkdtemp(dir=os.environ.get("TMPDIR", "/var/tmp")); fn = os.path.join(d, "replay_c21s.py"); open(fn, "w").write(src)
spec = importlib.util.spec_from_file_location("replay_c21s", fn); m = importlib.util.module_from_spec(spec); sys.modules["replay_c21s"] = m
spec.loader.exec_module(m)
try:
    ent = {t: int(v) for t, v in list(m.main.emulator(n_qubits=1).run().results)[0].entries}
    out = {"violates": ent.get("comptime") != ent.get("regular"), "observed": ent}
except Exception as ex:
    out = {"violates": True, "observed": type(ex).__name__ + ": " + str(ex)[:160]}
shutil.rmtree(d, ignore_errors=True)
out["required"] = "int(), float() and len() of a struct defining the dunder give the same value in both modes"
print(json.dumps(out))
'''


REPLAY_PROTOCOL = r'''
import guppy_plainbool
import tempfile, importlib.util, os, sys, shutil
BODY = "    q, r = divmod(17, x)\n    q2, r2 = divmod(x, 3)\n    return q * 10000 + r * 1000 + q2 * 100 + r2 * 10 + int(round(f)) + abs(-x)\n"
src = """from guppylang import guppy
from guppylang.std.builtins import result
@guppy.comptime
def c(x: int, f: float) -> int:
""" + BODY + """@guppy
def r(x: int, f: float) -> int:
""" + BODY + """@guppy
def main() -> None:
    result("regular", r(5, 2.6)); result("comptime", c(5, 2.6))
"""
d = tempfile.mkdtemp(dir=os.environ.get("TMPDIR", "/var/tmp")); fn = os.path.join(d, "replay_c21b.py"); open(fn, "w").write(src)
spec = importlib.util.spec_from_file_location("replay_c21b", fn); m = importlib.util.module_from_spec(spec); sys.modules["replay_c21b"] = m
spec.loader.exec_module(m)
try:
    ent = {t: int(v) for t, v in list(m.main.emulator(n_qubits=1).run().results)[0].entries}
    out = {"violates": ent.get("comptime") != ent.get("regular"), "observed": ent}
except Exception as ex:
    out = {"violates": True, "observed": type(ex).__name__ + ": " + str(ex)[:160]}
shutil.rmtree(d, ignore_errors=True)
out["required"] = "divmod (either operand order), round and abs of traced values give what the regular body gives"
print(json.dumps(out))
'''


def trace_call_obligations(chk, tag=""):
    """trace_call (tracing/function.py): a call of a Guppy function from a comptime body.  After the call
    has been compiled, for EVERY borrowed parameter — whatever Python object was passed for it (traced
    object, list, the frozen list of an owned array argument, tuple, struct object) — the caller's object
    is updated from the wire the callee handed back: update_packed_value(the very argument object,
    GuppyObject(type of the argument, that wire), builder), once, in parameter order, after the call was
    compiled; a False result is a GuppyComptimeError; parameters that are not borrowed are left alone;
    the result is the unpacked object of the call's result wire.  (Later reads in the comptime body see
    what a regular body sees.)"""
    import itertools
    FN = "guppylang_internals.tracing.function"
    e = mk_engine(chk)
    e.func_info(FN, "trace_call")
    m = e.module(FN)
    KINDS = ("object", "list", "frozenlist", "tuple")
    log = []
    OBJ = ClassVal("GuppyObjectStub", builtin=True)

    def world(it, kinds, flags, fail_at):
        del log[:]
        FL = it.lookup_global(e.module("guppylang_internals.tracing.frozenlist"), "frozenlist")
        IF = it.lookup_global(e.module("guppylang_internals.tys.ty"), "InputFlags")
        args = []
        for i, k in enumerate(kinds):
            if k == "object":
                args.append(SObj(OBJ, {"i": i, "kind": "arg"}))
            elif k == "list":
                args.append([SObj(OBJ, {"i": i, "kind": "elem"})])
            elif k == "frozenlist":
                args.append(SObj(FL, {"i": i, "kind": "frozen"}))
            else:
                args.append((SObj(OBJ, {"i": i, "kind": "elem"}),))
        dfg_store = {}
        DFG = ClassVal("DFContainerStub", builtin=True)
        DFG.attrs["__setitem__"] = Builtin("__setitem__", lambda s_, k_, v_: (log.append(("dfg-set", k_.fields["name"], v_)), dfg_store.__setitem__(k_.fields["name"], v_))[0])
        DFG.attrs["__getitem__"] = Builtin("__getitem__", lambda s_, k_: dfg_store[k_.fields["name"]])
        dfg = SObj(DFG, {"builder": "BUILDER"})
        state = SObj(ClassVal("TracingState", builtin=True), {"dfg": dfg, "node": "NODE", "ctx": "CTX", "globals": "GLOBALS"})
        e.models["guppylang_internals.tracing.state:get_tracing_state"] = lambda it2, a, k2: state

        def from_py(it2, a, k2):
            arg = a[0]
            idx = args.index(arg) if isinstance(arg, SObj) else [j for j, x in enumerate(args) if x is arg][0]
            o = SObj(OBJ, {"_ty": ("ty", idx), "src": arg, "_used": None, "_id": ("id", idx)})
            o.fields["_use_wire"] = Builtin("_use_wire", lambda f: ("wire-in", idx))
            return o
        e.models["guppylang_internals.tracing.unpacking:guppy_object_from_py"] = from_py
        e.models["guppylang_internals.checker.core:ComptimeVariable"] = lambda it2, a, k2: SObj(ClassVal("ComptimeVariable", builtin=True), {"name": a[0], "ty": a[1], "static_value": k2.get("static_value")})
        e.models["guppylang_internals.checker.core:Locals"] = lambda it2, a, k2: ("locals", a[0])
        e.models["guppylang_internals.checker.core:Context"] = lambda it2, a, k2: ("context",) + tuple(a)
        e.models["guppylang_internals.ast_util:with_loc"] = lambda it2, a, k2: a[1]
        e.models["guppylang_internals.ast_util:with_type"] = lambda it2, a, k2: a[1]
        e.models["guppylang_internals.nodes:PlaceNode"] = lambda it2, a, k2: ("place-node", a[0])

        def compile_(node, dfg_):
            log.append(("compile", node))
            # compiling the call re-binds the borrowed arguments to the wires the callee hands back
            for j, fl in enumerate(flags):
                if fl == "Inout":
                    dfg_store[f"%tmp{j}"] = ("wire-back", j)
            return "RET-WIRE"
        e.models["guppylang_internals.compiler.expr_compiler:ExprCompiler"] = lambda it2, a, k2: SObj(ClassVal("ExprCompilerStub", builtin=True), {"compile": Builtin("compile", compile_)})
        e.models["guppylang_internals.tracing.object:GuppyObject"] = lambda it2, a, k2: SObj(OBJ, {"_ty": a[0], "_wire": a[1], "kind": "fresh"})

        def upv(it2, a, k2):
            log.append(("update", a[0], a[1].fields["_ty"], a[1].fields["_wire"], a[2]))
            return len([x for x in log if x[0] == "update"]) - 1 != fail_at
        e.models["guppylang_internals.tracing.unpacking:update_packed_value"] = upv
        e.models["guppylang_internals.tracing.unpacking:unpack_guppy_object"] = lambda it2, a, k2: ("unpacked", a[0].fields["_ty"], a[0].fields["_wire"], a[1])
        it.ctx.mod_globals(m)["tmp_vars"] = [f"%tmp{j}" for j in range(len(kinds) + 1)]
        inputs = [SObj(ClassVal("FuncInput", builtin=True), {"flags": it.getattr(IF, fl), "ty": ("declared", j)}) for j, fl in enumerate(flags)]
        func = SObj(ClassVal("CallableDefStub", builtin=True), {"ty": SObj(ClassVal("FT", builtin=True), {"inputs": inputs})})
        func.fields["synthesize_call"] = Builtin("synthesize_call", lambda exprs, node, ctx: (log.append(("synthesize", list(exprs))), (("call-node", list(exprs)), "RET-TY"))[1])
        return func, args

    n = 0
    for nargs in (1, 2):
        for kinds in itertools.product(KINDS, repeat=nargs):
            for flags in itertools.product(("Inout", "NoFlags", "Owned"), repeat=nargs):
                if nargs == 2 and kinds[0] == "tuple":
                    continue
                n_borrowed = sum(1 for f_ in flags if f_ == "Inout")
                for fail_at in [None] + list(range(n_borrowed)):
                    def t(it, kinds=kinds, flags=flags, fail_at=fail_at):
                        func, args = world(it, kinds, flags, fail_at)
                        r = it.call(it.lookup_global(m, "trace_call"), [func, *args], {})
                        return r, list(log), args

                    def post(p, kinds=kinds, flags=flags, fail_at=fail_at):
                        lg = p.value[1] if p.kind == "return" else list(log)
                        if fail_at is not None:
                            return z3.BoolVal(p.kind == "raise" and p.raised(e, "GuppyComptimeError"))
                        if p.kind != "return":
                            return z3.BoolVal(False)
                        r, lg, args = p.value
                        ups = [x for x in lg if x[0] == "update"]
                        want = [(j, ("ty", j), ("wire-back", j)) for j, f_ in enumerate(flags) if f_ == "Inout"]
                        ok = len(ups) == len(want) and all(u[1] is args[j] and u[2] == ty and u[3] == w and u[4] == "BUILDER" for u, (j, ty, w) in zip(ups, want))
                        ic = [k_ for k_, x in enumerate(lg) if x[0] == "compile"]
                        iu = [k_ for k_, x in enumerate(lg) if x[0] == "update"]
                        ok = ok and len(ic) == 1 and all(k_ > ic[0] for k_ in iu)
                        ok = ok and r == ("unpacked", "RET-TY", "RET-WIRE", "BUILDER")
                        return z3.BoolVal(bool(ok))
                    chk.prove_paths(f"{tag}trace_call[args={','.join(kinds)};flags={','.join(flags)};update-fails-at={fail_at}]:every-borrowed-argument-object-is-updated-from-the-wire-handed-back(once,in-order,after-the-call)/\\others-untouched/\\failed-update-raises",
                                    e.explore(t), post, func=f"{FN}:trace_call", replay=lambda m_: {"script": REPLAY_TRACE_CALL, "input": {}})
                    n += 1
    # an OVERLOADED callee knows its signature only once a variant has been picked: the borrowed
    # parameters are those of the variant the call resolved to (func.ty is a dummy () -> None)
    for flags in itertools.product(("Inout", "NoFlags", "Owned"), repeat=2):
        def t_ov(it, flags=flags):
            func, args = world(it, ("object", "list"), flags, None)
            OV = it.lookup_global(m, "OverloadedFunctionDef")
            GC = it.lookup_global(e.module("guppylang_internals.nodes"), "GlobalCall")
            CD = it.lookup_global(m, "CallableDef")
            variant = SObj(CD, {"ty": func.fields["ty"], "id": "VARIANT"})
            ov = SObj(OV, {"ty": SObj(ClassVal("FT", builtin=True), {"inputs": []}), "id": "OVERLOADED"})
            ov.fields["synthesize_call"] = Builtin("synthesize_call", lambda exprs, node, ctx: (SObj(GC, {"def_id": "VARIANT", "args": list(exprs), "type_args": []}), "RET-TY"))
            st = e.models["guppylang_internals.tracing.state:get_tracing_state"](it, [], {})
            st.fields["globals"] = {"VARIANT": variant}
            r = it.call(it.lookup_global(m, "trace_call"), [ov, *args], {})
            return r, list(log), args

        def post_ov(p, flags=flags):
            if p.kind != "return":
                return z3.BoolVal(False)
            r, lg, args = p.value
            ups = [x for x in lg if x[0] == "update"]
            want = [(j, ("ty", j), ("wire-back", j)) for j, f_ in enumerate(flags) if f_ == "Inout"]
            return z3.BoolVal(len(ups) == len(want) and all(u[1] is args[j] and u[2] == ty and u[3] == w for u, (j, ty, w) in zip(ups, want)))
        chk.prove_paths(f"{tag}trace_call[overloaded callee;flags-of-the-chosen-variant={','.join(flags)}]:borrowed-arguments-of-the-chosen-variant-are-updated", e.explore(t_ov), post_ov,
                        func=f"{FN}:trace_call", replay=lambda m_: {"script": REPLAY_TRACE_OVERLOAD, "input": {}})
    # a call that does not type check has not used its arguments: their use marks (and the leak registry) are
    # as before, so that e.g. the reflected operator can be tried on the same values next
    for prior in ("unused", "used-before"):
        for dro in (False, True):
            def t_fail(it, prior=prior, dro=dro):
                func, args = world(it, ("object", "object"), ("Owned", "Owned"), None)
                st = e.models["guppylang_internals.tracing.state:get_tracing_state"](it, [], {})
                GE = it.lookup_global(e.module("guppylang_internals.error"), "GuppyError")
                objs = []
                for j in range(2):
                    o = SObj(OBJ, {"_ty": SObj(ClassVal("Ty", builtin=True), {"droppable": dro, "copyable": False, "j": j}), "_id": ("id", j), "_used": None if prior == "unused" else ("EARLIER-USE", j)})

                    def use(f, o=o, j=j):
                        o.fields["_used"] = ("USED-BY-THIS-CALL", j)
                        st.fields["unused_undroppable_objs"].pop(("id", j), None)
                        return ("wire-in", j)
                    o.fields["_use_wire"] = Builtin("_use_wire", use)
                    objs.append(o)
                reg = {("id", j): objs[j] for j in range(2)} if (prior == "unused" and not dro) else {}
                st.fields["unused_undroppable_objs"] = reg
                e.models["guppylang_internals.tracing.unpacking:guppy_object_from_py"] = lambda it2, a, k2: objs[[x is a[0] for x in args].index(True)]

                def failing(exprs, node, ctx):
                    raise PyRaise(it.call(GE, [SObj(ClassVal("Diag"), {"kind": "does-not-type-check"})], {}))
                func.fields["synthesize_call"] = Builtin("synthesize_call", failing)
                it.ctx.ghost.update(objs=objs, st=st, want_reg=dict(reg))
                return it.call(it.lookup_global(m, "trace_call"), [func, *args], {})

            def post_fail(p, prior=prior):
                g = p.ctx.ghost
                ok = p.kind == "raise" and p.raised(e, "GuppyError")
                for j, o in enumerate(g["objs"]):
                    ok = ok and o.fields["_used"] == (None if prior == "unused" else ("EARLIER-USE", j))
                reg = g["st"].fields["unused_undroppable_objs"]
                ok = ok and set(reg.keys()) == set(g["want_reg"].keys()) and all(reg[k_] is g["want_reg"][k_] for k_ in reg)
                return z3.BoolVal(bool(ok))
            chk.prove_paths(f"{tag}trace_call[call-does-not-type-check;arguments-{prior};droppable={dro}]:the-error-propagates/\\use-marks-and-leak-registry-as-before", e.explore(t_fail), post_fail,
                            func=f"{FN}:trace_call", replay=lambda m_: {"script": REPLAY_TRACE_REFLECTED, "input": {}})
    chk.record(f"{tag}trace_call:argument-shapes-explored", n >= 100, str(n), kind="reachability")
    chk.use_engine(e)


REPLAY_RETURN = r'''
import guppy_plainbool
import tempfile, importlib.util, os, sys, shutil
from guppylang_internals.error import GuppyError
SHAPES = {
    "scalar": ("int", "x + 1", "result('{m}', r)"),
    "none": ("None", "None", "result('{m}', 0)"),
    "pair": ("tuple[int, int]", "(x + 1, x + 2)", "result('{m}', r[0] * 10 + r[1])"),
    "one-tuple": ("tuple[int]", "(x + 1,)", "result('{m}', r[0])"),
    "nested": ("tuple[tuple[int, int], int]", "((x, x + 1), x + 2)", "result('{m}', r[0][0] * 100 + r[0][1] * 10 + r[1])"),
    "one-tuple-of-pair": ("tuple[tuple[int, int]]", "((x, x + 1),)", "result('{m}', r[0][0] * 10 + r[0][1])"),
    "array": ("array[int, 2]", "array(x, x + 1)", "result('{m}', r[0] * 10 + r[1])"),
}
I = INPUT
ret, expr, rep = SHAPES[I["shape"]]
src = f"""from guppylang import guppy
from guppylang.std.builtins import array, result
@guppy.comptime
def c(x: int) -> {ret}:
    return {expr}
@guppy
def r_(x: int) -> {ret}:
    return {expr}
@guppy
def main() -> None:
    r = c(3)
    {rep.format(m='comptime')}
    r = r_(3)
    {rep.format(m='regular')}
"""
d = tempfile.mkdtemp(dir=os.environ.get("TMPDIR", "/var/tmp")); fn = os.path.join(d, "replay_c21r.py"); open(fn, "w").write(src)
spec = importlib.util.spec_from_file_location("replay_c21r", fn); m = importlib.util.module_from_spec(spec); sys.modules["replay_c21r"] = m
spec.loader.exec_module(m)
try:
    ent = {t: int(v) for t, v in list(m.main.emulator(n_qubits=1).run().results)[0].entries}
    out = {"violates": ent.get("comptime") != ent.get("regular"), "evaluations": 1, "observed": ent}
except GuppyError as ex:
    out = {"violates": True, "evaluations": 1, "observed": "rejected: " + type(ex.error).__name__}
except Exception as ex:
    out = {"violates": True, "evaluations": 1, "observed": "crash: " + type(ex).__name__ + ": " + str(ex)[:160]}
shutil.rmtree(d, ignore_errors=True)
out["detail"] = f"a function returning {ret}: comptime vs regular {out['observed']}"
print(json.dumps(out))
'''


def return_shapes(chk):
    """BOUNDED: a comptime function and the regular function with the same body hand the same value back, for
    every shape of the declared result (scalar, None, tuples of length 1 and 2, nested tuples, arrays)."""
    import json
    from pyvc.report import run_replay
    for shape in ("scalar", "none", "pair", "one-tuple", "nested", "one-tuple-of-pair", "array"):
        res = run_replay(REPLAY_RETURN, {"shape": shape}, chk.repo, timeout=900)
        if "evaluations" not in res:
            chk.undecided(f"bounded:comptime-return[{shape}]", "oracle run failed: " + json.dumps(res)[:600])
            continue
        o = chk.bounded_result(f"bounded:comptime-return[{shape}]:comptime-and-regular-function-with-the-same-body-report-the-same-value", not res.get("violates"), 1,
                               detail=res.get("detail"), witness={"shape": shape, "observed": res.get("observed")} if res.get("violates") else None,
                               func="guppylang_internals.tracing.function:trace_function")
        if res.get("violates"):
            o.replay.update({"script": REPLAY_RETURN, "input": {"shape": shape}})


REPLAY_VALUES = r'''
import guppy_plainbool
import tempfile, importlib.util, os, sys, shutil
BODIES = {
    "alias-in-one-list": "    xs = {L}x, x{R}\n    setfirst(xs)\n    return xs[0] * 1000 + xs[1]\n",
    "read-before-the-call": "    xs = {L}x, x + 1{R}\n    old = xs[0]\n    bump(xs)\n    return old * 1000 + xs[0]\n",
    "copy-before-the-call": "    xs = {L}x, x + 1{R}\n    ys = xs.copy()\n    bump(ys)\n    return xs[0] * 1000 + ys[0]\n",
    "two-calls": "    xs = {L}x, x + 1{R}\n    bump(xs)\n    a = xs[0]\n    bump(xs)\n    return a * 1000 + xs[0]\n",
    "nested-rows": "    m = {L}{L}x, x{R}, {L}x, x + 1{R}{R}\n    bump(m[1])\n    return m[0][0] * 1000 + m[1][0]\n",
}
I = INPUT
body = BODIES[I["case"]]
src = """from guppylang import guppy
from guppylang.std.builtins import array, result
@guppy
def setfirst(xs: array[int, 2]) -> None:
    xs[0] = 100
@guppy
def bump(xs: array[int, 2]) -> None:
    xs[0] += 100
@guppy.comptime
def c(x: int) -> int:
""" + body.format(L="[", R="]") + """@guppy
def r(x: int) -> int:
""" + body.format(L="array(", R=")") + """@guppy
def main() -> None:
    result("comptime", c(7)); result("regular", r(7))
"""
d = tempfile.mkdtemp(dir=os.environ.get("TMPDIR", "/var/tmp")); fn = os.path.join(d, "replay_c21v.py"); open(fn, "w").write(src)
spec = importlib.util.spec_from_file_location("replay_c21v", fn); m = importlib.util.module_from_spec(spec); sys.modules["replay_c21v"] = m
spec.loader.exec_module(m)
try:
    ent = {t: int(v) for t, v in list(m.main.emulator(n_qubits=1).run().results)[0].entries}
    out = {"violates": ent.get("comptime") != ent.get("regular"), "evaluations": 1, "observed": ent}
except Exception as ex:
    out = {"violates": True, "evaluations": 1, "observed": type(ex).__name__ + ": " + str(ex)[:160]}
shutil.rmtree(d, ignore_errors=True)
out["detail"] = f"{I['case']}: {out['observed']}"
print(json.dumps(out))
'''


def value_semantics(chk):
    """BOUNDED: integers in comptime lists are VALUES, as they are in arrays of a regular function (and in Python):
    an alias in the same list, a variable read before a borrowing call, and a copy() taken before it keep their value
    when the callee updates the lent array."""
    import json
    from pyvc.report import run_replay
    for case in ("alias-in-one-list", "read-before-the-call", "copy-before-the-call", "two-calls", "nested-rows"):
        res = run_replay(REPLAY_VALUES, {"case": case}, chk.repo, timeout=900)
        if "evaluations" not in res:
            chk.undecided(f"bounded:comptime-values[{case}]", "oracle run failed: " + json.dumps(res)[:600])
            continue
        o = chk.bounded_result(f"bounded:comptime-values[{case}]:comptime-and-regular-function-with-the-same-body-report-the-same-value", not res.get("violates"), 1,
                               detail=res.get("detail"), witness={"case": case, "observed": res.get("observed")} if res.get("violates") else None,
                               func="guppylang_internals.tracing.unpacking:update_packed_value")
        if res.get("violates"):
            o.replay.update({"script": REPLAY_VALUES, "input": {"case": case}})


REPLAY_CT_PARAM = r'''
import tempfile, importlib.util, os, sys, shutil
from guppylang_internals.error import GuppyError, GuppyComptimeError
src = """from guppylang import guppy
from guppylang.std.builtins import comptime
@guppy
def ct_int(n: int @comptime) -> int:
    return n + 1
@guppy.comptime
def traced_dynamic(x: int) -> int:
    return ct_int(x)
@guppy
def regular_dynamic(x: int) -> int:
    return ct_int(x)
@guppy.comptime
def traced_static() -> int:
    return ct_int(3)
@guppy
def regular_static() -> int:
    return ct_int(3)
"""
d = tempfile.mkdtemp(dir=os.environ.get("TMPDIR", "/var/tmp")); fn = os.path.join(d, "replay_c21p.py"); open(fn, "w").write(src)
spec = importlib.util.spec_from_file_location("replay_c21p", fn); m = importlib.util.module_from_spec(spec); sys.modules["replay_c21p"] = m
spec.loader.exec_module(m)
res = {}
for name in ("regular_dynamic", "traced_dynamic", "regular_static", "traced_static"):
    try:
        getattr(m, name).compile_function(); res[name] = "compiled"
    except (GuppyError, GuppyComptimeError):
        res[name] = "rejected"
    except Exception as ex:
        res[name] = "crash:" + type(ex).__name__
shutil.rmtree(d, ignore_errors=True)
print(json.dumps({"violates": res["regular_dynamic"] != res["traced_dynamic"] or res["regular_static"] != res["traced_static"], "evaluations": 4, "observed": res,
                  "required": "a run-time value for a @comptime parameter is a Guppy error in both modes, a Python constant is accepted in both", "detail": str(res)}))
'''


def comptime_parameters(chk):
    """BOUNDED: a call passing a run-time (traced) value for a @comptime parameter is rejected with a Guppy error in a
    comptime body as in a regular one (not an interpreter crash), a Python constant is accepted in both."""
    import json
    from pyvc.report import run_replay
    res = run_replay(REPLAY_CT_PARAM, {}, chk.repo, timeout=900)
    if "evaluations" not in res:
        chk.undecided("bounded:comptime-parameter-arguments", "oracle run failed: " + json.dumps(res)[:600])
        return
    o = chk.bounded_result("bounded:comptime-parameter-arguments:run-time-value-rejected/constant-accepted-in-both-modes", not res.get("violates"), res["evaluations"], detail=res.get("detail"),
                           witness=res.get("observed") if res.get("violates") else None, func="guppylang_internals.tracing.function:trace_call")
    if res.get("violates"):
        o.replay.update({"script": REPLAY_CT_PARAM, "input": {}})
