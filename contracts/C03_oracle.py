"""Native oracle for C03 (bounded layer C): the whole pipeline against CPython.

The statement family of contracts/cfgsem.py is rewritten into Guppy: the decision oracles cK()
become `dec(st, K)` — a Guppy function that takes the next bit of a decision script held in a
borrowed two-element array (position, bits) and reports it —, the effect e(v) becomes `eff(v)`
(`result("e", v)`, returns v).  One source text is (a) compiled by the real compiler (check, CFG
construction, type/linearity checking, HUGR lowering) and run on the selene emulator for every
decision script of length <= L, (b) executed by CPython with a ten-line runtime (array = list,
result = log).  The two result streams must be equal, script by script.  Programs the checker
rejects (the family also contains ill-typed / use-before-definition members) and programs whose
CPython run does not finish normally within the call limit are outside the comparison and are
counted.  Needs compat/guppy_plainbool.py (Guppy bool lowered to hugr Bool) to run control flow on
this sandbox's emulator.
"""
ORACLE = r'''
import guppy_plainbool
import itertools, os, sys, tempfile, importlib.util, shutil, json, re
sys.path.insert(0, "/verif")
from contracts import cfgsem as S
from guppylang_internals.error import GuppyError

HELPERS = """
@guppy
def dec(st: array[int, 2], k: int) -> bool:
    i = st[0]
    st[0] = i + 1
    b = (st[1] >> i) & 1
    result("c", k * 2 + b)
    return b == 1

@guppy
def eff(v: int) -> int:
    result("e", v)
    return v
"""

PY_RUNTIME = """
class _G:
    def __call__(self, f): return f
guppy = _G()
class array(list):
    def __init__(self, *xs): list.__init__(self, xs)
    def __class_getitem__(cls, item): return cls
_LOG = []
def result(tag, v): _LOG.append([tag, int(v)])
"""

def to_guppy(src, k):
    """`def f(): <prologue> body <epilogue>` of the family -> a Guppy function f<k>(bits)"""
    lines = src.splitlines()[1:]
    body = "\n".join(lines)
    body = re.sub(r"\bc(\d)\(\)", r"dec(st, \1)", body)
    body = re.sub(r"\be\(", "eff(", body)
    return f"@guppy\ndef f{k}(bits: int) -> None:\n    st = array(0, bits)\n{body}\n"

def terminating(src, L):
    """CPython finishes every script normally (no limit, no unbound name, no exception)"""
    run = S.py_runner(src)
    return all(run(sc)[1] == "ret" for sc in S.scripts(L))

def bits_of(sc):
    return sum(1 << i for i, b in enumerate(sc) if b)

def load(src_text, name):
    d = tempfile.mkdtemp(dir=os.environ.get("TMPDIR", "/var/tmp")); fn = os.path.join(d, name + ".py")
    open(fn, "w").write(src_text)
    spec = importlib.util.spec_from_file_location(name, fn); m = importlib.util.module_from_spec(spec); sys.modules[name] = m
    spec.loader.exec_module(m)
    return m, d

HEAD = "from guppylang import guppy\nfrom guppylang.std.builtins import array, result\n"

def accepted(progs):
    """indices of the programs the real checker accepts"""
    text = HEAD + HELPERS + "".join(to_guppy(src, k) for k, src in progs)
    m, d = load(text, "c03_chk")
    ok, rej = [], {}
    try:
        for k, src in progs:
            try:
                getattr(m, f"f{k}").check(); ok.append(k)
            except GuppyError as e:
                rej[k] = type(e.error).__name__
    finally:
        shutil.rmtree(d, ignore_errors=True); sys.modules.pop("c03_chk", None)
    return ok, rej

def run_batch(progs, L):
    """progs: [(k, src)] accepted and terminating.  Returns {(k, bits): (emulator stream, python stream)}"""
    scs = [bits_of(sc) for sc in S.scripts(L)]
    funcs = "".join(to_guppy(src, k) for k, src in progs)
    calls = [(k, b) for k, _ in progs for b in scs]
    main = "@guppy\ndef main() -> None:\n" + "".join(f"    result('S', {i})\n    f{k}({b})\n" for i, (k, b) in enumerate(calls))
    m, d = load(HEAD + HELPERS + funcs + main, "c03_progs")
    try:
        res = m.main.emulator(n_qubits=1).run()
        stream = [list(x) for x in list(res.results)[0].entries]
    finally:
        shutil.rmtree(d, ignore_errors=True); sys.modules.pop("c03_progs", None)
    env = {}
    exec(PY_RUNTIME + HELPERS + funcs + "\n" + "".join(f"result('S', {i})\nf{k}({b})\n" for i, (k, b) in enumerate(calls)), env)
    def split(st):
        out, cur = [], None
        for tag, v in st:
            if tag == "S": cur = []; out.append(cur)
            else: cur.append([tag, int(v)])
        return out
    em, py = split(stream), split(env["_LOG"])
    return {c: (a, b) for c, a, b in zip(calls, em, py)}, len(em), len(py), len(calls)
'''

DRIVER = r'''
I_ = INPUT
L = I_["L"]
progs = list(enumerate(S.programs(I_["tier"])))[I_["chunk"]::I_["nchunks"]]
term = [(k, s) for k, s in progs if terminating(s, L)]
ok, rej = accepted(term)
good = [(k, s) for k, s in term if k in ok]
bad = None; n = 0
B = 10
def run_group(group):
    global bad, n
    try:
        res, n_em, n_py, n_calls = run_batch(group, L)
    except GuppyError as e:
        if len(group) == 1:
            rej[group[0][0]] = "compile:" + type(e.error).__name__; return
        h = len(group) // 2; run_group(group[:h]); run_group(group[h:]); return
    except Exception as e:
        if "anic" not in str(e) and type(e).__name__ != "EmulatorError": raise
        if len(group) == 1:
            n += 1
            if bad is None:
                bad = {"src": group[0][1], "detail": f"the emulated program raised {type(e).__name__}: {str(e)[:160]} although CPython runs every decision script to completion"}
            return
        h = len(group) // 2; run_group(group[:h]); run_group(group[h:]); return
    if not (n_em == n_py == n_calls):
        if bad is None: bad = {"src": group[0][1], "detail": f"run markers: emulator {n_em}, python {n_py}, expected {n_calls}"}
        return
    srcs = dict(group)
    for (k, b), (a, p) in res.items():
        n += 1
        if a != p and bad is None:
            bad = {"src": srcs[k], "bits": b, "detail": f"decision script bits={b:b} (lowest bit first): emulator {a[:12]} vs CPython {p[:12]}"}
for off in range(0, len(good), B):
    run_group(good[off:off + B])
    if bad: break
print(json.dumps({"violates": bad is not None, "evaluations": n, "programs": len(progs), "terminating": len(term), "accepted": len(good), "rejected": len(rej),
                  "rejected_kinds": sorted(set(rej.values())), "witness": bad, "detail": bad and bad["detail"]}))
'''

REPLAY_ONE = r'''
I_ = INPUT
src = I_["src"]; L = I_["L"]
try:
    res, n_em, n_py, n_calls = run_batch([(0, src)], L)
    diff = [(b, a[:10], p[:10]) for (k, b), (a, p) in res.items() if a != p]
    print(json.dumps({"violates": bool(diff) or not (n_em == n_py == n_calls), "first_differences": diff[:3], "src": src}))
except GuppyError as e:
    print(json.dumps({"violates": False, "rejected": type(e.error).__name__, "src": src}))
except Exception as e:
    if "anic" not in str(e) and type(e).__name__ != "EmulatorError": raise
    print(json.dumps({"violates": True, "emulator": f"raised {type(e).__name__}: {str(e)[:200]}", "src": src}))
'''
