"""C10 — Compiler output and diagnostics are deterministic.

Scope: every module of guppylang_internals and guppylang (the scanner walks both packages).

1. A scanner recomputes, from the current source, every place where an UNORDERED collection (a
   value built by set(...)/a set display/comprehension/`keys() | keys()`, or annotated set[...]) is
   iterated, popped or read through next(iter(...)).  Every site must be bound to a discharge in
   SITES below; an unknown or changed site is an obligation failure ("unclassified unordered use").
2. Discharges: worklists -> C09 (unique extremal result) plus a proof here that
   BaseCFG.update_reachable computes the least closed set for every pop order; for-loops over
   sets -> order-independence obligation: the function is executed under pyvc's canonical set order
   and under the reversed one on inputs with two distinguishable elements and must produce the
   same observable outcome (result or diagnostic).
3. Nondeterminism is assumed to enter only through unordered collections: a scan proves the
   anchored modules do not call id(), hash(), random, time, os.urandom or uuid.
"""
import ast
import os
import z3

from pyvc import SObj, ClassVal, Builtin, SBool, LoopSpec, PyRaise, Unsupported
from pyvc.symcoll import SColl, SSet, Elem
from .common import mk_engine

TITLE = "every unordered iteration in the anchored modules is order-independent (or absent); reachability worklist proved confluent"
PKG = "guppylang-internals/src/guppylang_internals/"
PKG2 = "guppylang/src/guppylang/"


def all_files(repo):
    """every module of both packages (paths relative to guppylang_internals; the guppylang package is prefixed)"""
    import glob
    out = []
    for pkg, pre in ((PKG, ""), (PKG2, "guppylang:")):
        root = os.path.join(repo, pkg)
        out += [(pre + os.path.relpath(p_, root), p_) for p_ in sorted(glob.glob(root + "**/*.py", recursive=True))]
    return out

# (file, function, kind, normalised site text) -> how it is discharged
SITES = {
    ("cfg/analysis.py", "ForwardAnalysis.run", "select", "min(queue, key=lambda bb: bb.idx)"): "the key is injective on the set: the blocks of one CFG have pairwise distinct indices (BaseCFG.new_bb numbers them); the result is moreover the unique extremal solution for every order (C09)",
    ("cfg/analysis.py", "BackwardAnalysis.run", "select", "min(queue, key=lambda bb: bb.idx)"): "the key is injective on the set: the blocks of one CFG have pairwise distinct indices; key sets are moreover unique for every order (C09)",
    ("cfg/cfg.py", "BaseCFG.update_reachable", "pop", "queue.pop()"): "proved here: least set closed under successors, for every pop order",
    ("compiler/core.py", "insert_drops", "next-iter", "next(iter(hugr.linked_ports(port)), None)"): "emptiness test only (compared with None)",
    ("checker/expr_checker.py", "check_call", "select", "min(ty.unsolved_vars - subst.keys(), key=lambda v: v.id)"): "the key is injective on the set: existential variables carry globally unique ids (ExistentialVar._fresh_id)",
    ("checker/func_checker.py", "check_nested_func_def", "next-iter", "next(iter(captured.keys()))"): "captured is a dict filled from the liveness result at the entry block, whose key order is a function of the CFG alone since the worklists are deterministic (obligations below)",
    ("checker/modifier_checker.py", "check_modified_block", "next-iter", "next(iter(loops))"): "loops is a list in AST visit order (ast_util.find_nodes returns AstSearcher.found, a list)",
    ("checker/modifier_checker.py", "check_modified_block", "next-iter", "next(iter(cfg_bb.vars.assigned.items()))"): "VariableStats.assigned is a dict filled in statement order by VariableVisitor",
    ("checker/unitary_checker.py", "check_invalid_under_dagger", "next-iter", "next(iter(loops))"): "list in AST visit order (find_nodes)",
    ("checker/unitary_checker.py", "check_invalid_under_dagger", "next-iter", "next(iter(found))"): "list in AST visit order (find_nodes)",
    ("guppylang:decorator.py", "_parse_kwargs", "next-iter", "next(iter(kwargs), None)"): "kwargs is the keyword dict of the decorator call: insertion order = order the keywords were written",
    ("definition/declaration.py", "RawFunctionDecl.parse", "select", "min(mono_params, key=lambda p: p.idx)"): "the key is injective on the set: the parameters of one signature have pairwise distinct indices (C13 S5)",
    ("compiler/core.py", "CompilerContext.compile", "select", "min(mono_params, key=lambda p: p.idx)"): "the key is injective on the set: the parameters of one definition have pairwise distinct de Bruijn indices (C13 S5), so the minimum is unique",
}

REPLAY_ROWS = r'''
# the reported variable of a branch-type error must not depend on the string hash seed
import subprocess, sys, os, json as _j
prog = """
import sys; sys.path.insert(0, %r); import guppy_compat
from guppylang import guppy
from guppylang_internals.error import GuppyError
@guppy
def main(b: bool) -> None:
    if b:
        alpha = 1; beta = 1; gamma = 1; delta = 1
    else:
        alpha = 1.0; beta = 1.0; gamma = 1.0; delta = 1.0
    alpha; beta; gamma; delta
try:
    main.check(); print("accepted")
except GuppyError as e:
    print(e.error.ident)
""" % os.path.dirname(guppy_compat.__file__)
import tempfile, shutil
d = tempfile.mkdtemp(dir=os.environ.get("TMPDIR", "/var/tmp")); fn = os.path.join(d, "replay_c10.py"); open(fn, "w").write(prog)
seen = {}
for seed in range(8):
    env = dict(os.environ, PYTHONHASHSEED=str(seed))
    out = subprocess.run([sys.executable, fn], capture_output=True, text=True, env=env).stdout.strip().splitlines()[-1:]
    seen.setdefault(tuple(out), seed)
shutil.rmtree(d, ignore_errors=True)
print(json.dumps({"violates": len(seen) > 1, "distinct_diagnostics": [list(k) for k in seen], "seeds": list(seen.values())}))
'''
REPLAY_MONO = r'''
import subprocess, sys, os
prog = """
import sys; sys.path.insert(0, %r); import guppy_compat
from guppylang import guppy
from guppylang_internals.error import GuppyError
@guppy
def main[alpha: bool, beta: bool, gamma: bool, delta: bool]() -> None:
    pass
try:
    main.compile_function(); print("accepted")
except GuppyError as e:
    print(e.error.param)
""" % os.path.dirname(guppy_compat.__file__)
import tempfile, shutil
d = tempfile.mkdtemp(dir=os.environ.get("TMPDIR", "/var/tmp")); fn = os.path.join(d, "replay_c10.py"); open(fn, "w").write(prog)
seen = {}
for seed in range(8):
    env = dict(os.environ, PYTHONHASHSEED=str(seed))
    out = subprocess.run([sys.executable, fn], capture_output=True, text=True, env=env).stdout.strip().splitlines()[-1:]
    seen.setdefault(tuple(out), seed)
shutil.rmtree(d, ignore_errors=True)
print(json.dumps({"violates": len(seen) > 1, "distinct_diagnostics": [list(k) for k in seen], "seeds": list(seen.values())}))
'''
REPLAY_WITNESS = r'''
# liveness witness (the block named in "not defined" diagnostics) under all pop orders of a diamond
import itertools
import guppylang_internals.cfg.analysis as A
from guppylang_internals.cfg.bb import BB, VariableStats
class Sched(set):
    order = []
    def pop(self):
        for i in list(Sched.order):
            for b in self:
                if b.idx == i:
                    Sched.order.remove(i); self.remove(b); return b
        return set.pop(self)
A.set = Sched
outs = {}
for perm in itertools.permutations(range(3)):
    bbs = [BB(i, None) for i in range(3)]
    for a, b in ((0, 1), (0, 2)):
        bbs[a].successors.append(bbs[b]); bbs[b].predecessors.append(bbs[a])
    stats = {bbs[0]: VariableStats(), bbs[1]: VariableStats(used={"x": None}), bbs[2]: VariableStats(used={"x": None})}
    Sched.order = list(perm)
    r = A.LivenessAnalysis(stats).run(bbs)
    outs.setdefault(r[bbs[0]]["x"].idx, perm)
print(json.dumps({"violates": len(outs) > 1, "witness_block_for_x_at_entry_by_pop_order": {str(k): list(v) for k, v in outs.items()}}))
'''


def seeds_replay(prog):
    """a replay that runs `prog` (a module text printing one line) in fresh interpreters under 8 hash seeds"""
    if prog is None:
        return None
    return "PROG = " + repr(prog) + r"""
import subprocess, sys, os, tempfile, shutil
d = tempfile.mkdtemp(dir=os.environ.get("TMPDIR", "/var/tmp")); fn = os.path.join(d, "replay_c10s.py")
open(fn, "w").write("import sys; sys.path.insert(0, %r); import guppy_compat\n" % os.path.dirname(guppy_compat.__file__) + PROG)
seen = {}
for seed in range(8):
    out = subprocess.run([sys.executable, fn], capture_output=True, text=True, env=dict(os.environ, PYTHONHASHSEED=str(seed))).stdout.strip().splitlines()[-1:]
    seen.setdefault(tuple(out), seed)
shutil.rmtree(d, ignore_errors=True)
print(json.dumps({"violates": len(seen) > 1, "distinct_diagnostics": [list(k) for k in seen], "seeds": list(seen.values())}))
"""


SEED_PROGS = {
    ("checker/expr_checker.py", "check_call"): """
from guppylang import guppy
from guppylang_internals.error import GuppyError
S = guppy.type_var("Sigma"); R = guppy.type_var("Rho"); A = guppy.type_var("Alpha")
@guppy.declare
def bar(y: R) -> S: ...
@guppy.declare
def foo(x: tuple[A, int]) -> None: ...
@guppy
def main() -> None:
    foo(bar(1.5))
try:
    main.check(); print("accepted")
except GuppyError as e:
    print(type(e.error).__name__, [c.rendered_message for c in e.error.children])
""",
    ("definition/declaration.py", "RawFunctionDecl.parse"): """
from guppylang import guppy
from guppylang_internals.error import GuppyError
@guppy.declare
def dec[alpha: bool, beta: bool, gamma: bool, delta: bool]() -> None: ...
@guppy
def main() -> None:
    dec[True, False, True, False]()
try:
    main.check(); print("accepted")
except GuppyError as e:
    print(type(e.error).__name__, e.error.param.name)
""",
    ("definition/struct.py", "RawStructDef.parse"): """
from guppylang import guppy
from guppylang_internals.error import GuppyError
@guppy.struct
class S:
    @guppy
    def alpha(self: "S") -> int:
        return 1
    @guppy
    def beta(self: "S") -> int:
        return 1
    @guppy
    def gamma(self: "S") -> int:
        return 1
    alpha: int
    beta: int
    gamma: int
@guppy
def main(s: S) -> None:
    pass
try:
    main.check(); print("accepted")
except GuppyError as e:
    print(type(e.error).__name__, e.error.field_name)
""",
}


class Scanner(ast.NodeVisitor):
    """Finds uses of unordered collections; a light intra-procedural type inference."""

    def __init__(self, file, tree=None):
        self.file, self.sites, self.fn, self.setvars = file, [], [], [set()]
        self.setattrs = set()
        for n in ast.walk(tree) if tree is not None else ():
            if isinstance(n, ast.ClassDef):
                for st in n.body:
                    if isinstance(st, ast.AnnAssign) and isinstance(st.target, ast.Name) and ast.unparse(st.annotation).startswith(("set[", "frozenset[", "Set[")):
                        self.setattrs.add(st.target.id)
            if isinstance(n, (ast.Assign, ast.AnnAssign)):
                tg = n.targets[0] if isinstance(n, ast.Assign) else n.target
                v = n.value
                if isinstance(tg, ast.Attribute) and isinstance(tg.value, ast.Name) and tg.value.id == "self" and v is not None and (
                        isinstance(v, (ast.Set, ast.SetComp)) or (isinstance(v, ast.Call) and ast.unparse(v.func) in ("set", "frozenset"))):
                    self.setattrs.add(tg.attr)

    def qual(self):
        return ".".join(self.fn) or "<module>"

    def is_set_expr(self, n):
        if isinstance(n, (ast.Set, ast.SetComp)):
            return True
        if isinstance(n, ast.Call):
            f = ast.unparse(n.func)
            if f in ("set", "frozenset") or f.endswith(".union") or f.endswith(".intersection") or f.endswith(".difference"):
                return True
            if f in ("require_monomorphization",):
                return True
        if isinstance(n, ast.BinOp) and isinstance(n.op, (ast.BitOr, ast.BitAnd, ast.Sub)):
            s = ast.unparse(n)
            return ".keys()" in s or self.is_set_expr(n.left) or self.is_set_expr(n.right)
        if isinstance(n, ast.Name):
            return n.id in self.setvars[-1]
        if isinstance(n, ast.Attribute) and isinstance(n.value, ast.Name) and n.value.id == "self":
            return n.attr in self.setattrs            # an attribute declared / initialised as a set
        if isinstance(n, ast.NamedExpr):
            return self.is_set_expr(n.value)
        return False

    def visit_ClassDef(self, n):
        self.fn.append(n.name)
        self.generic_visit(n)
        self.fn.pop()

    def visit_FunctionDef(self, n):
        self.fn.append(n.name)
        sv = set()
        for a in n.args.args + n.args.kwonlyargs:
            if a.annotation is not None and ast.unparse(a.annotation).startswith(("set[", "frozenset[", "Set[")):
                sv.add(a.arg)
        for s in ast.walk(n):
            if isinstance(s, ast.Assign) and len(s.targets) == 1 and isinstance(s.targets[0], ast.Name) and self._is_set_value(s.value, sv):
                sv.add(s.targets[0].id)
            if isinstance(s, ast.AnnAssign) and isinstance(s.target, ast.Name) and ast.unparse(s.annotation).startswith(("set[", "frozenset[")):
                sv.add(s.target.id)
            if isinstance(s, ast.NamedExpr) and isinstance(s.target, ast.Name) and self._is_set_value(s.value, sv):
                sv.add(s.target.id)
        self.setvars.append(sv)
        self.generic_visit(n)
        self.setvars.pop()
        self.fn.pop()

    def _is_set_value(self, v, sv):
        self.setvars.append(sv)
        try:
            return self.is_set_expr(v)
        finally:
            self.setvars.pop()

    def add(self, kind, node):
        self.sites.append((self.file, self.qual(), kind, ast.unparse(node)))

    def visit_For(self, n):
        if self.is_set_expr(n.iter):
            self.add("for", n.iter)
        self.generic_visit(n)

    def visit_comprehension(self, n):
        if self.is_set_expr(n.iter):
            self.add("comprehension", n.iter)
        self.generic_visit(n)

    def visit_Call(self, n):
        f = n.func
        if isinstance(f, ast.Attribute) and f.attr == "pop" and not n.args and self.is_set_expr(f.value):
            self.add("pop", n)
        if isinstance(f, ast.Name) and f.id == "next" and n.args and isinstance(n.args[0], ast.Call) and ast.unparse(n.args[0].func) == "iter":
            self.add("next-iter", n)
        if isinstance(f, ast.Name) and f.id in ("list", "tuple", "enumerate") and n.args and self.is_set_expr(n.args[0]):
            self.add("materialise", n)
        if isinstance(f, ast.Name) and f.id in ("min", "max", "sorted") and n.args and self.is_set_expr(n.args[0]):
            # the selected element / the order depends on the enumeration order unless the key is injective on the set
            self.add("select", n)
        self.generic_visit(n)


NCH_B = 8


def run(chk):
    chk.level = "proof"
    chk.section("static", lambda: static_part(chk))
    for i in range(NCH_B):
        chk.section(f"bounded-{i}", lambda i=i: bounded(chk, i))


def bounded(chk, i):
    """BOUNDED: outcomes are the same under every worklist schedule tried (C10_oracle.py)"""
    import json
    from pyvc.report import run_replay
    from .C10_oracle import CHILD
    scheds = list(range(6)) if chk.tier != "thorough" else list(range(12))
    runs = {}
    for sc in scheds:
        os.environ["PYTHONHASHSEED"] = str(sc)
        res = run_replay(CHILD, {"schedule": sc, "chunk": i, "nchunks": NCH_B}, chk.repo, timeout=3000)
        if "outcomes" not in res:
            chk.undecided(f"bounded[{i}/{NCH_B}]:schedules", f"oracle run failed (schedule {sc}): " + json.dumps(res)[:600])
            return
        runs[sc] = res["outcomes"]
    base = runs[scheds[0]]
    bad = None
    for sc in scheds[1:]:
        for k, v in base.items():
            if runs[sc].get(k) != v and bad is None:
                bad = {"program": k, "schedule_a": scheds[0], "outcome_a": v, "schedule_b": sc, "outcome_b": runs[sc].get(k)}
    n_h = sum(1 for v in base.values() if v.startswith("hugr:"))
    n_e = sum(1 for v in base.values() if v.startswith("error:"))
    n_c = sum(1 for v in base.values() if v.startswith("crash:"))
    o = chk.bounded_result(f"bounded[{i}/{NCH_B}]:same-HUGR-bytes/same-error-class,variable-and-location-in-every-interpreter-run(slice {i} of {NCH_B}; {len(scheds)} runs differing in hash seed and heap layout)", bad is None, len(base) * len(scheds),
                           detail=(f"{bad['program']}: schedule {bad['schedule_a']} gives {bad['outcome_a']}, schedule {bad['schedule_b']} gives {bad['outcome_b']}" if bad else
                                   f"{len(base)} programs ({n_h} compiled, {n_e} rejected, {n_c} crashed) x {len(scheds)} schedules agree"), witness=bad, func="guppylang_internals.cfg.analysis:BackwardAnalysis.run")
    if bad:
        o.replay.update({"script": CHILD + REPLAY_SCHED_TAIL, "input": {"schedule": bad["schedule_b"], "chunk": i, "nchunks": NCH_B, "program": bad["program"], "expected": bad["outcome_a"]}})
    chk.record(f"bounded[{i}/{NCH_B}]:programs-compiled-and-rejected-both-occur", n_h >= 5 and n_e >= 5 and n_c == 0, f"{n_h} compiled, {n_e} rejected, {n_c} crashed", kind="reachability")


REPLAY_SCHED_TAIL = r'''
_o = json.loads(json.dumps(out))
print(json.dumps({"violates": _o.get(I_["program"]) != I_["expected"], "program": I_["program"], "this_schedule": _o.get(I_["program"]), "other_schedule": I_["expected"]}))
'''


def worklist_deterministic(chk):
    """ForwardAnalysis.run / BackwardAnalysis.run (cfg/analysis.py): which block is processed next is a
    function of the CFG alone — the block of smallest index among the queued ones — and not of set
    iteration order (blocks hash by address).  The SET of facts computed is order-independent anyway
    (C09); the witness block stored per live variable and the key order of the result are not, and
    diagnostics are built from them."""
    tree = ast.parse(open(os.path.join(chk.repo, PKG, "cfg/analysis.py")).read())
    for cls in ("ForwardAnalysis", "BackwardAnalysis"):
        c = next(n for n in ast.walk(tree) if isinstance(n, ast.ClassDef) and n.name == cls)
        f = next(n for n in c.body if isinstance(n, ast.FunctionDef) and n.name == "run")
        src = ast.unparse(f)
        pops = [ast.unparse(n) for n in ast.walk(f) if isinstance(n, ast.Call) and isinstance(n.func, ast.Attribute) and n.func.attr in ("pop", "popitem") and not n.args]
        picks = [ast.unparse(n.value) for n in ast.walk(f) if isinstance(n, ast.Assign) and len(n.targets) == 1 and ast.unparse(n.targets[0]) == "bb"]
        ok = not pops and picks == ["min(queue, key=lambda bb: bb.idx)"] and "queue.remove(bb)" in src
        chk.record(f"{cls}.run:the-next-block-is-the-queued-block-of-smallest-index(no-set.pop)", ok, f"pops {pops}, picks {picks}", func=f"guppylang_internals.cfg.analysis:{cls}.run", backend="structural")
    from pyvc.report import run_replay
    res = run_replay(REPLAY_KEYORDER, {}, chk.repo, timeout=300)
    o = chk.record("LivenessAnalysis:witness-blocks-and-key-order-are-the-same-whatever-set.pop-would-have-chosen(4-block diamond, all 24 forced orders on the real classes)", not res.get("violates"), str(res)[:300],
                   func="guppylang_internals.cfg.analysis:BackwardAnalysis.run", kind="bounded", backend="native enumeration of forced set.pop orders")
    o.replay = {"confirmed": bool(res.get("violates")), "script": REPLAY_KEYORDER, "input": {}, "native": res}


REPLAY_KEYORDER = r'''
import itertools
import guppylang_internals.cfg.analysis as A
from guppylang_internals.cfg.bb import BB, VariableStats
class Sched(set):
    order = []
    def pop(self):
        for i in list(Sched.order):
            for b in self:
                if b.idx == i:
                    Sched.order.remove(i); self.remove(b); return b
        return set.pop(self)
A.set = Sched
outs = {}
edges = ((0, 1), (0, 2), (1, 3), (2, 3))
uses = {0: {}, 1: {"a": None}, 2: {"b": None}, 3: {"c": None, "a": None}}
for perm in itertools.permutations(range(4)):
    bbs = [BB(i, None) for i in range(4)]
    for a, b in edges:
        bbs[a].successors.append(bbs[b]); bbs[b].predecessors.append(bbs[a])
    stats = {bbs[i]: VariableStats(used=dict(uses[i])) for i in range(4)}
    Sched.order = list(perm)
    r = A.LivenessAnalysis(stats).run(bbs)
    outs.setdefault((tuple(r[bbs[0]]), tuple(v.idx for v in r[bbs[0]].values())), perm)
print(json.dumps({"violates": len(outs) > 1, "key_orders_and_witnesses_at_entry": {str(k): list(v) for k, v in outs.items()}}))
'''

def static_part(chk):
    e = mk_engine(chk)
    worklist_deterministic(chk)
    # ------------------------------------------------------------------ 1. site scan
    found = []
    banned = []
    for rel, path in all_files(chk.repo):
        tree = ast.parse(open(path).read())
        sc = Scanner(rel, tree)
        sc.visit(tree)
        found += sc.sites
        for n in ast.walk(tree):
            if isinstance(n, ast.Call):
                f = ast.unparse(n.func)
                if f in ("id", "hash", "random.random", "random.choice", "time.time", "os.urandom", "uuid.uuid4") or f.startswith("random."):
                    banned.append(f"{rel}:{n.lineno}:{f}")
    chk.record("all-modules:no-id()/hash()/random/time-calls(nondeterminism-enters-only-through-unordered-collections)", not banned, str(banned), backend="structural(scan)")
    for site in found:
        why = SITES.get(site)
        chk.record(f"site:{site[0]}:{site[1]}:{site[2]}:`{site[3]}`:order-independence-discharged", why is not None,
                   why or "unclassified unordered use: no discharge registered for this site", func=f"guppylang_internals.{site[0][:-3].replace('/', '.')}:{site[1]}",
                   backend="site table").site = site
    # the compiler's worklist of definitions to lower: an insertion-ordered dict popped with popitem() (LIFO)
    ctree = ast.parse(open(os.path.join(chk.repo, PKG, "compiler/core.py")).read())
    wl_ann = [ast.unparse(st.annotation) for c in ast.walk(ctree) if isinstance(c, ast.ClassDef) and c.name == "CompilerContext" for st in c.body
              if isinstance(st, ast.AnnAssign) and isinstance(st.target, ast.Name) and st.target.id == "worklist"]
    wl_pops = [ast.unparse(n) for n in ast.walk(ctree) if isinstance(n, ast.Call) and isinstance(n.func, ast.Attribute) and isinstance(n.func.value, ast.Attribute) and n.func.value.attr == "worklist"
               and n.func.attr in ("pop", "popitem", "popleft")]
    chk.record("CompilerContext.worklist:insertion-ordered-dict-popped-with-popitem()(the-order-in-which-definitions-are-lowered-is-the-order-of-discovery)",
               len(wl_ann) == 1 and wl_ann[0].startswith("dict[") and wl_pops == ["self.worklist.popitem()"], f"annotation {wl_ann}, pops {wl_pops}",
               func="guppylang_internals.compiler.core:CompilerContext.compile", backend="structural")
    for site in SITES:
        if site not in found:
            chk.notes.append(f"registered site no longer present in the source: {site}")
    # native replays for the two sites that name a diagnostic
    for o in chk.obls:
        s = getattr(o, "site", None)
        if o.status == "refuted" and s:
            from pyvc.report import run_replay
            script = REPLAY_ROWS if "check_rows_match" in s[1] else REPLAY_MONO if "compile" in s[1] else seeds_replay(SEED_PROGS.get((s[0], s[1])))
            if script:
                res = run_replay(script, {}, chk.repo, timeout=600)
                o.replay = {"confirmed": bool(res.get("violates")), "script": script, "input": {}, "native": res}

    # ------------------------------------------------------------------ 2a. check_rows_match: same diagnostic under both set orders
    CM = "guppylang_internals.checker.cfg_checker"
    e.func_info(CM, "check_rows_match")
    outcomes = {}
    for order in ("forward", "reverse"):
        def t(it):
            m = e.module(CM)
            V = ClassVal("Variable", builtin=True)
            e.models[f"{CM}:BranchTypeError"] = lambda it2, a, k: SObj(ClassVal("Diag"), {"kind": "BranchTypeError", "args": tuple(a), "add_sub_diagnostic": Builtin("asd", lambda d: None)})
            e.models["guppylang_internals.ast_util:line_col"] = lambda it2, a, k: a[0]

            def var(name, ty, pos):
                return SObj(V, {"name": name, "ty": ty, "defined_at": pos})
            row1 = [var("alpha", "int", (1, 0)), var("beta", "int", (2, 0)), var("same", "int", (3, 0))]
            row2 = [var("alpha", "float", (5, 0)), var("beta", "float", (6, 0)), var("same", "int", (7, 0))]
            used = {"alpha": "USE-alpha", "beta": "USE-beta", "same": "USE-same"}
            ubb = SObj(ClassVal("BB", builtin=True), {"vars": SObj(ClassVal("Stats"), {"used": used})})
            bb = SObj(ClassVal("BB", builtin=True), {})
            bb.fields["containing_cfg"] = SObj(ClassVal("CFG", builtin=True), {"live_before": {bb: {"alpha": ubb, "beta": ubb, "same": ubb}}})
            return it.call(it.lookup_global(m, "check_rows_match"), [row1, row2, bb], {})
        e.set_order = order
        paths = e.explore(t)
        e.set_order = "forward"
        outcomes[order] = [(p.kind, p.value.fields["error"].fields["args"] if p.kind == "raise" and "error" in p.value.fields else str(p.value)) for p in paths]
    same = outcomes["forward"] == outcomes["reverse"] and len(outcomes["forward"]) == 1 and outcomes["forward"][0][0] == "raise"
    o = chk.record("check_rows_match:same-diagnostic-under-every-set-enumeration-order(two-mismatching-variables)", same, str(outcomes), func=f"{CM}:check_rows_match",
                   backend="pyvc(order-independence: canonical vs reversed set order)")
    if not same:
        from pyvc.report import run_replay
        res = run_replay(REPLAY_ROWS, {}, chk.repo, timeout=600)
        o.replay = {"confirmed": bool(res.get("violates")), "script": REPLAY_ROWS, "input": {}, "native": res}

    # ------------------------------------------------------------------ 2b. liveness witness block (feeds error locations)
    from pyvc.report import run_replay
    res = run_replay(REPLAY_WITNESS, {}, chk.repo, timeout=300)
    o = chk.record("LivenessAnalysis:witness-block-independent-of-pop-order(diamond-CFG,all-6-orders-on-the-real-classes)", not res.get("violates"), str(res),
                   func="guppylang_internals.cfg.analysis:BackwardAnalysis.run", kind="bounded", backend="native enumeration of all pop orders")
    o.replay = {"confirmed": bool(res.get("violates")), "script": REPLAY_WITNESS, "input": {}, "native": res}
    chk.bounded["liveness-witness"] = {"evaluations": 6, "detail": "all 6 pop orders of a 3-block diamond on the real LivenessAnalysis"}

    # ------------------------------------------------------------------ 2c. update_reachable: confluent worklist (proof)
    CFGM = "guppylang_internals.cfg.cfg"
    e.func_info(CFGM, "BaseCFG.update_reachable")
    BB = z3.DeclareSort("BB")
    EBB = Elem(BB, "BB")
    succ = z3.Function("succ", BB, BB, z3.BoolSort())
    entry = z3.Const("entry", BB)
    Pcl = z3.Const("Pclosed", z3.ArraySort(BB, z3.BoolSort()))   # arbitrary set containing entry and closed under succ
    b_, s_ = z3.Consts("b s", BB)
    e.elems = {"BB": EBB}

    def reach_arr(it):
        return it.ctx.ghost["reach"]

    def bb_attr(it, o, name):
        v = z3.Const("a!BB", BB)
        if name == "successors":
            return SColl(EBB, z3.Lambda([v], succ(o.t, v)))
        if name == "reachable":
            return SBool(z3.Select(reach_arr(it), o.t))
        raise Unsupported(name)

    def bb_setattr(it, o, name, v):
        if name != "reachable" or v is not True:
            raise Unsupported(f"store BB.{name}")
        it.ctx.ghost["reach"] = z3.Store(reach_arr(it), o.t, z3.BoolVal(True))
    e.opaque_attr["BB"] = bb_attr
    e.opaque_setattr = {"BB": bb_setattr}

    def as_arr(q):
        if isinstance(q, SColl):
            return q.arr
        arr = z3.K(BB, z3.BoolVal(False))
        for x in q:
            arr = z3.Store(arr, x.t, z3.BoolVal(True))
        return arr

    def inv(it, fr):
        R, Q = reach_arr(it), as_arr(fr.locals["queue"])
        return z3.And(z3.Or(z3.Select(R, entry), z3.Select(Q, entry)),
                      z3.ForAll([b_, s_], z3.Implies(z3.And(z3.Select(R, b_), succ(b_, s_)), z3.Or(z3.Select(R, s_), z3.Select(Q, s_)))),
                      z3.ForAll([b_], z3.Implies(z3.Or(z3.Select(R, b_), z3.Select(Q, b_)), z3.Select(Pcl, b_))))

    def havoc(it, fr):
        it.ctx.ghost["reach"] = z3.Const(it.ctx.fresh_name("reach"), z3.ArraySort(BB, z3.BoolSort()))
        fr.locals["queue"] = SSet(EBB, z3.Const(it.ctx.fresh_name("queue"), z3.ArraySort(BB, z3.BoolSort())))
        fr.locals.pop("bb", None)
        fr.locals.pop("succ", None)

    def inner_inv(it, fr):
        # queue == queue-at-loop-entry ∪ processed successors ; reach unchanged
        Q, Q0, P = as_arr(fr.locals["queue"]), it.ctx.ghost["q_before_inner"], fr.locals["__processed__"].arr
        return z3.And(z3.ForAll([b_], z3.Select(Q, b_) == z3.Or(z3.Select(Q0, b_), z3.Select(P, b_))), reach_arr(it) == it.ctx.ghost["r_before_inner"])

    def inner_havoc(it, fr):
        fr.locals["queue"] = SSet(EBB, z3.Const(it.ctx.fresh_name("queue_i"), z3.ArraySort(BB, z3.BoolSort())))
    e.loop_specs[f"{CFGM}:BaseCFG.update_reachable"] = {0: LoopSpec("queue", inv, havoc, modifies={"queue", "bb", "succ"}),
                                                        1: LoopSpec("succ in bb.successors", inner_inv, inner_havoc, modifies={"queue", "succ"})}
    # snapshot taken when the inner loop is entered
    orig_inner = e.loop_specs[f"{CFGM}:BaseCFG.update_reachable"][1].invariant

    def inner_inv_snap(it, fr):
        if "q_before_inner" not in it.ctx.ghost or it.ctx.ghost.get("inner_for") is not fr:
            it.ctx.ghost["q_before_inner"], it.ctx.ghost["r_before_inner"], it.ctx.ghost["inner_for"] = as_arr(fr.locals["queue"]), reach_arr(it), fr
        return orig_inner(it, fr)
    e.loop_specs[f"{CFGM}:BaseCFG.update_reachable"][1].invariant = inner_inv_snap

    def t_reach(it):
        m = e.module(CFGM)
        C = it.lookup_global(m, "BaseCFG")
        it.ctx.ghost["reach"] = z3.K(BB, z3.BoolVal(False))       # fresh CFG: no block marked yet
        it.ctx.assume(z3.Select(Pcl, entry))
        it.ctx.assume(z3.ForAll([b_, s_], z3.Implies(z3.And(z3.Select(Pcl, b_), succ(b_, s_)), z3.Select(Pcl, s_))))
        cfg = SObj(C, {"entry_bb": EBB.wrap(entry)})
        it.call_method(cfg, "update_reachable", [])
        return reach_arr(it)
    paths = e.explore(t_reach)

    def post_reach(p):
        if p.kind != "return":
            return z3.BoolVal(False)
        R = p.value
        return z3.And(z3.Select(R, entry), z3.ForAll([b_, s_], z3.Implies(z3.And(z3.Select(R, b_), succ(b_, s_)), z3.Select(R, s_))),
                      z3.ForAll([b_], z3.Implies(z3.Select(R, b_), z3.Select(Pcl, b_))))
    chk.prove_paths("BaseCFG.update_reachable:result==least-set-containing-entry-closed-under-successors(for-every-pop-order)", paths, post_reach,
                    func=f"{CFGM}:BaseCFG.update_reachable")
    chk.expected_min_obligations = 10
    chk.assumptions += ["nondeterminism can only enter through unordered collections (scan for id/hash/random/time in the anchored modules is part of the run); dict iteration is insertion-ordered",
                        "the scanner's set-typed-expression inference is syntactic (set()/set displays/comprehensions/keys()|keys()/set[...] annotations/require_monomorphization)",
                        "order-independence obligations compare two opposite enumeration orders on inputs with two distinguishable offending elements"]
    chk.not_covered += ["byte-identity of the serialised HUGR beyond the bounded schedule layer (depends on hugr's serializer)", "consumers of the liveness result's KEY ORDER other than the two capture sites (check_bb / check_cfg_linearity report the first offending variable in that order): bounded schedule layer only",
                        "witness order-dependence is only refuted by native enumeration (bounded), not proved absent"]
    chk.use_engine(e)
