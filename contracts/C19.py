"""C19 — Array access is bounds-safe and alias-free.

Functions under contract:
  std/_internal/compiler/array.py: ArrayGetitemCompiler / ArraySetitemCompiler
    (_build_classical_getitem, _build_linear_getitem, _build_classical_setitem,
     _build_linear_setitem, compile_with_inouts dispatch);
  compiler/stmt_compiler.py: StmtCompiler._assign_array (unpacking incl. starred).

The real compile methods are executed by pyvc against an INTERPRETING builder: every HUGR op
they add is given its documented semantics (assumed, listed below) over a symbolic array state
(contents: Int -> Elem, borrowed: Int -> Bool, length n) and a SYMBOLIC 64-bit index, so the
value wired out of the emitted op sequence is a z3 term.  Postconditions, from the statement:
  classical get   0 <= i < n: returns contents[i], array unchanged;  otherwise panic
  classical set   0 <= i < n: contents' = contents[i := v], nothing else changes; otherwise panic
  linear get      0 <= i < n and element not lent: element i, it becomes lent;  otherwise panic
                  (negative, too large, or lending the same element twice)
  linear set      0 <= i < n and element lent: element i replaced and no longer lent; otherwise panic
  unpacking       a, b, *rest, c, d = arr  binds elements in index order (all pattern shapes with up to
                  2 names on each side, with and without a starred middle).
"""
import itertools
import z3

from pyvc import SObj, ClassVal, Builtin, SInt, SBool, PyRaise, Unsupported
from .common import mk_engine

TITLE = "array get/set/borrow/return: element i only, panic outside 0<=i<n and on double lending; unpacking binds in index order"
AR = "guppylang_internals.std._internal.compiler.array"
SC = "guppylang_internals.compiler.stmt_compiler"
TWO64 = 2 ** 64

Elem = z3.DeclareSort("Elem")


class Panic(Exception):
    def __init__(self, msg):
        self.msg = msg


class ArrVal:
    """symbolic array value: contents, lent flags, length"""

    def __init__(self, contents, lent, n):
        self.contents, self.lent, self.n = contents, lent, n


class Node(list):
    """result of add_op: iterable over its output wires (supports tuple unpacking / indexing)"""


def w0(x):
    """a hugr Node used as a wire stands for its first output"""
    return x[0] if isinstance(x, Node) else x


def mk_interp(it):
    """builder whose add_op EXECUTES the op on symbolic values (assumed HUGR op semantics)"""
    log = []

    def add_op(op, *wires):
        kind = op[0]
        log.append(kind)
        if kind == "itousize":
            (i,) = wires
            # two's complement reinterpretation of a 64-bit signed integer as unsigned
            return z3.If(i < 0, i + TWO64, i)
        if kind == "array_get":
            arr, u = wires
            return Node([("opt", z3.And(u >= 0, u < arr.n), (z3.Select(arr.contents, u),)), arr])
        if kind == "array_set":
            arr, u, v = wires
            ok = z3.And(u >= 0, u < arr.n)
            return ("either", ok, (z3.Select(arr.contents, u), ArrVal(z3.Store(arr.contents, u, v), arr.lent, arr.n)))
        if kind == "barray_borrow":
            arr, u = wires
            ok = z3.And(u >= 0, u < arr.n, z3.Not(z3.Select(arr.lent, u)))
            if not it.ctx.branch(ok):
                raise PyRaise(it.make_exc("RuntimeError", "panic: borrow of an element that is out of bounds or already borrowed"))
            return Node([ArrVal(arr.contents, z3.Store(arr.lent, u, True), arr.n), z3.Select(arr.contents, u)])
        if kind == "barray_return":
            arr, u, v = wires
            ok = z3.And(u >= 0, u < arr.n, z3.Select(arr.lent, u))
            if not it.ctx.branch(ok):
                raise PyRaise(it.make_exc("RuntimeError", "panic: return of an element that is out of bounds or not borrowed"))
            return ArrVal(z3.Store(arr.contents, u, v), z3.Store(arr.lent, u, False), arr.n)
        if kind == "imod_s":
            a, b = wires
            return z3.If(b > 0, a % b, a)          # signed modulo with a positive divisor: result in [0, b)
        if kind in ("iadd", "isub"):
            a, b = wires
            return a + b if kind == "iadd" else a - b
        raise Unsupported(f"op {kind}")

    def unwrap_right(builder, val, msg, *rest):
        tag, ok, payload = val
        if not it.ctx.branch(ok):
            raise PyRaise(it.make_exc("RuntimeError", "panic: " + msg))
        return Node(list(payload))
    def load(v):
        # constants: the harness hands integer constants over as z3 terms / ints
        return v if z3.is_expr(v) else z3.IntVal(v) if isinstance(v, int) else v
    return SObj(ClassVal("InterpBuilder", builtin=True), {"add_op": Builtin("add_op", add_op), "load": Builtin("load", load)}), unwrap_right, log


def run(chk):
    chk.section("getitem-setitem", lambda: access(chk))
    chk.section("unpacking", lambda: unpacking(chk))
    chk.section("place-indices", lambda: place_indices(chk))
    chk.section("augassign-index", lambda: augassign_index(chk))
    chk.section("iteration", lambda: iteration(chk))
    chk.section("unwrap-helpers", lambda: unwrap_helpers(chk))
    chk.section("tuple-unpacking", lambda: tuple_unpacking(chk))
    chk.section("array-comprehension", lambda: array_comprehension(chk))
    chk.section("borrowed-element-write-back", lambda: borrowed_element(chk))
    chk.section("row-overwrite", lambda: row_overwrite(chk))
    for i in range(NCH_B):
        chk.section(f"bounded-{i}", lambda i=i: bounded(chk, i))
    chk.expected_min_obligations = 20
    chk.assumptions += [
        "HUGR op semantics (hugr std collections.array / borrow_arr, prelude): array.get returns Some(a[i]) iff i < n and the unchanged array; array.set returns Right((old, a[i:=v])) iff i < n; borrow_array.borrow(a, i) panics unless i < n and element i is present, yields the element and marks it lent; borrow_array.return panics unless i < n and element i is lent; pop_left/pop_right remove the first/last element; convert itousize reinterprets the 64-bit integer as unsigned",
        "build_unwrap (Option) panics with the given message iff the value is None (build_unwrap_right / build_unwrap_left are under contract in the unwrap-helpers section)",
        "array lengths are below 2^63",
        "unpacking patterns with at most 2 names on each side of the starred target are enumerated",
    ]
    chk.not_covered += ["copy() as a contract (CopyInoutCompiler; the bounded layer runs it); that a `for` loop calls __next__ until nothing (C03); the borrow-array runtime itself beyond the bounded layer"]


REPLAY_BORROW_ELEM = r'''
import guppy_plainbool
import tempfile, importlib.util, os, sys, shutil
src = """from guppylang import guppy
from guppylang.std.builtins import array, result
from guppylang.std.mem import mem_swap
@guppy
def main() -> None:
    xs = array(10, 11, 12, 13)
    mem_swap(xs[0], xs[3])
    result("s0", xs[0]); result("s1", xs[1]); result("s3", xs[3])
    v = 14
    mem_swap(v, xs[2])
    result("v", v); result("t2", xs[2])
    xss = array(array(1, 2), array(3, 4))
    mem_swap(xss[1][0], xss[1][1])
    result("n10", xss[1][0]); result("n11", xss[1][1]); result("n00", xss[0][0])
"""
d = tempfile.mkdtemp(dir=os.environ.get("TMPDIR", "/var/tmp")); fn = os.path.join(d, "replay_c19b.py"); open(fn, "w").write(src)
spec = importlib.util.spec_from_file_location("replay_c19b", fn); m = importlib.util.module_from_spec(spec); sys.modules["replay_c19b"] = m
spec.loader.exec_module(m)
got = [(t, int(v)) for t, v in list(m.main.emulator(n_qubits=1).run().results)[0].entries]
shutil.rmtree(d, ignore_errors=True)
want = [("s0", 13), ("s1", 11), ("s3", 10), ("v", 12), ("t2", 14), ("n10", 4), ("n11", 3), ("n00", 1)]
print(json.dumps({"violates": got != want, "observed": got, "required": want, "detail": "classical array elements lent to mem_swap: " + str(got)}))
'''


def borrowed_element(chk):
    """An array element lent to a borrowing function (`f(xs[i])`) is updated in place: after the call the
    callee's value is written back through __setitem__ — for EVERY element type (a classical element
    can be lent through a parameter of a non-copyable type variable, e.g. mem_swap(xs[0], xs[3])).
    The obligations are those of ExprCompiler._update_inout_ports (shared with C07)."""
    from .C07 import ports
    ports(chk, tag="borrowed-element:", replay=lambda m_: {"script": REPLAY_BORROW_ELEM, "input": {}})


REPLAY_ROW = r'''
import guppy_plainbool
import tempfile, importlib.util, os, sys, shutil
I = INPUT
src = f"""from guppylang import guppy
from guppylang.std.builtins import array, result
@guppy
def main() -> None:
    xss = array(array(1, 2), array(3, 4), array(5, 6))
    xss[{I['i']}] = array(7, 8)
    result("x00", xss[0][0]); result("x01", xss[0][1]); result("x10", xss[1][0]); result("x11", xss[1][1]); result("x20", xss[2][0]); result("x21", xss[2][1])
"""
d = tempfile.mkdtemp(dir=os.environ.get("TMPDIR", "/var/tmp")); fn = os.path.join(d, "replay_c19r.py"); open(fn, "w").write(src)
spec = importlib.util.spec_from_file_location("replay_c19r", fn); m = importlib.util.module_from_spec(spec); sys.modules["replay_c19r"] = m
spec.loader.exec_module(m)
try:
    got = [int(v) for t, v in list(m.main.emulator(n_qubits=1).run().results)[0].entries]
except Exception as ex:
    got = "PANIC: " + str(ex)[:120] if "anic" in str(ex) else "ERROR: " + repr(ex)[:200]
shutil.rmtree(d, ignore_errors=True)
rows = [[1, 2], [3, 4], [5, 6]]
if 0 <= I["i"] < 3:
    rows[I["i"]] = [7, 8]; want = [v for r in rows for v in r]
else:
    want = "PANIC"
ok = got == want or (want == "PANIC" and isinstance(got, str) and got.startswith("PANIC"))
print(json.dumps({"violates": not ok, "evaluations": 1, "observed": got, "required": want, "detail": f"xss[{I['i']}] = array(7, 8) on a 3x2 array: {got}, list semantics {want}"}))
'''


def row_overwrite(chk):
    """BOUNDED: writing element i of an array whose elements are arrays (a non-copyable but droppable element
    type) replaces exactly row i; an index outside 0..n-1 panics."""
    import json
    from pyvc.report import run_replay
    for i in (0, 1, 2, 3, -1):
        res = run_replay(REPLAY_ROW, {"i": i}, chk.repo, timeout=900)
        if "evaluations" not in res:
            chk.undecided(f"bounded:row-overwrite[i={i}]", "oracle run failed: " + json.dumps(res)[:600])
            continue
        o = chk.bounded_result(f"bounded:row-overwrite[xss[{i}] = array(7, 8) on a 3x2 array]:exactly-row-i-replaced-or-panic-outside-0..2", not res.get("violates"), 1,
                               detail=res.get("detail"), witness={"i": i, "observed": res.get("observed")} if res.get("violates") else None,
                               func="guppylang_internals.std._internal.compiler.array:ArraySetitemCompiler.compile_with_inouts")
        if res.get("violates"):
            o.replay.update({"script": REPLAY_ROW, "input": {"i": i}})


class Pfx:
    """forwards to the Check, prefixing obligation names"""

    def __init__(self, chk, p):
        self._chk, self._p = chk, p

    def prove_paths(self, name, *a, **k):
        return self._chk.prove_paths(self._p + name, *a, **k)

    def record(self, name, *a, **k):
        return self._chk.record(self._p + name, *a, **k)

    def must_fail(self, name, *a, **k):
        return self._chk.must_fail(self._p + name, *a, **k)

    def __getattr__(self, n):
        return getattr(self._chk, n)


def access(chk):
    # the compiler sees the array length either as a generic size argument or as a static number
    _access(Pfx(chk, "[generic length] "), False)
    _access(Pfx(chk, "[static length] "), True)


def _access(chk, static):
    e = mk_engine(chk)
    for q in ("ArrayGetitemCompiler._build_classical_getitem", "ArrayGetitemCompiler._build_linear_getitem", "ArrayGetitemCompiler.compile_with_inouts",
              "ArraySetitemCompiler._build_classical_setitem", "ArraySetitemCompiler._build_linear_setitem", "ArraySetitemCompiler.compile_with_inouts"):
        e.func_info(AR, q)
    for nm in ("array_get", "array_set", "barray_borrow", "barray_return"):
        e.models[f"{AR}:{nm}"] = lambda it, a, k, nm=nm: (nm,)
    e.models["guppylang_internals.std._internal.compiler.arithmetic:convert_itousize"] = lambda it, a, k: ("itousize",)
    i, n = z3.Ints("i n")
    contents = z3.Const("contents", z3.ArraySort(z3.IntSort(), Elem))
    lent = z3.Const("lent", z3.ArraySort(z3.IntSort(), z3.BoolSort()))
    v = z3.Const("v", Elem)
    j = z3.Int("j")
    pre = [n >= 0, n < 2 ** 63, i >= -(2 ** 63), i < 2 ** 63]

    BNA = ClassVal("BoundedNatArg", builtin=True)
    e.ext_models["hugr.tys.BoundedNatArg"] = BNA
    e.ext_models["hugr.std.int.IntVal"] = lambda it, a, k: a[0].t if isinstance(a[0], SInt) else a[0]
    e.models["guppylang_internals.std._internal.compiler.arithmetic:_instantiate_int_op"] = lambda it, a, k: (a[0],)
    static_len = [static]
    e.global_presets = {("guppylang_internals.std._internal.compiler.arithmetic", "INT_T"): "INT_T"}

    def setup(it, cls, copyable):
        m = e.module(AR)
        C = it.lookup_global(m, cls)
        builder, unwrap, log = mk_interp(it)
        e.models["guppylang_internals.std._internal.compiler.prelude:build_unwrap_right"] = lambda it2, a, k: unwrap(*a)
        HT = SObj(ClassVal("HugrTy", builtin=True), {"type_bound": Builtin("type_bound", lambda: "Copyable" if copyable else "Linear")})
        TA = it.lookup_global(e.module("guppylang_internals.tys.arg"), "TypeArg")
        CA = it.lookup_global(e.module("guppylang_internals.tys.arg"), "ConstArg")
        gty = SObj(ClassVal("GuppyTy", builtin=True), {"copyable": copyable, "to_hugr": Builtin("to_hugr", lambda *a: HT)})
        # the array length as the compiler sees it: a generic size argument, or a statically known one
        length_arg = SObj(BNA, {"n": SInt(n)}) if static_len[0] else "N"
        const = SObj(ClassVal("Const", builtin=True), {"to_arg": Builtin("to_arg", lambda: SObj(ClassVal("Arg", builtin=True), {"to_hugr": Builtin("to_hugr", lambda *a: length_arg)}))})
        targs = [SObj(TA, {"ty": gty}), SObj(CA, {"const": const})]
        self_ = SObj(C, {"type_args": targs, "ctx": None, "builder": builder, "dfg": None, "node": None, "func": None})
        for c in pre:
            it.ctx.assume(c)
        return self_, log
    e.ext_models["hugr.tys.TypeBound"] = SObj(ClassVal("TB", builtin=True), {"Linear": "Linear", "Copyable": "Copyable"})
    in_range = z3.And(i >= 0, i < n)

    def frame_same(a0, a1, except_idx=None):
        """everything but (optionally) position i is unchanged"""
        cond = j != i if except_idx is not None else z3.BoolVal(True)
        return z3.And(a1.n == a0.n, z3.ForAll([j], z3.Implies(cond, z3.And(z3.Select(a1.contents, j) == z3.Select(a0.contents, j), z3.Select(a1.lent, j) == z3.Select(a0.lent, j)))))

    def is_panic(p, text):
        return p.kind == "raise" and p.raised(e, "RuntimeError") and text in str(p.value.fields.get("args"))
    a0 = ArrVal(contents, lent, n)
    # ---- classical get
    def t_cget(it):
        s, log = setup(it, "ArrayGetitemCompiler", True)
        r = it.call_method(s, "compile_with_inouts", [[a0, i]])
        return r.fields["regular_returns"], r.fields["inout_returns"], log
    paths = e.explore(t_cget)
    chk.prove_paths("array.__getitem__[copyable]:0<=i<n=>element-i/\\array-unchanged;otherwise(negative-or->=n)=>panic('Array index out of bounds')", paths,
                    lambda p: (z3.And(in_range, w0(p.value[0][0]) == z3.Select(contents, i), frame_same(a0, p.value[1][0])) if p.kind == "return"
                               else z3.And(z3.Not(in_range), z3.BoolVal(is_panic(p, "Array index out of bounds")))),
                    func=f"{AR}:ArrayGetitemCompiler._build_classical_getitem", replay=lambda m_: {"script": REPLAY_ACCESS, "input": {"kind": "get"}})
    chk.record("array.__getitem__[copyable]:both-outcomes-reachable", {p.kind for p in paths} == {"return", "raise"}, str([p.kind for p in paths]), kind="reachability")
    # ---- classical set
    def t_cset(it):
        s, log = setup(it, "ArraySetitemCompiler", True)
        r = it.call_method(s, "compile_with_inouts", [[a0, i, v]])
        return r.fields["regular_returns"], r.fields["inout_returns"], log
    paths = e.explore(t_cset)
    chk.prove_paths("array.__setitem__[copyable]:0<=i<n=>element-i-replaced/\\every-other-element-unchanged;otherwise=>panic", paths,
                    lambda p: (z3.And(in_range, z3.Select(p.value[1][0].contents, i) == v, frame_same(a0, p.value[1][0], i), z3.BoolVal(p.value[0] == [])) if p.kind == "return"
                               else z3.And(z3.Not(in_range), z3.BoolVal(is_panic(p, "Array index out of bounds")))),
                    func=f"{AR}:ArraySetitemCompiler._build_classical_setitem", replay=lambda m_: {"script": REPLAY_ACCESS, "input": {"kind": "set"}})
    # ---- linear get (lend)
    def t_lget(it):
        s, log = setup(it, "ArrayGetitemCompiler", False)
        r = it.call_method(s, "compile_with_inouts", [[a0, i]])
        return r.fields["regular_returns"], r.fields["inout_returns"], log
    paths = e.explore(t_lget)
    ok_l = z3.And(in_range, z3.Not(z3.Select(lent, i)))
    chk.prove_paths("array.__getitem__[non-copyable]:0<=i<n/\\not-lent=>element-i-lent-out/\\only-position-i-changes;otherwise(out-of-range-or-already-lent)=>panic-never-another-element", paths,
                    lambda p: (z3.And(ok_l, w0(p.value[0][0]) == z3.Select(contents, i), z3.Select(p.value[1][0].lent, i), frame_same(a0, p.value[1][0], i)) if p.kind == "return"
                               else z3.And(z3.Not(ok_l), z3.BoolVal(is_panic(p, "panic")))),
                    func=f"{AR}:ArrayGetitemCompiler._build_linear_getitem")
    # lending the same element twice in a row panics
    def t_twice(it):
        s, log = setup(it, "ArrayGetitemCompiler", False)
        r = it.call_method(s, "compile_with_inouts", [[a0, i]])
        s2, _ = setup(it, "ArrayGetitemCompiler", False)
        return it.call_method(s2, "compile_with_inouts", [[r.fields["inout_returns"][0], i]])
    paths = e.explore(t_twice)
    chk.prove_paths("array.__getitem__[non-copyable]:lending-the-same-element-twice-panics", paths, lambda p: z3.BoolVal(p.kind == "raise" and is_panic(p, "panic")),
                    func=f"{AR}:ArrayGetitemCompiler._build_linear_getitem")
    # ---- linear set (give back)
    def t_lset(it):
        s, log = setup(it, "ArraySetitemCompiler", False)
        r = it.call_method(s, "compile_with_inouts", [[a0, i, v]])
        return r.fields["regular_returns"], r.fields["inout_returns"], log
    paths = e.explore(t_lset)
    ok_r = z3.And(in_range, z3.Select(lent, i))
    chk.prove_paths("array.__setitem__[non-copyable]:0<=i<n/\\lent=>element-i-given-back/\\only-position-i-changes;otherwise=>panic", paths,
                    lambda p: (z3.And(ok_r, z3.Select(p.value[1][0].contents, i) == v, z3.Not(z3.Select(p.value[1][0].lent, i)), frame_same(a0, p.value[1][0], i)) if p.kind == "return"
                               else z3.And(z3.Not(ok_r), z3.BoolVal(is_panic(p, "panic")))),
                    func=f"{AR}:ArraySetitemCompiler._build_linear_setitem")
    # ---- the two dispatch tests pick the same variant for the same element type
    for cp in (True, False):
        def t_disp(it, cp=cp):
            s, log = setup(it, "ArrayGetitemCompiler", cp)
            r = it.call_method(s, "compile_with_inouts", [[a0, i]])
            s2, log2 = setup(it, "ArraySetitemCompiler", cp)
            # write back into the array the read produced (for non-copyable elements: element i is lent now)
            it.call_method(s2, "compile_with_inouts", [[r.fields["inout_returns"][0], i, v]])
            return log, log2
        chk.prove_paths(f"array.__getitem__/__setitem__[copyable={cp}]:both-use-the-{'get/set' if cp else 'borrow/return'}-ops", [p for p in e.explore(t_disp) if p.kind == "return"],
                        lambda p, cp=cp: z3.BoolVal(("array_get" in p.value[0]) == cp and ("array_set" in p.value[1]) == cp and ("barray_borrow" in p.value[0]) == (not cp) and ("barray_return" in p.value[1]) == (not cp)),
                        func=f"{AR}:ArrayGetitemCompiler.compile_with_inouts")
    chk.must_fail("twin:index-not-forced-in-range", pre, in_range)
    chk.use_engine(e)


def unpacking(chk):
    e = mk_engine(chk)
    e.func_info(SC, "StmtCompiler._assign_array")
    e.models[f"{AR}:array_pop"] = lambda it, a, k: ("array_pop", a[1], a[2])
    e.models[f"{AR}:array_discard_empty"] = lambda it, a, k: ("array_discard_empty",)
    count = 0
    for L, R in itertools.product(range(3), repeat=2):
        for star in (None, 0, 1, 2):
            n = L + R + (star or 0)

            def t(it, L=L, R=R, star=star, n=n):
                m = e.module(SC)
                StC = it.lookup_global(m, "StmtCompiler")
                elems = [z3.Const(f"e{k}", Elem) for k in range(n)]
                assigned = []

                def add_op(op, *wires):
                    if op[0] == "array_pop":
                        (arr,) = wires
                        length, from_left = op[1], op[2]
                        if length != len(arr) or not arr:
                            return ("opt", z3.BoolVal(False), ())
                        return ("opt", z3.BoolVal(True), (arr[0], arr[1:]) if from_left else (arr[-1], arr[:-1]))
                    if op[0] == "array_discard_empty":
                        assigned.append(("discard", list(wires[0])))
                        return None
                    raise Unsupported(str(op))

                def unwrap(builder, val, msg, *rest):
                    if not z3.is_true(val[1]):
                        raise PyRaise(it.make_exc("RuntimeError", "panic: " + msg))
                    return Node(list(val[2]))
                e.models["guppylang_internals.std._internal.compiler.prelude:build_unwrap"] = lambda it2, a, k: unwrap(*a)
                builder = SObj(ClassVal("InterpBuilder", builtin=True), {"add_op": Builtin("add_op", add_op)})
                pats_l = [("L", k) for k in range(L)]
                pats_r = [("R", k) for k in range(R)]
                pattern = SObj(ClassVal("UnpackPattern", builtin=True), {"left": pats_l, "right": pats_r, "starred": ("STAR",) if star is not None else None})
                lhs = SObj(ClassVal("ArrayUnpack", builtin=True), {"length": n, "elt_type": SObj(ClassVal("Ty", builtin=True), {"to_hugr": Builtin("to_hugr", lambda *a: "H")}), "pattern": pattern})
                self_ = SObj(StC, {"ctx": None, "dfg": SObj(ClassVal("DFC", builtin=True), {"builder": builder}),
                                   "_assign": Builtin("_assign", lambda pat, val: assigned.append((pat, val)))})
                it.call_method(self_, "_assign_array", [lhs, list(elems)])
                return assigned, elems
            paths = e.explore(t)

            def post(p, L=L, R=R, star=star, n=n):
                if p.kind != "return":
                    return z3.BoolVal(False)
                assigned, el = p.value
                want = [(("L", k), el[k]) for k in range(L)] + [(("R", k), el[n - R + k]) for k in range(R)]
                want += [(("STAR",), el[L:n - R])] if star is not None else [("discard", [])]
                got = [(a, list(b) if isinstance(b, list) else b) for a, b in assigned]

                def same(x, y):
                    if isinstance(x, list) or isinstance(y, list):
                        return isinstance(x, list) and isinstance(y, list) and len(x) == len(y) and all(z3.eq(a, b) for a, b in zip(x, y))
                    return z3.eq(x, y)
                return z3.BoolVal(len(got) == len(want) and all(g[0] == w[0] and same(g[1], w[1]) for g, w in zip(got, want)))
            nm = f"{L} left, {R} right, " + ("no starred" if star is None else f"starred middle of {star}")
            chk.prove_paths(f"StmtCompiler._assign_array[{nm}]:names-bound-to-elements-in-index-order/\\assigned-left-to-right/\\starred-gets-the-middle", paths, post,
                            func=f"{SC}:StmtCompiler._assign_array", replay=lambda m_: {"script": REPLAY_UNPACK, "input": {}})
            count += 1
    chk.record("StmtCompiler._assign_array:all-pattern-shapes-explored", count >= 36, str(count), kind="reachability")
    chk.use_engine(e)


REPLAY_ACCESS = r'''
import os, sys, tempfile, importlib.util, shutil
# every out-of-range index (negative ones included) must panic; in-range ones touch element i only
cases = [(-1, True), (4, True), (-4, True), (7, True), (0, False), (3, False)]
src = "from guppylang import guppy\nfrom guppylang.std.builtins import array, result\n"
for k, (i, _) in enumerate(cases):
    if INPUT["kind"] == "get":
        src += f"@guppy\ndef m{k}(i: int) -> None:\n    xs = array(10, 20, 30, 40)\n    result('v', xs[i])\n@guppy\ndef main{k}() -> None:\n    m{k}({i})\n"
    else:
        src += f"@guppy\ndef m{k}(i: int) -> None:\n    xs = array(10, 20, 30, 40)\n    xs[i] = 99\n    result('a', xs[0]); result('b', xs[1]); result('c', xs[2]); result('d', xs[3])\n@guppy\ndef main{k}() -> None:\n    m{k}({i})\n"
d = tempfile.mkdtemp(dir=os.environ.get("TMPDIR", "/var/tmp")); fn = os.path.join(d, "c19a.py"); open(fn, "w").write(src)
spec = importlib.util.spec_from_file_location("c19a", fn); m = importlib.util.module_from_spec(spec); sys.modules["c19a"] = m
bad = []
try:
    spec.loader.exec_module(m)
    for k, (i, must_panic) in enumerate(cases):
        try:
            res = getattr(m, f"main{k}").emulator(n_qubits=1).run()
            vals = [list(x) for x in list(res.results)[0]]
            panicked = False
        except Exception as ex:
            panicked, vals = True, repr(ex)[:80]
        if must_panic and not panicked: bad.append(f"index {i} on a 4-element array did not panic: {vals}")
        if not must_panic and panicked: bad.append(f"index {i} panicked: {vals}")
        if not must_panic and not panicked:
            want = [["v", [10, 20, 30, 40][i]]] if INPUT["kind"] == "get" else [[t, 99 if j == i else v] for j, (t, v) in enumerate(zip("abcd", [10, 20, 30, 40]))]
            if vals != want: bad.append(f"index {i}: {vals} != {want}")
    out = {"violates": bool(bad), "detail": bad}
except Exception as ex:
    out = {"violates": False, "error": repr(ex)[:300]}
shutil.rmtree(d, ignore_errors=True)
print(json.dumps(out))
'''

REPLAY_UNPACK = r'''
import os, sys, tempfile, importlib.util, shutil
src = """
from guppylang import guppy
from guppylang.std.builtins import array, result
@guppy
def main() -> None:
    a, *mid, y, z = array(10, 20, 30, 40, 50)
    result("a", a); result("y", y); result("z", z)
"""
d = tempfile.mkdtemp(dir=os.environ.get("TMPDIR", "/var/tmp")); fn = os.path.join(d, "c19m.py"); open(fn, "w").write(src)
spec = importlib.util.spec_from_file_location("c19m", fn); m = importlib.util.module_from_spec(spec); sys.modules["c19m"] = m
try:
    spec.loader.exec_module(m)
    res = m.main.emulator(n_qubits=1).run()
    got = [list(map(list, s)) for s in res.results] if hasattr(res, "results") else str(res)
    flat = {k: v for shot in got for k, v in shot} if isinstance(got, list) else {}
    want = {"a": 10, "y": 40, "z": 50}
    out = {"violates": flat != want, "observed": flat, "required": want}
except Exception as ex:
    out = {"violates": False, "error": repr(ex)[:300]}
shutil.rmtree(d, ignore_errors=True)
print(json.dumps(out))
'''


def place_indices(chk, require_order=False):
    """ExprCompiler.visit_PlaceNode / bind_subscript_items and StmtCompiler._assign_place
    (compiler/expr_compiler.py, stmt_compiler.py), real code on real Variable / SubscriptAccess /
    FieldAccess places of depth 1..3 (with a struct field between two subscripts): however often a
    place and its parents are visited within one dataflow graph — the read, the nested __getitem__
    calls, the write-back after a borrowing call, an assignment through the place — every index
    expression is compiled EXACTLY ONCE, innermost subscript first, and every access uses that one
    wire.  (Compiling it again would re-run its side effects and address another element.)"""
    EC = "guppylang_internals.compiler.expr_compiler"
    SC = "guppylang_internals.compiler.stmt_compiler"
    CORE = "guppylang_internals.checker.core"
    e = mk_engine(chk)
    for mod, q in ((EC, "ExprCompiler.visit_PlaceNode"), (EC, "ExprCompiler.bind_subscript_items"), (SC, "StmtCompiler._assign_place"), (CORE, "contains_subscript")):
        try:
            e.func_info(mod, q)
        except KeyError:
            pass          # a helper may be inlined again; the obligations below are on the visit methods
    order = (lambda idx: idx) if require_order else sorted
    what = "every-index-compiled-exactly-once-innermost-first" if require_order else "every-index-compiled-exactly-once"

    def build(it, shape):
        """shape: string over 's' (subscript) and 'f' (field), innermost first; returns (places outermost last, log)"""
        V = it.lookup_global(e.module(CORE), "Variable")
        SA = it.lookup_global(e.module(CORE), "SubscriptAccess")
        FA = it.lookup_global(e.module(CORE), "FieldAccess")
        IF = it.lookup_global(e.module("guppylang_internals.tys.ty"), "InputFlags")
        nof = it.getattr(IF, "NoFlags")
        root = SObj(V, {"name": "xs", "ty": "T", "defined_at": None, "flags": nof, "is_func_input": False})
        cur, subs = root, []
        for k, c in enumerate(shape):
            if c == "s":
                item = SObj(V, {"name": f"%idx{k}", "ty": "int", "defined_at": None, "flags": nof, "is_func_input": False})
                sub = SObj(SA, {"parent": cur, "item": item, "ty": "T", "item_expr": ("INDEX-EXPR", k),
                                "getitem_call": ("GETITEM", k), "setitem_call": SObj(ClassVal("SetitemCall", builtin=True), {"call": ("SETITEM", k), "value_var": ("VALUE-VAR", k)})})
                subs.append(sub)
                cur = sub
            else:
                cur = SObj(FA, {"parent": cur, "field": SObj(ClassVal("StructField", builtin=True), {"name": f"f{k}", "ty": "T"}), "exact_defined_at": None})
        return root, subs, cur

    def mk_self(it, subs, log):
        ECc = it.lookup_global(e.module(EC), "ExprCompiler")
        PN = it.lookup_global(e.module("guppylang_internals.nodes"), "PlaceNode")
        dfg = {}
        self_ = SObj(ECc, {"dfg": dfg, "ctx": None})

        def visit(x):
            if isinstance(x, tuple) and x[0] == "INDEX-EXPR":
                log.append(("index", x[1]))
                return ("idx-wire", x[1], len([1 for y in log if y == ("index", x[1])]))
            if isinstance(x, tuple) and x[0] in ("GETITEM", "SETITEM"):
                k = x[1]
                # the synthesized call takes the parent place and the index temporary as arguments
                parent = subs[[i for i, s_ in enumerate(subs) if s_.fields["getitem_call"] == ("GETITEM", k)][0]].fields["parent"]
                from pyvc import SObj as _S
                if any(True for _ in [0]) and it.call(it.lookup_global(e.module(CORE), "contains_subscript"), [parent], {}) is not None:
                    it.call_method(self_, "visit_PlaceNode", [_S(PN, {"place": parent})])
                item = subs[[i for i, s_ in enumerate(subs) if s_.fields["getitem_call"] == ("GETITEM", k)][0]].fields["item"]
                log.append((x[0].lower(), k, dfg.get(it.hashable(item)) if hasattr(it, "hashable") else None))
                return (x[0].lower() + "-wire", k)
            raise AssertionError(f"unexpected visit of {x!r}")
        self_.fields["visit"] = Builtin("visit", visit)
        self_.fields["compile"] = Builtin("compile", lambda x, d: visit(x))
        return self_, PN, dfg

    for shape in ("s", "ss", "sss", "sfs", "fs", "sf"):
        nsub = shape.count("s")
        for visits in (1, 2, 3):
            def t(it, shape=shape, visits=visits):
                root, subs, outer = build(it, shape)
                log = []
                self_, PN, dfg = mk_self(it, subs, log)
                dfg_obj = it.exec_snippet(e.module(EC), DFG_SNIPPET)["dfg"]
                self_.fields["dfg"] = dfg_obj
                for _ in range(visits):
                    it.call_method(self_, "visit_PlaceNode", [SObj(PN, {"place": outer})])
                return log, [next((v for kk, v in dfg_obj.fields["items"] if kk is s_.fields["item"]), None) for s_ in subs]
            paths = e.explore(t)

            def post(p, shape=shape, nsub=nsub):
                if p.kind != "return":
                    return z3.BoolVal(False)
                log, wires = p.value
                idx = [x[1] for x in log if x[0] == "index"]
                ks = [k for k, c in enumerate(shape) if c == "s"]
                return z3.BoolVal(order(idx) == ks and wires == [("idx-wire", k, 1) for k in ks])
            chk.prove_paths(f"ExprCompiler.visit_PlaceNode[place={shape},visits={visits}]:{what}/\\the-temporaries-keep-that-wire", paths, post,
                            func=f"{EC}:ExprCompiler.visit_PlaceNode", replay=lambda m_: {"script": REPLAY_NESTED_INDEX, "input": {}})

        # assignment through the place after it was read (same dataflow graph)
        def t_asg(it, shape=shape):
            root, subs, outer = build(it, shape)
            log = []
            self_, PN, dfg = mk_self(it, subs, log)
            dfg_obj = it.exec_snippet(e.module(EC), DFG_SNIPPET)["dfg"]
            self_.fields["dfg"] = dfg_obj
            SCc = it.lookup_global(e.module(SC), "StmtCompiler")
            sc = SObj(SCc, {"dfg": dfg_obj, "expr_compiler": self_, "ctx": None})
            it.call_method(self_, "visit_PlaceNode", [SObj(PN, {"place": outer})])
            it.call_method(sc, "_assign_place", [SObj(PN, {"place": outer}), "NEW-VALUE"])
            return log, [next((v for kk, v in dfg_obj.fields["items"] if kk is s_.fields["item"]), None) for s_ in subs]
        chk.prove_paths(f"StmtCompiler._assign_place[place={shape},after-a-read]:no-index-is-compiled-again", e.explore(t_asg),
                        lambda p, shape=shape: z3.BoolVal(p.kind == "return" and order([x[1] for x in p.value[0] if x[0] == "index"]) == [k for k, c in enumerate(shape) if c == "s"]
                                                          and p.value[1] == [("idx-wire", k, 1) for k, c in enumerate(shape) if c == "s"]),
                        func=f"{SC}:StmtCompiler._assign_place", replay=lambda m_: {"script": REPLAY_NESTED_INDEX, "input": {}})
    chk.use_engine(e)


DFG_SNIPPET = '''
class _DFG:
    """stand-in for DFContainer: a place -> wire map (the places of one scenario are distinct objects)"""
    def __init__(self):
        self.items = []
    def _find(self, k):
        for i, kv in enumerate(self.items):
            if kv[0] is k:
                return i
        return -1
    def __contains__(self, k):
        return self._find(k) >= 0
    def __getitem__(self, k):
        i = self._find(k)
        return self.items[i][1] if i >= 0 else ("wire-of", k)
    def __setitem__(self, k, v):
        i = self._find(k)
        if i >= 0:
            self.items[i] = (k, v)
        else:
            self.items.append((k, v))
dfg = _DFG()
'''

REPLAY_NESTED_INDEX = r'''
import tempfile, importlib.util, os, sys, shutil
src = """from guppylang import guppy
from guppylang.std.builtins import array, result
@guppy
def nxt(c: array[int, 1]) -> int:
    c[0] = c[0] + 1
    return 0
@guppy
def bump(x: array[int, 2]) -> None:
    x[0] = x[0] + 1
@guppy
def main() -> None:
    c = array(0)
    t = array(array(array(1, 2), array(3, 4)), array(array(5, 6), array(7, 8)))
    bump(t[nxt(c)][1])
    t[nxt(c)][0][1] = 9
    result("calls", c[0])
    result("a", t[0][1][0])
    result("b", t[0][0][1])
"""
d = tempfile.mkdtemp(dir=os.environ.get("TMPDIR", "/var/tmp")); fn = os.path.join(d, "replay_c19n.py"); open(fn, "w").write(src)
spec = importlib.util.spec_from_file_location("replay_c19n", fn); m = importlib.util.module_from_spec(spec); sys.modules["replay_c19n"] = m
try:
    spec.loader.exec_module(m)
    got = [list(x) for x in list(m.main.emulator(n_qubits=1).run().results)[0].entries]
    want = [["calls", 2], ["a", 4], ["b", 9]]
    out = {"violates": got != want, "observed": got, "required": want}
except Exception as ex:
    out = {"violates": "anic" in str(ex), "error": repr(ex)[:300]}
shutil.rmtree(d, ignore_errors=True)
print(json.dumps(out))
'''


def augassign_index(chk):
    """CFGBuilder.visit_AugAssign (cfg/builder.py): `xs[e] += v` is later desugared to
    `xs[e] = xs[e] + v`, which mentions the index twice; the element read and the element written are
    the same only if `e` is evaluated once.  Real builder, run on a family of index expressions (names,
    constants, calls, arithmetic over calls, unary minus, nested subscripts, attribute access, indices of
    nested subscripts): in the block statement that results, EVERY index of the target's subscript
    chain is a plain name or a constant (anything else was bound to a temporary first), and the
    temporaries are assigned, innermost subscript first, before the statement."""
    import ast as _ast
    from . import C03 as C3
    from .common import ast_from_source
    BM = "guppylang_internals.cfg.builder"
    e = C3.cfg_engine(chk)
    e.func_info(BM, "CFGBuilder.visit_AugAssign")
    INDEX = ["i", "1", "f()", "f() + 1", "2 * f()", "i + 1", "-f()", "ys[f()]", "o.a", "f(g())", "(f(), 1)[0]", "i * j - f()"]
    targets = [f"xs[{a}]" for a in INDEX] + [f"m[{a}][{b}]" for a, b in (("f()", "g() + 1"), ("i", "f() * 2"), ("f() + g()", "1"), ("ys[f()]", "-g()"))] + ["m[f() + 1].fld[g() - 1]"]
    n = 0
    for tgt in targets:
        def t(it, tgt=tgt):
            m = e.module(BM)
            it.ctx.mod_globals(m)["tmp_vars"] = [f"%tmp{k}" for k in range(100)]
            CB = it.lookup_global(m, "CFGBuilder")
            fd = ast_from_source(it, f"def fn():\n    {tgt} += v\n").fields["body"][0]
            cfg = it.call_method(it.call(CB, [], {}), "build", [fd.fields["body"], True, SObj(ClassVal("Globals", builtin=True), {})])
            return cfg
        paths = e.explore(t)

        def post(p, tgt=tgt):
            if p.kind != "return":
                return z3.BoolVal(False)
            stmts = [C3.to_real_ext(st) for bb in p.value.fields["bbs"] for st in bb.fields["statements"]]
            aug = [st for st in stmts if isinstance(st, _ast.AugAssign)]
            if len(aug) != 1:
                return z3.BoolVal(False)
            idx, tnode = [], aug[0].target
            while isinstance(tnode, (_ast.Subscript, _ast.Attribute)):
                if isinstance(tnode, _ast.Subscript):
                    idx.append(tnode.slice)
                tnode = tnode.value
            ok = all(isinstance(x, (_ast.Name, _ast.Constant)) for x in idx)
            # every temporary used as an index is assigned exactly once, before the statement
            pos = stmts.index(aug[0])
            order = []
            for x in idx:
                if isinstance(x, _ast.Name) and x.id.startswith("%tmp"):
                    defs = [k for k, st in enumerate(stmts) if isinstance(st, _ast.Assign) and isinstance(st.targets[0], _ast.Name) and st.targets[0].id == x.id]
                    ok = ok and len(defs) == 1 and defs[0] < pos
                    order += defs
            # idx lists the subscripts outermost first; Python evaluates a[i][j] from the inside (i before j)
            ok = ok and order == sorted(order, reverse=True)
            return z3.BoolVal(ok)
        chk.prove_paths(f"visit_AugAssign[{tgt} += v]:every-index-of-the-target-is-a-name-or-constant-afterwards(bound-once-before-the-statement,innermost-subscript-first)", paths, post, func=f"{BM}:CFGBuilder.visit_AugAssign",
                        replay=lambda m_: {"script": REPLAY_AUG, "input": {}})
        n += 1
    chk.record("visit_AugAssign:targets-explored", n >= 15, str(n), kind="reachability")
    chk.use_engine(e)


REPLAY_AUG = r'''
import tempfile, importlib.util, os, sys, shutil
src = """from guppylang import guppy
from guppylang.std.builtins import array, result
@guppy
def nxt(c: array[int, 1]) -> int:
    c[0] = c[0] + 1
    return c[0] - 1
@guppy
def main() -> None:
    c = array(0)
    xs = array(10, 20, 30, 40)
    xs[nxt(c) + 1] += 5
    xs[2 * nxt(c)] += 7
    result("calls", c[0])
    result("x1", xs[1])
    result("x2", xs[2])
"""
d = tempfile.mkdtemp(dir=os.environ.get("TMPDIR", "/var/tmp")); fn = os.path.join(d, "replay_c19a.py"); open(fn, "w").write(src)
spec = importlib.util.spec_from_file_location("replay_c19a", fn); m = importlib.util.module_from_spec(spec); sys.modules["replay_c19a"] = m
try:
    spec.loader.exec_module(m)
    try:
        got = [list(x) for x in list(m.main.emulator(n_qubits=1).run().results)[0].entries]
        want = [["calls", 2], ["x1", 25], ["x2", 37]]
        out = {"violates": got != want, "observed": got, "required": want}
    except Exception as ex:
        out = {"violates": "anic" in str(ex), "observed": str(ex)[:200]}
except Exception as ex:
    out = {"violates": False, "error": repr(ex)[:300]}
shutil.rmtree(d, ignore_errors=True)
print(json.dumps(out))
'''


def iteration(chk):
    """Iteration sees the elements in index order (guppylang/std/array.py, Guppy mode via guppycoll):
    `array.__iter__` starts the iterator ArrayIter(xs, 0); `ArrayIter.__next__` in a state (xs, i)
    with 0 <= i <= n (the invariant: established by __iter__, preserved by every step) returns
    some((xs[i], ArrayIter(xs, i + 1))) iff i < n — the SAME array, the next index — and otherwise
    discards the array and returns nothing(); it never panics in such a state.  By induction on i the
    k-th value a `for` loop sees is element k, and the loop ends after element n - 1.  The element
    read is `_array_unsafe_getitem`, bound to the ArrayGetitemCompiler whose contract (element i iff
    0 <= i < n, else panic) is proved above and used here as the callee's contract.
    The frozenarray iterator has the same shape and is checked the same way."""
    from . import guppycoll as GC
    from .guppycoll import MInt, GOpt
    from pyvc import SOpq
    AM = "guppylang.std.array"
    e = mk_engine(chk)
    GC.install(e, [AM])
    N = z3.Int("n")
    i0 = z3.Int("i")
    T = z3.DeclareSort("Elem")
    XS = z3.Const("xs", z3.ArraySort(z3.IntSort(), T))
    AC = ClassVal("SymArray", builtin=True)
    for q in ("ArrayIter.__next__", "array.__iter__", "FrozenarrayIter.__next__", "frozenarray.__iter__"):
        try:
            e.func_info(AM, q)
        except KeyError:
            pass

    def world(it, log):
        m = e.module(AM)

        def getitem(xs, i):
            i = MInt.of(i)
            log.append(("getitem", xs, i.t))
            if it.ctx.branch(z3.Or(i.t < 0, i.t >= N)):
                GC.panic(it, "array index out of bounds")
            return SOpq(z3.Select(xs.fields["arr"], i.t), "Elem")
        g = it.ctx.mod_globals(m)
        AC.attrs["__getitem__"] = Builtin("__getitem__", getitem)      # frozenarray[i]: FrozenarrayGetitemCompiler, same contract assumed
        g["_array_unsafe_getitem"] = Builtin("_array_unsafe_getitem", getitem)
        g["_array_discard_all_used"] = Builtin("_array_discard_all_used", lambda xs: log.append(("discard", xs)))
        g["n"] = MInt(N)
        g["int"] = Builtin("int", lambda v: MInt.of(v))
        g["SizedIter"] = Builtin("SizedIter", lambda x: ("SizedIter", x))
        return m, SObj(AC, {"arr": XS})

    for cls, arrcls in (("ArrayIter", "array"), ("FrozenarrayIter", "frozenarray")):
        def t_next(it, cls=cls):
            log = []
            m, xs = world(it, log)
            it.ctx.assume(N >= 0)
            it.ctx.assume(N < (1 << 62))
            it.ctx.assume(z3.And(i0 >= 0, i0 <= N))
            AI = it.lookup_global(m, cls)
            st = SObj(AI, {"xs": xs, "i": MInt(i0)})
            r = it.call_method(st, "__next__", [])
            return r, xs, log, AI
        paths = e.explore(t_next)

        def post(p, cls=cls):
            if p.kind != "return":
                return z3.BoolVal(False)            # no panic, no exception in a state satisfying the invariant
            r, xs, log, AI = p.value
            if not isinstance(r, GOpt):
                return z3.BoolVal(False)
            if z3.is_true(z3.simplify(r.some)) if z3.is_expr(r.some) else bool(r.some):
                v = r.payload
                ok = isinstance(v, tuple) and len(v) == 2 and isinstance(v[0], SOpq) and isinstance(v[1], SObj) and v[1].cls is AI and v[1].fields["xs"] is xs
                if not ok:
                    return z3.BoolVal(False)
                ni = MInt.of(v[1].fields["i"]).t
                reads = [x for x in log if x[0] == "getitem"]
                return z3.And(i0 < N, v[0].t == z3.Select(XS, i0), ni == i0 + 1, ni >= 0, ni <= N, z3.BoolVal(len(reads) == 1 and reads[0][1] is xs and not any(x[0] == "discard" for x in log)))
            dis = [x for x in log if x[0] == "discard"]
            want_dis = 1 if cls == "ArrayIter" else 0
            return z3.And(i0 >= N, z3.BoolVal(len(dis) == want_dis and all(x[1] is xs for x in dis) and not any(x[0] == "getitem" for x in log)))
        chk.prove_paths(f"{cls}.__next__[state (xs, i), 0<=i<=n]:some((xs[i], iterator over the same array at i+1))<=>i<n;else-nothing(array-discarded);invariant-kept;never-panics", paths, post,
                        func=f"{AM}:{cls}.__next__", replay=lambda m_: {"script": REPLAY_ITER, "input": {}})
        chk.record(f"{cls}.__next__:both-outcomes-explored", sum(1 for p in paths if p.kind == "return") >= 2, str([p.kind for p in paths]), kind="reachability")

        def t_iter(it, arrcls=arrcls, cls=cls):
            log = []
            m, xs = world(it, log)
            A = it.lookup_global(m, arrcls)
            f, _ = A.lookup("__iter__")
            r = it.call(f, [xs], {})
            return r, xs, it.lookup_global(m, cls), log
        paths = e.explore(t_iter)

        def post_iter(p):
            if p.kind != "return":
                return z3.BoolVal(False)
            r, xs, AI, log = p.value
            ok = isinstance(r, tuple) and r[0] == "SizedIter" and isinstance(r[1], SObj) and r[1].cls is AI and r[1].fields["xs"] is xs and log == []
            if not ok:
                return z3.BoolVal(False)
            return MInt.of(r[1].fields["i"]).t == 0
        chk.prove_paths(f"{arrcls}.__iter__:starts-the-iterator-over-the-same-array-at-index-0", paths, post_iter, func=f"{AM}:{arrcls}.__iter__",
                        replay=lambda m_: {"script": REPLAY_ITER, "input": {}})
    chk.use_engine(e)


REPLAY_ITER = r'''
import guppy_plainbool
import tempfile, importlib.util, os, sys, shutil
src = """from guppylang import guppy
from guppylang.std.builtins import array, result
@guppy
def main() -> None:
    xs = array(10, 20, 30, 40)
    for x in xs:
        result("x", x)
    ys = array(1, 2, 3)
    zs = array(y * 2 for y in ys)
    for z in zs:
        result("z", z)
    ws = zs.copy()
    result("w0", ws[0]); result("w2", ws[2])
"""
d = tempfile.mkdtemp(dir=os.environ.get("TMPDIR", "/var/tmp")); fn = os.path.join(d, "replay_c19i.py"); open(fn, "w").write(src)
spec = importlib.util.spec_from_file_location("replay_c19i", fn); m = importlib.util.module_from_spec(spec); sys.modules["replay_c19i"] = m
try:
    spec.loader.exec_module(m)
    try:
        got = [list(x) for x in list(m.main.emulator(n_qubits=1).run().results)[0].entries]
        want = [["x", 10], ["x", 20], ["x", 30], ["x", 40], ["z", 2], ["z", 4], ["z", 6], ["w0", 2], ["w2", 6]]
        out = {"violates": got != want, "observed": got, "required": want}
    except Exception as ex:
        out = {"violates": "anic" in str(ex), "observed": str(ex)[:200]}
except Exception as ex:
    out = {"violates": False, "error": repr(ex)[:300]}
shutil.rmtree(d, ignore_errors=True)
print(json.dumps(out))
'''


def unwrap_helpers(chk):
    """build_unwrap_right / build_unwrap_left (std/_internal/compiler/prelude.py), the helpers the array
    compilers use to turn "the hugr op reported failure" into a panic.  Real code against a recording
    conditional builder, for sums whose two variants carry different rows AND for sums whose variants
    carry the same row (the classical `set` op returns Either([elem, array], [elem, array])): the
    conditional has exactly the cases 0 and 1; for unwrap_right case 0 (Left = failure) panics with the
    given message and signal and case 1 passes its inputs through; mirrored for unwrap_left.  WHICH case
    panics is decided by the tag, never by the rows."""
    from pyvc.loops import NativeCM
    PM = "guppylang_internals.std._internal.compiler.prelude"
    e = mk_engine(chk)
    m = e.module(PM)
    SUM = ClassVal("Sum", builtin=True)
    e.ext_models["hugr.tys.Sum"] = SUM
    for fname, panic_case in (("build_unwrap_right", 0), ("build_unwrap_left", 1)):
        e.func_info(PM, fname)
        for rows in ((["A"], ["B", "C"]), (["E", "ARR"], ["E", "ARR"]), ([], ["X"]), (["X"], [])):
            def t(it, fname=fname, rows=rows):
                log = []
                e.models[f"{PM}:build_static_error"] = lambda it2, a, k: ("ERROR", a[1], a[2])
                e.models[f"{PM}:build_panic"] = lambda it2, a, k: [("PANIC-OUT", a[0] is not None, tuple(a[1]), tuple(a[2]), a[3], tuple(a[4:]))]

                def add_case(i):
                    case = SObj(ClassVal("Case", builtin=True), {"i": i})
                    case.fields["inputs"] = Builtin("inputs", lambda i=i: [f"IN{i}.{k}" for k in range(len(rows[i]))])
                    case.fields["set_outputs"] = Builtin("set_outputs", lambda *o, i=i: log.append(("outputs", i, list(o))))
                    return NativeCM(lambda: case, lambda *a: False)
                cond = SObj(ClassVal("Conditional", builtin=True), {"add_case": Builtin("add_case", add_case), "to_node": Builtin("to_node", lambda: "COND-NODE")})
                ty = SObj(SUM, {"variant_rows": [list(rows[0]), list(rows[1])]})
                hugr = SObj(ClassVal("H", builtin=True), {"port_type": Builtin("port_type", lambda p_: ty)})
                builder = SObj(ClassVal("B", builtin=True), {"hugr": hugr, "add_conditional": Builtin("add_conditional", lambda w: (log.append(("cond", w)), cond)[1])})
                either = SObj(ClassVal("Wire", builtin=True), {"out_port": Builtin("out_port", lambda: "PORT")})
                r = it.call(it.lookup_global(m, fname), [builder, either, "MSG", 7], {})
                return r, log, either
            paths = e.explore(t)

            def post(p, rows=rows, panic_case=panic_case):
                if p.kind != "return":
                    return z3.BoolVal(False)
                r, log, either = p.value
                outs = {x[1]: x[2] for x in log if x[0] == "outputs"}
                ok = r == "COND-NODE" and [x for x in log if x[0] == "cond"] == [("cond", either)] and sorted(outs) == [0, 1] and len([x for x in log if x[0] == "outputs"]) == 2
                ok_case = 1 - panic_case
                ok = ok and outs.get(ok_case) == [f"IN{ok_case}.{k}" for k in range(len(rows[ok_case]))]
                po = outs.get(panic_case)
                ok = ok and isinstance(po, list) and len(po) == 1 and isinstance(po[0], tuple) and po[0][0] == "PANIC-OUT" and po[0][4] == ("ERROR", 7, "MSG") \
                    and po[0][2] == tuple(rows[panic_case]) and po[0][3] == tuple(rows[ok_case]) and po[0][5] == tuple(f"IN{panic_case}.{k}" for k in range(len(rows[panic_case])))
                return z3.BoolVal(bool(ok))
            chk.prove_paths(f"{fname}[rows {rows[0]} | {rows[1]}]:case-{panic_case}-panics-with-the-message-and-signal/\\case-{1 - panic_case}-passes-its-inputs-through(decided-by-the-tag,not-by-the-rows)", paths, post,
                            func=f"{PM}:{fname}", replay=lambda m_: {"script": REPLAY_OOB_WRITE, "input": {}})
    chk.use_engine(e)


REPLAY_OOB_WRITE = r'''
import guppy_plainbool
import tempfile, importlib.util, os, sys, shutil
src = """from guppylang import guppy
from guppylang.std.builtins import array, result
@guppy
def main(i: int) -> None:
    xs = array(10, 20, 30)
    xs[i] = 21
    result("x0", xs[0]); result("x1", xs[1]); result("x2", xs[2])
@guppy
def go() -> None:
    main(3)
"""
d = tempfile.mkdtemp(dir=os.environ.get("TMPDIR", "/var/tmp")); fn = os.path.join(d, "replay_c19w.py"); open(fn, "w").write(src)
spec = importlib.util.spec_from_file_location("replay_c19w", fn); m = importlib.util.module_from_spec(spec); sys.modules["replay_c19w"] = m
try:
    spec.loader.exec_module(m)
    try:
        got = [list(x) for x in list(m.go.emulator(n_qubits=1).run().results)[0].entries]
        out = {"violates": True, "observed": got, "required": "xs[3] = 21 on an array of length 3 must panic"}
    except Exception as ex:
        out = {"violates": "anic" not in str(ex) and "rror" not in type(ex).__name__, "observed": type(ex).__name__ + ": " + str(ex)[:120]}
except Exception as ex:
    out = {"violates": False, "error": repr(ex)[:300]}
shutil.rmtree(d, ignore_errors=True)
print(json.dumps(out))
'''


NCH_B = 8


def bounded(chk, i):
    """BOUNDED: array programs on the emulator against list semantics with panics (C19_oracle.py)"""
    import json
    from pyvc.report import run_replay
    from .C19_oracle import ORACLE, DRIVER
    res = run_replay(ORACLE + DRIVER, {"chunk": i, "nchunks": NCH_B, "sizes": [1, 2, 3] if chk.tier == "thorough" else [2]}, chk.repo, timeout=6000)
    if "evaluations" not in res:
        chk.undecided(f"bounded[{i}/{NCH_B}]:array-programs", "oracle run failed: " + json.dumps(res)[:800])
        return
    w = res.get("witness")
    o = chk.bounded_result(f"bounded[{i}/{NCH_B}]:emulator==list-semantics(read/write/augmented-write/copy/iteration/comprehension/unpacking/nested cells/double lending; every index from -2 to n+1; slice {i} of {NCH_B})",
                           not res.get("violates"), res["evaluations"], detail=res.get("detail") or f"{res['evaluations']} runs agree (values, and panic exactly for indices outside 0..n-1 and for lending a row twice)",
                           witness=w, func="guppylang_internals.std._internal.compiler.array:ArrayGetitemCompiler")
    if w:
        o.replay.update({"script": ORACLE + DRIVER, "input": {"chunk": 0, "nchunks": 1, "only": w["program"], "sizes": [1, 2, 3]}})


def array_comprehension(chk):
    """ExprCompiler.visit_DesugaredArrayComp (compiler/expr_compiler.py): `array(elt for x in it)` is an
    array of the generated elements IN GENERATION ORDER.  Real code against a recording builder: before
    the loop the result is a fully-borrowed (empty) array of the static length and a counter 0; the array
    and the counter are the loop-carried variables of the generator loop; in every iteration the element
    is put into the array AT THE COUNTER (barray_return(array, usize(counter), element)) and the counter
    becomes counter + 1; the value of the expression is the array after the loop.  By induction the k-th
    generated element is element k."""
    from pyvc.loops import NativeCM
    EC = "guppylang_internals.compiler.expr_compiler"
    e = mk_engine(chk)
    e.func_info(EC, "ExprCompiler.visit_DesugaredArrayComp")
    m = e.module(EC)

    def t(it):
        log = []
        store = {}
        it.ctx.mod_globals(m)["tmp_vars"] = [f"%tmp{k}" for k in range(20)]
        OT = ClassVal("OpaqueType", builtin=True)
        VC = ClassVal("Variable", builtin=True)
        g_ = it.ctx.mod_globals(m)
        g_["OpaqueType"] = OT
        g_["Variable"] = Builtin("Variable", lambda name, ty, node: SObj(VC, {"name": name, "ty": ty, "defined_at": node}))
        e.models["guppylang_internals.ast_util:get_type"] = lambda it2, a, k: SObj(OT, {"args": [], "defn": "array"})
        e.models["guppylang_internals.std._internal.compiler.array:barray_new_all_borrowed"] = lambda it2, a, k: ("new_all_borrowed", a[0], a[1])
        e.models["guppylang_internals.std._internal.compiler.array:barray_return"] = lambda it2, a, k: ("return", a[0], a[1])
        e.models["guppylang_internals.std._internal.compiler.arithmetic:convert_itousize"] = lambda it2, a, k: "itousize"
        e.models["guppylang_internals.tys.builtin:int_type"] = lambda it2, a, k: "INT"
        e.ext_models["hugr.std.int.IntVal"] = lambda it2, a, k: ("IntVal", a[0], k.get("width"))
        from .bindings import rec
        for nm in ("TypeTypeArg", "BoundedNatArg", "ListArg", "TupleArg", "Tuple", "Sum", "Option", "Either", "FunctionType", "PolyFuncType", "TypeBound"):
            e.ext_models.setdefault(f"hugr.tys.{nm}", rec(nm))
        builder = SObj(ClassVal("Builder", builtin=True), {})
        builder.fields["add_op"] = Builtin("add_op", lambda op, *w: (log.append(("op", op, list(w))), ("wire", op, tuple(w)))[1])
        builder.fields["load"] = Builtin("load", lambda v: ("const", v))
        dfg = it.exec_snippet(m, "class _D:\n    def __init__(self, b, store):\n        self.builder = b\n        self.store = store\n    def __getitem__(self, k):\n        return self.store[k.name]\n    def __setitem__(self, k, v):\n        self.store[k.name] = v\nd = _D(b, store)\n", {"b": builder, "store": store})["d"]
        ECc = it.lookup_global(m, "ExprCompiler")
        self_ = SObj(ECc, {"ctx": "CTX", "dfg": dfg, "builder": builder})

        def build_generators(gens, loop_vars):
            log.append(("generators", list(gens), [v.fields["name"] for v in loop_vars], dict(store)))
            return NativeCM(lambda: log.append(("loop-enter",)), lambda *a: (log.append(("loop-exit", dict(store))), False)[1])
        self_.fields["_build_generators"] = Builtin("_build_generators", build_generators)
        self_.fields["visit"] = Builtin("visit", lambda n: (log.append(("elt", n)), "ELT-WIRE")[1])
        self_.fields["_build_method_call"] = Builtin("_build_method_call", lambda ty, meth, node, args, targs: ([("call", ty, meth, tuple(args))], []))
        length = SObj(ClassVal("Const", builtin=True), {"to_arg": Builtin("to_arg", lambda: SObj(ClassVal("Arg", builtin=True), {"to_hugr": Builtin("to_hugr", lambda c: "LEN")}))})
        node = SObj(ClassVal("DesugaredArrayComp", builtin=True), {"elt": "ELT", "generator": "GEN", "length": length,
                                                                   "elt_ty": SObj(ClassVal("Ty", builtin=True), {"to_hugr": Builtin("to_hugr", lambda c: "ELT-TY")})})
        f, _ = ECc.lookup("visit_DesugaredArrayComp")
        r = it.call(f, [self_, node], {})
        return r, log, store
    paths = e.explore(t)

    def post(p):
        if p.kind != "return":
            return z3.BoolVal(False)
        r, log, store = p.value
        gens = [x for x in log if x[0] == "generators"]
        ok = len(gens) == 1 and gens[0][1] == ["GEN"] and len(gens[0][2]) == 2
        if not ok:
            return z3.BoolVal(False)
        arr_name, cnt_name = gens[0][2]
        before = gens[0][3]
        new = ("new_all_borrowed", "ELT-TY", "LEN")
        ok = before.get(arr_name) == ("wire", new, ()) and before.get(cnt_name) == ("const", ("IntVal", 0, 6))
        exits = [x for x in log if x[0] == "loop-exit"]
        ok = ok and len(exits) == 1
        after = exits[0][1] if exits else {}
        idx = ("wire", "itousize", (before.get(cnt_name),))
        ok = ok and after.get(arr_name) == ("wire", ("return", "ELT-TY", "LEN"), (before.get(arr_name), idx, "ELT-WIRE"))
        ok = ok and after.get(cnt_name) == ("call", "INT", "__add__", (before.get(cnt_name), ("const", ("IntVal", 1, 6))))
        ok = ok and [x for x in log if x[0] == "elt"] == [("elt", "ELT")] and r == after.get(arr_name)
        order = [x[0] for x in log if x[0] in ("generators", "loop-enter", "elt", "loop-exit")]
        ok = ok and order == ["generators", "loop-enter", "elt", "loop-exit"]
        return z3.BoolVal(bool(ok))
    chk.prove_paths("visit_DesugaredArrayComp:empty-array-and-counter-0-before-the-loop/\\element-stored-at-the-counter/\\counter+1/\\array-and-counter-are-the-loop-variables/\\result-is-the-array-after-the-loop", paths, post,
                    func=f"{EC}:ExprCompiler.visit_DesugaredArrayComp", replay=lambda m_: {"script": REPLAY_ITER, "input": {}})
    chk.use_engine(e)


def tuple_unpacking(chk, tag=""):
    """StmtCompiler._assign_tuple (compiler/stmt_compiler.py): `l0, .., *s, r0, .. = <tuple>` binds the left
    patterns to the first components, the right patterns to the LAST components in their written order
    (r_k to component n - R + k), and the starred pattern to an array of the components in between, in
    order.  Real code against a recording builder, all pattern shapes with up to 3 patterns per side and
    a starred middle of 0..2 (or none).  Shared with C03 (unpacking assignments follow Python)."""
    e = mk_engine(chk)
    e.func_info(SC, "StmtCompiler._assign_tuple")
    m = e.module(SC)
    e.models["guppylang_internals.ast_util:get_type"] = lambda it, a, k: SObj(ClassVal("Ty", builtin=True), {"row": a[0].fields.get("row"), "elem": "ELT"})
    e.models["guppylang_internals.tys.ty:type_to_row"] = lambda it, a, k: [SObj(ClassVal("Ty", builtin=True), {"to_hugr": Builtin("to_hugr", lambda c, i=i: f"T{i}")}) for i in range(a[0].fields["row"])]
    e.models["guppylang_internals.tys.builtin:get_element_type"] = lambda it, a, k: SObj(ClassVal("Ty", builtin=True), {"to_hugr": Builtin("to_hugr", lambda c: "ELT-H")})
    e.models[f"{AR}:array_new"] = lambda it, a, k: ("array_new", a[0], a[1])
    e.ext_models["hugr.ops.UnpackTuple"] = lambda it, a, k: ("UnpackTuple", tuple(a[0]) if a else ())
    count = 0
    for L, R in itertools.product(range(4), repeat=2):
        for star in (None, 0, 1, 2):
            n = L + R + (star or 0)
            if n == 0:
                continue

            def t(it, L=L, R=R, star=star, n=n):
                StC = it.lookup_global(m, "StmtCompiler")
                assigned = []

                def add_op(op, *wires):
                    if op[0] == "UnpackTuple":
                        return [f"c{k}" for k in range(n)]
                    if op[0] == "array_new":
                        return ("ARRAY", op[2], list(wires))
                    raise Unsupported(str(op))
                builder = SObj(ClassVal("RecBuilder", builtin=True), {"add_op": Builtin("add_op", add_op)})
                pats_l = [("L", k) for k in range(L)]
                pats_r = [("R", k) for k in range(R)]
                starred = SObj(ClassVal("Starred", builtin=True), {"row": None}) if star is not None else None
                pattern = SObj(ClassVal("UnpackPattern", builtin=True), {"left": pats_l, "right": pats_r, "starred": starred})
                lhs = SObj(ClassVal("TupleUnpack", builtin=True), {"pattern": pattern, "row": n})
                self_ = SObj(StC, {"ctx": None, "dfg": SObj(ClassVal("DFC", builtin=True), {"builder": builder}),
                                   "_assign": Builtin("_assign", lambda pat, val: assigned.append((pat, val)))})
                it.call_method(self_, "_assign_tuple", [lhs, "PORT"])
                return assigned, starred
            paths = e.explore(t)

            def post(p, L=L, R=R, star=star, n=n):
                if p.kind != "return":
                    return z3.BoolVal(False)
                assigned, starred = p.value
                want = {("L", k): f"c{k}" for k in range(L)}
                want.update({("R", k): f"c{n - R + k}" for k in range(R)})
                got = {a: b for a, b in assigned if isinstance(a, tuple)}
                ok = got == want and len([1 for a, _ in assigned if isinstance(a, tuple)]) == L + R
                st = [b for a, b in assigned if a is starred and starred is not None]
                if star is not None:
                    ok = ok and len(st) == 1 and st[0][0] == "ARRAY" and st[0][1] == n - L - R and st[0][2] == [f"c{k}" for k in range(L, n - R)]
                else:
                    ok = ok and not st
                return z3.BoolVal(bool(ok))
            nm = f"{L} left, {R} right, " + ("no starred" if star is None else f"starred middle of {star}")
            chk.prove_paths(f"{tag}StmtCompiler._assign_tuple[{nm}]:left-patterns<-first-components/\\right-patterns<-last-components-in-written-order/\\starred<-the-middle-in-order", paths, post,
                            func=f"{SC}:StmtCompiler._assign_tuple", replay=lambda m_: {"script": REPLAY_TUPLE_UNPACK, "input": {}})
            count += 1
    chk.record(f"{tag}StmtCompiler._assign_tuple:all-pattern-shapes-explored", count >= 60, str(count), kind="reachability")
    chk.use_engine(e)


REPLAY_TUPLE_UNPACK = r'''
import guppy_plainbool
import tempfile, importlib.util, os, sys, shutil
src = """from guppylang import guppy
from guppylang.std.builtins import result
@guppy
def main() -> None:
    w, *x, y, z = 40, 41, 42, 43, 44
    result("w", w); result("x0", x[0]); result("x1", x[1]); result("y", y); result("z", z)
"""
d = tempfile.mkdtemp(dir=os.environ.get("TMPDIR", "/var/tmp")); fn = os.path.join(d, "replay_c19t.py"); open(fn, "w").write(src)
spec = importlib.util.spec_from_file_location("replay_c19t", fn); m = importlib.util.module_from_spec(spec); sys.modules["replay_c19t"] = m
try:
    spec.loader.exec_module(m)
    got = [list(x) for x in list(m.main.emulator(n_qubits=1).run().results)[0].entries]
    want = [["w", 40], ["x0", 41], ["x1", 42], ["y", 43], ["z", 44]]
    out = {"violates": got != want, "observed": got, "required": want}
except Exception as ex:
    out = {"violates": False, "error": repr(ex)[:300]}
shutil.rmtree(d, ignore_errors=True)
print(json.dumps(out))
'''
