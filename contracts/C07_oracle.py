"""Native oracle for C07 (bounded layer): emulator vs Python reference semantics.

Scenarios are short sequences of calls that lend non-copyable values (arrays, a struct with an
array field, rows of a nested array, an array inside a tuple, temporaries) to callees that update
them in place — several borrowed parameters in both orders, classical arguments in between,
nested lending, a returned value next to the update.  Each scenario ends by reporting every
observable element with result().  The same source text is (a) compiled with the real pipeline
and run on the emulator, (b) executed by CPython with a ten-line runtime in which `array` is a
list and `result` appends to a log.  The two result streams must be equal.
"""
ORACLE = r'''
import itertools, os, sys, tempfile, importlib.util, shutil, json

HELPERS = """
@guppy.struct
class S:
    xs: array[int, 3]
    k: int

@guppy
def bump(xs: array[int, 3], i: int, d: int) -> None:
    xs[i] = xs[i] + d

@guppy
def swap01(xs: array[int, 3]) -> None:
    tmp = xs[0]
    xs[0] = xs[1]
    xs[1] = tmp

@guppy
def two(xs: array[int, 3], ys: array[int, 3]) -> None:
    bump(xs, 0, 10)
    bump(ys, 2, 100)
    xs[1] = ys[2]

@guppy
def two_rev(ys: array[int, 3], xs: array[int, 3]) -> None:
    two(xs, ys)

@guppy
def mid(k: int, xs: array[int, 3], j: int, ys: array[int, 3]) -> None:
    xs[k] = j + 20
    ys[j] = k + 30

@guppy
def touch(s: S) -> None:
    bump(s.xs, 1, 7)

@guppy
def row(m: array[array[int, 3], 2], r: int, c: int, d: int) -> None:
    bump(m[r], c, d)

@guppy
def ret(xs: array[int, 3]) -> int:
    bump(xs, 2, 1)
    return xs[2] * 2

@guppy
def adv(c: array[int, 3]) -> int:
    c[0] = c[0] + 1
    return (c[0] + 1) % 2

@guppy
def three(xs: array[int, 3], ys: array[int, 3], zs: array[int, 3]) -> None:
    xs[0] = 41
    ys[0] = 42
    zs[0] = 43
"""
OPS = ["bump(a, 0, 1)", "bump(b, 1, 2)", "swap01(a)", "two(a, b)", "two(b, a)", "two_rev(a, b)", "mid(0, a, 1, b)", "mid(2, b, 0, a)", "touch(s)", "bump(s.xs, 0, 3)",
       "row(m, 1, 2, 5)", "bump(m[0], 1, 4)", "bump(t[0], 0, 3)", "two(array(9, 9, 9), a)", "two(a, array(9, 9, 9))", "result('x', ret(a))", "two(s.xs, m[1])",
       "three(array(0, 0, 0), a, b)", "three(a, array(0, 0, 0), b)", "three(b, s.xs, array(0, 0, 0))", "mid(1, t[0], 2, m[0])",
       # nested borrows whose index expressions have their own side effect (a borrowed counter): evaluated once, inside out
       "bump(u[adv(c)][1], 0, 5)", "bump(u[adv(c)][adv(c)], 1, 6)", "two(u[adv(c)][0], u[adv(c)][1])"]
DUMP = ["a[0]", "a[1]", "a[2]", "b[0]", "b[1]", "b[2]", "s.xs[0]", "s.xs[1]", "s.xs[2]", "m[0][1]", "m[1][1]", "m[1][2]", "t[0][0]", "t[0][1]",
        "u[0][0][0]", "u[0][0][1]", "u[0][1][0]", "u[0][1][1]", "u[1][0][0]", "u[1][0][1]", "u[1][1][0]", "u[1][1][1]", "u[0][0][2]", "u[1][1][2]", "c[0]"]

def scenario_src(k, ops):
    body = ["    a = array(1, 2, 3)", "    b = array(4, 5, 6)", "    s = S(array(7, 8, 9), 1)", "    m = array(array(1, 1, 1), array(2, 2, 2))", "    t = (array(0, 0, 0), 5)",
            "    u = array(array(array(1, 2, 3), array(4, 5, 6)), array(array(7, 8, 9), array(10, 11, 12)))", "    c = array(0, 0, 0)"]
    body += ["    " + o for o in ops]
    body += [f"    result('{j}', {d})" for j, d in enumerate(DUMP)]
    return f"@guppy\ndef sc{k}() -> None:\n" + "\n".join(body) + "\n"

def scenarios(tier):
    out = [[o] for o in OPS]
    pairs = [list(p) for p in itertools.product(OPS, repeat=2)]
    out += pairs if tier == "thorough" else pairs[::5]
    triples = [list(p) for p in itertools.product(OPS[::2], repeat=3)]
    out += triples[::7] if tier == "thorough" else triples[::61]
    return out

PY_RUNTIME = """
class _G:
    def __call__(self, f): return f
    def struct(self, c):
        ann = list(c.__annotations__)
        def __init__(self, *a):
            for n, v in zip(ann, a): setattr(self, n, v)
        c.__init__ = __init__
        return c
guppy = _G()
class array(list):
    def __init__(self, *xs): list.__init__(self, xs)
    def __class_getitem__(cls, item): return cls
_LOG = []
def result(tag, v): _LOG.append([tag, v])
"""

def run_batch(scs):
    """returns per scenario (emulator stream, python stream) or an error string"""
    src_g = "from guppylang import guppy\nfrom guppylang.std.builtins import array, result\n" + HELPERS
    src_g += "".join(scenario_src(k, ops) for k, ops in enumerate(scs))
    src_g += "@guppy\ndef main() -> None:\n" + "".join(f"    result('S', {k})\n    sc{k}()\n" for k in range(len(scs)))
    d = tempfile.mkdtemp(dir=os.environ.get("TMPDIR", "/var/tmp")); fn = os.path.join(d, "c07_progs.py")
    open(fn, "w").write(src_g)
    try:
        spec = importlib.util.spec_from_file_location("c07_progs", fn); m = importlib.util.module_from_spec(spec); sys.modules["c07_progs"] = m
        spec.loader.exec_module(m)
        res = m.main.emulator(n_qubits=1).run()
        stream = [list(x) for x in list(res.results)[0]]
    finally:
        shutil.rmtree(d, ignore_errors=True); sys.modules.pop("c07_progs", None)
    env = {}
    exec(PY_RUNTIME + HELPERS + "".join(scenario_src(k, ops) for k, ops in enumerate(scs)) + "\n" + "".join(f"result('S', {k})\nsc{k}()\n" for k in range(len(scs))), env)
    def split(st):
        out, cur = [], None
        for tag, v in st:
            if tag == "S": cur = []; out.append(cur)
            else: cur.append([tag, int(v)])
        return out
    return split(stream), split(env["_LOG"])
'''

DRIVER = r'''
from guppylang_internals.error import GuppyError
I_ = INPUT
allsc = scenarios(I_["tier"])
mine = allsc[I_["chunk"]::I_["nchunks"]]
bad = None; n = 0; rejected = []
B = 12
def run_group(group):
    global bad, n
    try:
        em, py = run_batch(group)
    except GuppyError as e:
        if len(group) == 1:
            rejected.append({"ops": group[0], "error": type(e.error).__name__}); return
        h = len(group) // 2
        run_group(group[:h]); run_group(group[h:]); return
    except Exception as e:
        # the emulated program panicked / crashed although every scenario is a terminating Python
        # program without out-of-range accesses: isolate the scenario, report it as a violation
        if type(e).__name__ not in ("EmulatorError", "SeleneRuntimeError", "SelenePanicError") and "anic" not in str(e):
            raise
        if len(group) == 1:
            if bad is None:
                bad = {"ops": group[0], "detail": f"after {'; '.join(group[0])}: the emulated program raised {type(e).__name__}: {str(e)[:160]} (Python completes normally)"}
            n += 1
            return
        h = len(group) // 2
        run_group(group[:h]); run_group(group[h:]); return
    for ops, a, b in zip(group, em, py):
        n += 1
        if a != b and bad is None:
            diff = [(DUMP[int(t)] if t.isdigit() else t, x, y) for (t, x), (_, y) in zip(a, b) if x != y][:6]
            bad = {"ops": ops, "detail": f"after {'; '.join(ops)}: emulator vs Python (observable, emulator, python): {diff}"}
for off in range(0, len(mine), B):
    run_group(mine[off:off + B])
    if bad: break
print(json.dumps({"violates": bad is not None, "evaluations": n, "rejected": rejected[:10], "n_rejected": len(rejected), "total": len(allsc), "witness": bad, "detail": bad and bad["detail"]}))
'''

REPLAY_ONE = r'''
try:
    em, py = run_batch([INPUT["ops"]])
    print(json.dumps({"violates": em != py, "emulator": em, "python": py, "ops": INPUT["ops"]}))
except Exception as e:
    if "anic" not in str(e) and type(e).__name__ != "EmulatorError": raise
    print(json.dumps({"violates": True, "emulator": f"raised {type(e).__name__}: {str(e)[:200]}", "python": "completes normally", "ops": INPUT["ops"]}))
'''
