"""C22 — Comptime tracing enforces ownership.

Functions under contract (guppylang_internals/tracing): GuppyObject.__init__ / _use_wire,
GuppyStructObject.__init__ / __setattr__, every method of frozenlist, unpack_guppy_object (the
`frozen` propagation), the leak check at the end of trace_function and the `frozen=` argument it
passes.  The object's type is a record with SYMBOLIC copyable / droppable flags, so one symbolic
execution covers linear, affine, relevant and unrestricted types.

Ghost invariant  REG:  state.unused_undroppable_objs == { o._id -> o | not droppable(o._ty) and
o._used is None }  — established by __init__, preserved by _use_wire.
"""
import ast
import json
import z3

from pyvc import SObj, ClassVal, Builtin, SBool, PyRaise, FlagVal
from .common import mk_engine, zbool

TITLE = "comptime ownership: use-at-most-once for non-copyable values, leak detection for non-droppable ones, frozen views of owned arguments"
OBJ = "guppylang_internals.tracing.object"
FL = "guppylang_internals.tracing.frozenlist"
UNP = "guppylang_internals.tracing.unpacking"
FN = "guppylang_internals.tracing.function"
LIST_MUTATORS = ["append", "clear", "extend", "insert", "pop", "remove", "reverse", "sort", "__delitem__", "__iadd__", "__imul__", "__setitem__"]

REPLAY = r'''
from guppylang import guppy
from guppylang.std.builtins import array, owned
from guppylang.std.option import Option, some
from guppylang_internals.error import GuppyError
import tempfile, importlib.util, os, sys, shutil
I = INPUT
src = "from guppylang import guppy\nfrom guppylang.std.builtins import array, owned\nfrom guppylang.std.option import Option\n" + I["program"]
d = tempfile.mkdtemp(dir=os.environ.get("TMPDIR", "/var/tmp")); fn = os.path.join(d, "replay_c22.py"); open(fn, "w").write(src)
spec = importlib.util.spec_from_file_location("replay_c22", fn); m = importlib.util.module_from_spec(spec); sys.modules["replay_c22"] = m
try:
    spec.loader.exec_module(m)
    try:
        m.main.compile_function(); accepted = True
    except GuppyError as e:
        accepted = False
    out = {"violates": accepted, "accepted": accepted, "required": "rejected (value used twice)"}
except Exception as ex:
    out = {"violates": False, "error": repr(ex)[:300]}
shutil.rmtree(d, ignore_errors=True)
print(json.dumps(out))
'''
REPLAY_LEAK = REPLAY.replace('"violates": accepted, "accepted": accepted, "required": "rejected (value used twice)"', '"violates": accepted, "accepted": accepted, "required": "rejected (qubit leaked after a borrowing call)"').replace("from guppylang.std.option import Option, some", "from guppylang.std.option import Option, some\nfrom guppylang.std.quantum import qubit, h")
PROG_LEAK_AFTER_BORROW = '''
from guppylang.std.quantum import qubit, h
@guppy.comptime
def main() -> None:
    q = qubit()
    h(q)
'''
PROG_REUSE = '''
@guppy.declare
def consume(x: Option[array[int, 2]] @owned) -> None: ...
@guppy.comptime
def main(x: Option[array[int, 2]] @owned) -> None:
    consume(x)
    consume(x)
'''


def upv_obligations(chk, tag="", consts=False):
    """update_packed_value (tracing/unpacking.py): what a comptime caller holds after a call that
    borrowed it.  Shared with C21 (calls to Guppy functions from comptime code must leave the
    caller with the callee's updates, for copyable and non-copyable components alike)."""
    e = mk_engine(chk)
    cop, dro, used0 = z3.Bools("copyable droppable initially_used")
    TY = ClassVal("Ty", builtin=True)

    def setup(it):
        state = it.call(it.lookup_global(e.module("guppylang_internals.tracing.state"), "TracingState"), [SObj(ClassVal("CompilerContext", builtin=True), {"checked_globals": None}), None, "NODE"], {})   # the real dataclass: fields added later get their defaults
        e.models["guppylang_internals.tracing.state:get_tracing_state"] = lambda it2, a, k: state
        frame = SObj(ClassVal("frame", builtin=True), {"f_code": SObj(ClassVal("code", builtin=True), {"co_filename": "user.py"}), "f_lineno": 7})
        e.models["guppylang_internals.tracing.util:get_calling_frame"] = lambda it2, a, k: frame
        e.models["guppylang_internals.ipython_inspect:normalize_ipython_dummy_files"] = lambda it2, a, k: a[0]
        e.ext_models["pathlib.Path"] = Builtin("Path", lambda s: SObj(ClassVal("Path", builtin=True), {"name": s}))
        ty = SObj(TY, {"copyable": SBool(cop), "droppable": SBool(dro), "linear": SBool(z3.And(z3.Not(cop), z3.Not(dro)))})
        GO = it.lookup_global(e.module(OBJ), "GuppyObject")
        return state, ty, GO
    # ---- update_packed_value: a value handed back by a borrowing call is re-armed (REG preserved)
    e.func_info(UNP, "update_packed_value")
    for shape in ("object", "tuple2", "struct1"):
        def t_upd(it, shape=shape):
            state, ty, GO = setup(it)
            OU = it.lookup_global(e.module(OBJ), "ObjectUse")
            upv = it.lookup_global(e.module(UNP), "update_packed_value")
            v = it.call(GO, [ty, "WIRE"], {})
            if it.ctx.branch(used0):
                it.call_method(v, "_use_wire", [None])      # lent to the call
            outs = ["OUT0", "OUT1"]
            builder = SObj(ClassVal("Builder", builtin=True), {})
            e.ext_models["hugr.ops.UnpackTuple"] = lambda it2, a, k: "UnpackTuple"
            builder.fields["add_op"] = Builtin("add_op", lambda op, *w: SObj(ClassVal("Node", builtin=True), {"outputs": Builtin("outputs", lambda: iter(outs))}))
            if shape == "object":
                new = it.call(GO, [ty, "WIRE2"], {})
                packed, want_wire = v, "WIRE2"
            elif shape == "tuple2":
                TT = it.lookup_global(e.module("guppylang_internals.tys.ty"), "TupleType")
                other = it.call(GO, [ty, "WIRE_B"], {})
                tty = it.call(TT, [[ty, ty]], {})
                new = it.call(GO, [tty, "WIRE_T"], {})
                packed, want_wire = (v, other), "OUT0"
            else:
                GS = it.lookup_global(e.module(OBJ), "GuppyStructObject")
                fld = SObj(ClassVal("StructField", builtin=True), {"name": "q", "ty": ty})
                sty = SObj(ClassVal("StructTy", builtin=True), {"fields": [fld], "copyable": SBool(cop), "droppable": SBool(dro), "linear": SBool(z3.And(z3.Not(cop), z3.Not(dro)))})
                new = it.call(GO, [sty, "WIRE_S"], {})
                del outs[1:]
                packed, want_wire = SObj(GS, {"_ty": sty, "_field_values": {"q": v}, "_frozen": False}), "OUT0"
            used_before = v.fields["_used"]
            reg_before = any(x is v for x in state.fields["unused_undroppable_objs"].values())
            r = it.call(upv, [packed, new, builder], {})
            slot = packed.fields["_field_values"]["q"] if shape == "struct1" else v
            return r, v, new, state, want_wire, slot, used_before, reg_before, GO
        paths = e.explore(t_upd)

        def post_upd(p, shape=shape):
            if p.kind != "return":
                return z3.BoolVal(False)
            r, v, new, state, want_wire, slot, used_before, reg_before, GO = p.value
            reg = state.fields["unused_undroppable_objs"]
            v_reg = any(x is v for x in reg.values())
            new_reg = any(x is new for x in reg.values())
            common = r is True and new.fields["_used"] is not None and not new_reg
            in_place = z3.And(z3.BoolVal(slot is v and v.fields["_wire"] == want_wire and v.fields["_used"] is None), z3.BoolVal(v_reg) == z3.Not(dro))
            if shape != "struct1":
                return z3.And(z3.BoolVal(common), in_place)
            # a COPYABLE component of a struct (or list) is a value: the slot gets a fresh object carrying the wire
            # handed back, and the old object — which an alias or an earlier read may still hold — is left exactly as it was
            slot_reg = any(x is slot for x in reg.values())
            replaced = z3.And(z3.BoolVal(slot is not v and isinstance(slot, SObj) and slot.cls is GO and slot.fields["_wire"] == want_wire and slot.fields["_used"] is None
                                         and v.fields["_wire"] == "WIRE" and v.fields["_used"] is used_before and v_reg == reg_before), z3.BoolVal(slot_reg) == z3.Not(dro))
            return z3.And(z3.BoolVal(common), z3.If(cop, replaced, in_place))
        chk.prove_paths(f"{tag}update_packed_value[{shape}]:handed-back-value-gets-the-new-wire/\\is-unused-again/\\registered-as-unused<=>not-droppable/\\the-carrier-is-consumed", paths, post_upd,
                        func=f"{UNP}:update_packed_value", replay=lambda m: {"script": REPLAY_LEAK, "input": {"program": PROG_LEAK_AFTER_BORROW}})

    # ---- components that are plain Python values (a constant in a list, a field assigned a Python
    # number): the callee may have changed them, so the slot must afterwards hold the COMPONENT handed
    # back (its type, its wire, unused) — not the carrier, and not the stale constant
    # (C21 only: "calls to Guppy functions behave identically"; C22's statement does not speak about it)
    for shape in ("list[obj,const]", "list[const,obj]", "list[const,const]", "struct{q:obj,n:const}", "struct{n:const,q:obj}") if consts else ():
        def t_c(it, shape=shape):
            state, ty, GO = setup(it)
            upv = it.lookup_global(e.module(UNP), "update_packed_value")
            v = it.call(GO, [ty, "WIRE"], {})
            if it.ctx.branch(used0):
                it.call_method(v, "_use_wire", [None])
            cty = SObj(TY, {"copyable": SBool(z3.BoolVal(True)), "droppable": SBool(z3.BoolVal(True)), "linear": SBool(z3.BoolVal(False)), "name": "int"})
            outs = ["OUT0", "OUT1"]
            builder = SObj(ClassVal("Builder", builtin=True), {})
            e.ext_models["hugr.ops.UnpackTuple"] = lambda it2, a, k: "UnpackTuple"
            builder.fields["add_op"] = Builtin("add_op", lambda op, *w: SObj(ClassVal("Node", builtin=True), {"outputs": Builtin("outputs", lambda: iter(outs))}))
            e.models["guppylang_internals.std._internal.compiler.array:unpack_array"] = lambda it2, a, k: list(outs)
            e.models["guppylang_internals.tys.builtin:is_array_type"] = lambda it2, a, k: True
            kinds = shape[shape.index("[") + 1:-1].split(",") if shape.startswith("list") else [x.split(":")[1] for x in shape[shape.index("{") + 1:-1].split(",")]
            tys = [ty if k_ == "obj" else cty for k_ in kinds]
            vals = [v if k_ == "obj" else 3 for k_ in kinds]
            if shape.startswith("list"):
                # one element type per array; the obligation only needs the type handed to the slot
                e.models["guppylang_internals.tys.builtin:get_element_type"] = lambda it2, a, k: a[0].fields["elem"]
                aty = SObj(TY, {"copyable": SBool(cop), "droppable": SBool(dro), "linear": SBool(z3.And(z3.Not(cop), z3.Not(dro))), "elem": ty if "obj" in kinds else cty})
                tys = [aty.fields["elem"]] * len(kinds)
                new = it.call(GO, [aty, "WIRE_A"], {})
                packed = list(vals)
                slots = lambda: list(packed)   # noqa: E731
            else:
                GS = it.lookup_global(e.module(OBJ), "GuppyStructObject")
                names = [x.split(":")[0] for x in shape[shape.index("{") + 1:-1].split(",")]
                flds = [SObj(ClassVal("StructField", builtin=True), {"name": n_, "ty": t_}) for n_, t_ in zip(names, tys)]
                sty = SObj(ClassVal("StructTy", builtin=True), {"fields": flds, "copyable": SBool(cop), "droppable": SBool(dro), "linear": SBool(z3.And(z3.Not(cop), z3.Not(dro)))})
                new = it.call(GO, [sty, "WIRE_S"], {})
                fv = dict(zip(names, vals))
                packed = SObj(GS, {"_ty": sty, "_field_values": fv, "_frozen": False})
                slots = lambda: [fv[n_] for n_ in names]   # noqa: E731
            r = it.call(upv, [packed, new, builder], {})
            return r, v, new, slots(), kinds, tys, GO
        paths = e.explore(t_c)

        def post_c(p):
            if p.kind != "return":
                return z3.BoolVal(False)
            r, v, new, slots, kinds, tys, GO = p.value
            conj = [z3.BoolVal(r is True and new.fields["_used"] is not None)]
            for i, (k_, sl, t_) in enumerate(zip(kinds, slots, tys)):
                fresh = isinstance(sl, SObj) and sl.cls is GO and sl is not new and sl is not v and sl.fields["_ty"] is t_ and sl.fields["_wire"] == f"OUT{i}" and sl.fields["_used"] is None
                if k_ == "obj":
                    # non-copyable: re-armed in place (other references stay valid); copyable: a fresh object in the slot, the old one untouched
                    conj.append(z3.If(cop, z3.BoolVal(bool(fresh) and v.fields["_wire"] == "WIRE"), z3.BoolVal(sl is v and v.fields["_wire"] == f"OUT{i}" and v.fields["_used"] is None)))
                else:
                    conj.append(z3.BoolVal(bool(fresh)))
            return z3.And(*conj)
        chk.prove_paths(f"{tag}update_packed_value[{shape}]:a-plain-python-component-is-replaced-by-the-component-handed-back(its-type,its-wire,unused)/\\objects-get-their-own-wire", paths, post_c,
                        func=f"{UNP}:update_packed_value", replay=lambda m: {"script": REPLAY_UPV_CONST, "input": {}})
    # a TUPLE with a plain Python component inside a list: tuples are immutable, so the component cannot be
    # replaced in place — the whole tuple is replaced by the element handed back (fresh, unused, carrying the
    # element's wire exactly once), and nothing of the handed-back element is consumed on the way
    for shape in ("list[(obj,const)]", "list[(const,obj)]", "list[((obj,const),obj)]") if consts else ():
        def t_t(it, shape=shape):
            state, ty, GO = setup(it)
            upv = it.lookup_global(e.module(UNP), "update_packed_value")
            TT = it.lookup_global(e.module(UNP), "TupleType")
            v = it.call(GO, [ty, "WIRE"], {})
            it.call_method(v, "_use_wire", [None])       # it went into the array that was lent
            cty = SObj(TY, {"copyable": SBool(z3.BoolVal(True)), "droppable": SBool(z3.BoolVal(True)), "linear": SBool(z3.BoolVal(False)), "name": "int"})
            mk_tt = lambda els: SObj(TT, {"element_types": els, "copyable": SBool(cop), "droppable": SBool(dro), "linear": SBool(z3.And(z3.Not(cop), z3.Not(dro)))})  # noqa: E731
            if shape == "list[(obj,const)]":
                tup, tty = (v, 3), mk_tt([ty, cty])
            elif shape == "list[(const,obj)]":
                tup, tty = (3, v), mk_tt([cty, ty])
            else:
                v2 = it.call(GO, [ty, "WIRE2"], {})
                it.call_method(v2, "_use_wire", [None])
                tup, tty = ((v, 3), v2), mk_tt([mk_tt([ty, cty]), ty])
            ops_log = []
            builder = SObj(ClassVal("Builder", builtin=True), {})
            e.ext_models["hugr.ops.UnpackTuple"] = lambda it2, a, k: "UnpackTuple"
            builder.fields["add_op"] = Builtin("add_op", lambda op, *w: (ops_log.append((op, w)), SObj(ClassVal("Node", builtin=True), {"outputs": Builtin("outputs", lambda: iter(["T0", "T1"]))}))[1])
            e.models["guppylang_internals.std._internal.compiler.array:unpack_array"] = lambda it2, a, k: ["OUT0"]
            e.models["guppylang_internals.tys.builtin:is_array_type"] = lambda it2, a, k: True
            e.models["guppylang_internals.tys.builtin:get_element_type"] = lambda it2, a, k: a[0].fields["elem"]
            aty = SObj(TY, {"copyable": SBool(cop), "droppable": SBool(dro), "linear": SBool(z3.And(z3.Not(cop), z3.Not(dro))), "elem": tty})
            new = it.call(GO, [aty, "WIRE_A"], {})
            packed = [tup]
            r = it.call(upv, [packed, new, builder], {})
            return r, v, new, packed, tup, tty, GO, list(ops_log)
        paths = e.explore(t_t)

        def post_t(p):
            if p.kind != "return":
                return z3.BoolVal(False)
            r, v, new, packed, tup, tty, GO, ops_log = p.value
            sl = packed[0]
            ok = r is True and new.fields["_used"] is not None and not ops_log
            ok = ok and isinstance(sl, SObj) and sl.cls is GO and sl is not new and sl.fields["_ty"] is tty and sl.fields["_wire"] == "OUT0" and sl.fields["_used"] is None
            ok = ok and v.fields["_wire"] == "WIRE" and v.fields["_used"] is not None        # the loose object stays consumed: ownership is in the list
            return z3.BoolVal(bool(ok))
        chk.prove_paths(f"{tag}update_packed_value[{shape}]:a-tuple-with-a-plain-python-component-is-replaced-as-a-whole-by-the-element-handed-back(unused,wire-not-consumed)", paths, post_t,
                        func=f"{UNP}:update_packed_value", replay=lambda m: {"script": REPLAY_UPV_TUPLE, "input": {}})
    for k_ in ("guppylang_internals.std._internal.compiler.array:unpack_array", "guppylang_internals.tys.builtin:is_array_type", "guppylang_internals.tys.builtin:get_element_type"):
        e.models.pop(k_, None)
    chk.use_engine(e)


REPLAY_UPV_TUPLE = r'''
import tempfile, importlib.util, os, sys, shutil
from guppylang_internals.error import GuppyError, GuppyComptimeError
src = """from guppylang import guppy
from guppylang.std.builtins import array, owned
from guppylang.std.quantum import qubit, discard
@guppy
def bar(ps: array[tuple[qubit, int], 1]) -> None:
    pass
@guppy
def eat(ps: array[tuple[qubit, int], 1] @owned) -> None:
    for q, n in ps:
        discard(q)
@guppy.comptime
def c() -> None:
    q = qubit(); ps = [(q, 1)]; bar(ps); eat(ps)
@guppy
def r() -> None:
    q = qubit(); ps = array((q, 1)); bar(ps); eat(ps)
"""
d = tempfile.mkdtemp(dir=os.environ.get("TMPDIR", "/var/tmp")); fn = os.path.join(d, "replay_c22t.py"); open(fn, "w").write(src)
spec = importlib.util.spec_from_file_location("replay_c22t", fn); m = importlib.util.module_from_spec(spec); sys.modules["replay_c22t"] = m
spec.loader.exec_module(m)
res = {}
for name in ("r", "c"):
    try:
        getattr(m, name).compile_function(); res[name] = "compiled"
    except (GuppyError, GuppyComptimeError) as ex:
        res[name] = "rejected: " + str(ex)[:100]
shutil.rmtree(d, ignore_errors=True)
print(json.dumps({"violates": res["r"] != res["c"], "observed": {"regular": res["r"], "comptime": res["c"]}, "required": "the comptime body is accepted like the regular one"}))
'''


REPLAY_UPV_CONST = r'''
import guppy_plainbool
import tempfile, importlib.util, os, sys, shutil
src = """from guppylang import guppy
from guppylang.std.builtins import array, result
@guppy.struct
class S:
    n: int
    xs: array[int, 2]
@guppy
def bump(xs: array[int, 3], k: int) -> None:
    xs[2] = xs[2] + k
    xs[0] = xs[0] + 2 * k
@guppy
def bump_s(s: S, k: int) -> None:
    s.xs[0] += k
@guppy
def reg(a: int) -> tuple[int, int, int, int, int]:
    xs = array(a, a + 1, 3)
    bump(xs, 10)
    s = S(7, array(a, a))
    bump_s(s, 10)
    return xs[0], xs[1], xs[2], s.n, s.xs[0]
@guppy.comptime
def cmp(a: int) -> tuple[int, int, int, int, int]:
    xs = [a, a + 1, 3]
    bump(xs, 10)
    s = S(5, [a, a])
    s.n = 7
    bump_s(s, 10)
    return xs[0], xs[1], xs[2], s.n, s.xs[0]
@guppy
def main() -> None:
    a, b, c, d, f = reg(1)
    result("a", a); result("b", b); result("c", c); result("d", d); result("f", f)
    result("sep", 0)
    a, b, c, d, f = cmp(1)
    result("a", a); result("b", b); result("c", c); result("d", d); result("f", f)
"""
d = tempfile.mkdtemp(dir=os.environ.get("TMPDIR", "/var/tmp")); fn = os.path.join(d, "replay_upvc.py"); open(fn, "w").write(src)
spec = importlib.util.spec_from_file_location("replay_upvc", fn); m = importlib.util.module_from_spec(spec); sys.modules["replay_upvc"] = m
try:
    spec.loader.exec_module(m)
    from guppylang_internals.error import GuppyError
    try:
        got = [list(x) for x in list(m.main.emulator(n_qubits=1).run().results)[0].entries]
        k = got.index(["sep", 0])
        out = {"violates": got[:k] != got[k + 1:], "regular": got[:k], "comptime": got[k + 1:]}
    except GuppyError as ex:
        out = {"violates": True, "comptime": "rejected: " + str(getattr(ex.error, "msg", ex.error))[:200], "regular": "accepted"}
except Exception as ex:
    out = {"violates": False, "error": repr(ex)[:300]}
shutil.rmtree(d, ignore_errors=True)
print(json.dumps(out))
'''


REPLAY_LEAK = r'''
import tempfile, importlib.util, os, sys, shutil
from guppylang_internals.error import GuppyError, GuppyComptimeError
I = INPUT
src = f"""from hugr import tys as ht
from guppylang.decorator import guppy
from guppylang_internals.decorator import custom_type
@custom_type(ht.Bool, copyable={I['copyable']}, droppable={I['droppable']})
class R: ...
@guppy.declare
def make_r() -> R: ...
@guppy.comptime
def created_and_never_used() -> None:
    r = make_r()
@guppy.comptime
def received_and_never_used(r: R) -> None:
    pass
"""
d = tempfile.mkdtemp(dir=os.environ.get("TMPDIR", "/var/tmp")); fn = os.path.join(d, "replay_c22l.py"); open(fn, "w").write(src)
spec = importlib.util.spec_from_file_location("replay_c22l", fn); m = importlib.util.module_from_spec(spec); sys.modules["replay_c22l"] = m
spec.loader.exec_module(m)
res = {}
for name in ("created_and_never_used", "received_and_never_used"):
    try:
        getattr(m, name).compile_function(); res[name] = "compiled"
    except (GuppyError, GuppyComptimeError) as ex:
        res[name] = "rejected:" + type(getattr(ex, "error", ex)).__name__
shutil.rmtree(d, ignore_errors=True)
want = "compiled" if I["droppable"] else "rejected"
print(json.dumps({"violates": any(not v.startswith(want) for v in res.values()), "observed": res,
                  "required": f"a value of a type with copyable={I['copyable']}, droppable={I['droppable']} that is never used: " + ("fine" if I["droppable"] else "leak error")}))
'''


REPLAY_MUTATORS = r'''
import tempfile, importlib.util, os, sys, shutil
from guppylang_internals.error import GuppyError, GuppyComptimeError
MUTS = ["xs.append(1)", "xs.clear()", "xs.extend([1])", "xs.insert(0, 1)", "xs.pop()", "xs.remove(xs[0])", "xs.reverse()", "xs.sort()", "del xs[0]", "xs += [1]", "xs *= 2", "xs[0] = 5",
        "xs[0:1] = [7]", "xs.__init__([xs[1], xs[0]])", "xs.__setitem__(0, 5)", "xs.__delitem__(0)", "xs.__iadd__([1])", "xs.__imul__(2)"]
BASE = ["list.__init__(xs, [1, 2])", "list.append(xs, 1)", "list.__setitem__(xs, 0, 5)", "list.clear(xs)"]
if INPUT.get("base"): MUTS = BASE
src = "from guppylang import guppy\nfrom guppylang.std.builtins import array, owned\n" + "".join(
    f"@guppy.comptime\ndef m{k}(xs: array[int, 2] @owned) -> None:\n    {mu}\n" for k, mu in enumerate(MUTS)) + \
    "@guppy.comptime\ndef fine(xs: array[int, 2] @owned) -> int:\n    ys = xs.copy()\n    ys[0] = 5\n    ys.append(3)\n    return xs[0] + ys[0] + len(xs)\n"
d = tempfile.mkdtemp(dir=os.environ.get("TMPDIR", "/var/tmp")); fn = os.path.join(d, "replay_c22m.py"); open(fn, "w").write(src)
spec = importlib.util.spec_from_file_location("replay_c22m", fn); m = importlib.util.module_from_spec(spec); sys.modules["replay_c22m"] = m
spec.loader.exec_module(m)
bad = []
for k, mu in enumerate(MUTS):
    try:
        getattr(m, f"m{k}").compile_function(); bad.append(mu + " -> compiled")
    except (GuppyError, GuppyComptimeError):
        pass
    except Exception as ex:
        bad.append(mu + " -> " + type(ex).__name__)
try:
    m.fine.compile_function()
except Exception as ex:
    bad.append("a mutable copy() of the argument is rejected: " + type(ex).__name__)
shutil.rmtree(d, ignore_errors=True)
print(json.dumps({"violates": bool(bad), "evaluations": len(MUTS) + 1, "witness": bad[:3] or None, "detail": bad and "; ".join(bad[:3])}))
'''


def run(chk):
    e = mk_engine(chk)
    for q in ("GuppyObject.__init__", "GuppyObject._use_wire", "GuppyStructObject.__init__", "GuppyStructObject.__setattr__"):
        e.func_info(OBJ, q)
    cop, dro, used0 = z3.Bools("copyable droppable initially_used")
    TY = ClassVal("Ty", builtin=True)

    def setup(it):
        state = it.call(it.lookup_global(e.module("guppylang_internals.tracing.state"), "TracingState"), [SObj(ClassVal("CompilerContext", builtin=True), {"checked_globals": None}), None, "NODE"], {})   # the real dataclass: fields added later get their defaults
        e.models["guppylang_internals.tracing.state:get_tracing_state"] = lambda it2, a, k: state
        frame = SObj(ClassVal("frame", builtin=True), {"f_code": SObj(ClassVal("code", builtin=True), {"co_filename": "user.py"}), "f_lineno": 7})
        e.models["guppylang_internals.tracing.util:get_calling_frame"] = lambda it2, a, k: frame
        e.models["guppylang_internals.ipython_inspect:normalize_ipython_dummy_files"] = lambda it2, a, k: a[0]
        e.ext_models["pathlib.Path"] = Builtin("Path", lambda s: SObj(ClassVal("Path", builtin=True), {"name": s}))
        ty = SObj(TY, {"copyable": SBool(cop), "droppable": SBool(dro), "linear": SBool(z3.And(z3.Not(cop), z3.Not(dro)))})
        GO = it.lookup_global(e.module(OBJ), "GuppyObject")
        return state, ty, GO

    # ---- __init__: registered iff not droppable and not already used
    def t_init(it):
        state, ty, GO = setup(it)
        OU = it.lookup_global(e.module(OBJ), "ObjectUse")
        used = None
        if it.ctx.branch(used0):
            used = SObj(OU, {"module": "m.py", "lineno": 1, "called_func": None})
        o = it.call(GO, [ty, "WIRE", used], {})
        return o, state
    paths = e.explore(t_init)

    def post_init(p):
        if p.kind != "return":
            return z3.BoolVal(False)
        o, state = p.value
        reg = state.fields["unused_undroppable_objs"]
        registered = any(v is o for v in reg.values())
        want = z3.And(z3.Not(dro), z3.Not(used0))
        return z3.And(z3.BoolVal(registered) == want, z3.BoolVal(o.fields["_wire"] == "WIRE" and o.fields["_ty"] is not None))
    chk.prove_paths("GuppyObject.__init__:registered-as-unused<=>not-droppable/\\not-used", paths, post_init, func=f"{OBJ}:GuppyObject.__init__",
                    replay=lambda m_: {"script": REPLAY_LEAK, "input": {"copyable": bool(z3.is_true(m_.eval(cop, model_completion=True))), "droppable": bool(z3.is_true(m_.eval(dro, model_completion=True)))}})

    # ---- _use_wire, first and second use
    def t_use(it):
        state, ty, GO = setup(it)
        o = it.call(GO, [ty, "WIRE"], {})
        w1 = it.call_method(o, "_use_wire", [None])
        reg_after_first = dict(state.fields["unused_undroppable_objs"])
        it.ctx.ghost.update(o=o, w1=w1, reg1=reg_after_first, state=state)
        w2 = it.call_method(o, "_use_wire", [None])
        return w1, w2
    paths = e.explore(t_use)

    def post_use(p):
        g = p.ctx.ghost
        if "o" not in g:
            return z3.BoolVal(False)   # the FIRST use of a fresh value must always succeed
        first_ok = g["w1"] == "WIRE" and g["o"].fields["_used"] is not None and not any(v is g["o"] for v in g["reg1"].values())
        if p.kind == "raise":
            return z3.And(z3.Not(cop), z3.BoolVal(first_ok and p.raised(e, "GuppyComptimeError")))
        return z3.And(cop, z3.BoolVal(first_ok and p.value == ("WIRE", "WIRE")))
    chk.prove_paths("GuppyObject._use_wire:first-use-ok/\\marks-used/\\deregisters;second-use-raises<=>not-copyable", paths, post_use,
                    func=f"{OBJ}:GuppyObject._use_wire", replay=lambda m: {"script": REPLAY, "input": {"program": PROG_REUSE}})

    upv_obligations(chk)

    # ---- leak check at the end of trace_function + frozen flag for owned inputs (structural on the real AST)
    fm = e.module(FN)
    tf = fm.find("trace_function")
    e.func_info(FN, "trace_function")
    leak = [st for st in tf.body if isinstance(st, ast.If) and ast.unparse(st.test) == "state.unused_undroppable_objs"]
    ok = bool(leak) and any(isinstance(s, ast.Raise) and "GuppyError" in ast.unparse(s) for s in leak[0].body)
    after = [st for st in tf.body if isinstance(st, ast.Expr) and "set_outputs" in ast.unparse(st)]
    chk.record("trace_function:raises-GuppyError-when-an-undroppable-object-is-still-unused(before-set_outputs)",
               ok and bool(after) and tf.body.index(leak[0]) < tf.body.index(after[0]), f"leak check at line {leak[0].lineno if leak else None}",
               func=f"{FN}:trace_function", backend="structural(dominance)")
    frozen_kw = [k for n in ast.walk(tf) if isinstance(n, ast.Call) and ast.unparse(n.func) == "unpack_guppy_object" for k in n.keywords if k.arg == "frozen"]
    chk.record("trace_function:inputs-are-unpacked-frozen<=>not-borrowed", len(frozen_kw) == 1 and ast.unparse(frozen_kw[0].value) == "InputFlags.Inout not in inp.flags",
               ast.unparse(frozen_kw[0].value) if frozen_kw else "missing", func=f"{FN}:trace_function", backend="structural")

    # ---- frozenlist: every mutator of list is overridden and raises on every path
    flm = e.module(FL)
    cls = flm.find("frozenlist")
    defined = {f.name: f for f in cls.body if isinstance(f, ast.FunctionDef)}
    import builtins as _b
    real_mutators = sorted(n for n in LIST_MUTATORS if hasattr(_b.list, n))
    chk.record("frozenlist:mutator-list-matches-CPython's-list", real_mutators == sorted(LIST_MUTATORS), str(real_mutators))
    for mname in LIST_MUTATORS:
        e.func_info(FL, f"frozenlist.{mname}") if mname in defined else None

        def t(it, mname=mname):
            F = it.lookup_global(flm, "frozenlist")
            f, _ = F.lookup(mname)
            if f is None:
                return "NOT-OVERRIDDEN"
            o = SObj(F, {})
            return it.call(f, [o, SObj(ClassVal("Arg"), {}), SObj(ClassVal("Arg"), {})][: len(f.node.args.args) + (2 if f.node.args.vararg else 0)], {})
        paths = e.explore(t)
        chk.prove_paths(f"frozenlist.{mname}:overridden/\\raises-GuppyComptimeError-on-every-path", paths,
                        lambda p: z3.BoolVal(p.kind == "raise" and p.raised(e, "GuppyComptimeError")), func=f"{FL}:frozenlist.{mname}")
    # BOUNDED, native: every way CPython offers to change a list in place, applied to an owned array argument of a
    # comptime function (the dunder calls written out explicitly as well) — each must be a Guppy error
    from pyvc.report import run_replay
    for base, label in ((False, "methods, operators, statements and explicit dunder calls incl. __init__"), (True, "unbound calls of the base class: list.append(xs, 1) etc.")):
        res = run_replay(REPLAY_MUTATORS, {"base": base}, chk.repo, timeout=900)
        if "evaluations" not in res:
            chk.undecided(f"bounded:owned-argument-mutators[{label}]", "oracle run failed: " + json.dumps(res)[:500])
            continue
        o = chk.bounded_result(f"bounded:every-in-place-mutation-of-an-owned-array-argument-is-rejected({label})", not res.get("violates"),
                               res["evaluations"], detail=res.get("detail") or f"{res['evaluations']} mutations rejected", witness=res.get("witness"), func=f"{FL}:frozenlist")
        if res.get("violates"):
            o.replay.update({"script": REPLAY_MUTATORS, "input": {"base": base}})
    cp = defined.get("copy")
    chk.record("frozenlist.copy:returns-a-fresh-plain-list", cp is not None and len(cp.body) == 1 and ast.unparse(cp.body[0]) == "return list(self)",
               ast.unparse(cp.body[0]) if cp else "missing", func=f"{FL}:frozenlist.copy", backend="structural")

    # ---- GuppyStructObject.__setattr__: raises <=> frozen and key is a field
    frozen = z3.Bool("frozen")
    for key in ("a_field", "no_such_field"):
        def t(it, key=key):
            setup(it)
            GS = it.lookup_global(e.module(OBJ), "GuppyStructObject")
            fld = SObj(ClassVal("StructField", builtin=True), {"name": "a_field"})
            sty = SObj(ClassVal("StructTy", builtin=True), {"fields": [fld]})
            o = SObj(GS, {"_ty": sty, "_field_values": {"a_field": "OLD"}, "_frozen": SBool(frozen)})
            sa, _ = GS.lookup("__setattr__")
            it.call(sa, [o, key, "NEW"], {})
            return o
        paths = e.explore(t)

        def post(p, key=key):
            if key == "no_such_field":
                return z3.BoolVal(p.kind == "raise" and p.raised(e, "AttributeError"))
            if p.kind == "raise":
                return z3.And(frozen, z3.BoolVal(p.raised(e, "GuppyComptimeError")))
            return z3.And(z3.Not(frozen), z3.BoolVal(p.value.fields["_field_values"] == {"a_field": "NEW"}))
        chk.prove_paths(f"GuppyStructObject.__setattr__[{key}]:mutation-rejected<=>frozen", paths, post, func=f"{OBJ}:GuppyStructObject.__setattr__")

    # ---- unpack_guppy_object: `frozen` reaches every nesting level (structural recursion contract)
    um = e.module(UNP)
    uf = um.find("unpack_guppy_object")
    e.func_info(UNP, "unpack_guppy_object")
    rec_calls = [n for n in ast.walk(uf) if isinstance(n, ast.Call) and ast.unparse(n.func) == "unpack_guppy_object"]
    chk.record("unpack_guppy_object:every-recursive-call-passes-frozen-unchanged", len(rec_calls) >= 3 and all(len(c.args) == 3 and ast.unparse(c.args[2]) == "frozen" for c in rec_calls),
               str([ast.unparse(c) for c in rec_calls]), func=f"{UNP}:unpack_guppy_object", backend="structural")
    src = ast.unparse(uf)
    chk.record("unpack_guppy_object:arrays-become-frozenlist-when-frozen", "return frozenlist(obj_list) if frozen else obj_list" in src, "", func=f"{UNP}:unpack_guppy_object", backend="structural")
    chk.record("unpack_guppy_object:structs-carry-the-frozen-flag", "GuppyStructObject(ty, field_values, frozen)" in src, "", func=f"{UNP}:unpack_guppy_object", backend="structural")
    chk.must_fail("twin:flags-are-free", [], cop)
    chk.expected_min_obligations = 30
    chk.assumptions += ["the type's copyable/droppable flags are symbolic attributes (their computation is C14); `linear` is their conjunction of negations as TypeBase.linear defines it",
                        "get_tracing_state / get_calling_frame / pathlib.Path are mocked",
                        "the 12 mutating methods of `list` are taken from the running CPython"]
    chk.not_covered += ["GuppyDefinition / TracingDefMixin calls (trace_call) marking arguments used via _use_wire(called_func)", "update_packed_value: carriers nested deeper than one level (the list case and plain Python components are obligations of C21)"]
    chk.use_engine(e)
