"""C29 — Diagnostic rendering is total and faithful.

Functions under contract (guppylang_internals/diagnostic.py, span.py):
  DiagnosticsRenderer.render_snippet / render_diagnostic / level_str, wrap,
  SourceMap.span_lines, Span.shift_left/__len__/is_multiline/__post_init__, Loc.shift_left.

render_snippet is executed symbolically on the real source with
  * the file as an UNBOUNDED run of source lines (pyvc.rope.SLines: line n has length len_(n)
    and lead_(n) leading blanks, both uninterpreted), line numbers, columns, the gutter width
    and the label length all symbolic integers;
  * output lines as ropes (pyvc.rope.Rope), compared segment-wise with the SPECIFICATION's ropes,
    which are built from the property statement (not from the code): the shown lines are the
    (at most `prefix_lines`) context lines, the first and the last line of the span, each with
    its true number right-aligned in the gutter and its true text minus ONE common number of
    whitespace-only columns; markers exactly under the spanned columns; label pieces in order.
wrap() is verified against the documented contract of textwrap.wrap (assumed): it must pass
break_long_words=False and break_on_hyphens=False (then pieces are split at whitespace only and
keep every word) and return at least one line for every text.
"""
import json
import z3

from pyvc import SObj, ClassVal, Builtin, SInt, SBool, Sym, PyRaise, lift, EnumVal
from pyvc.rope import Rope, SLines, LEN, LEAD, DIGITS, TLEN, rope_eq, digits_axioms
from .common import mk_engine, model_val
from .C29_oracle import ORACLE

TITLE = "render_snippet/render_diagnostic/wrap: total on in-source spans; true line numbers, text, marker columns and label words"
MOD = "guppylang_internals.diagnostic"
SPAN = "guppylang_internals.span"

REPLAY = ORACLE + r'''
I = INPUT
bad = check_render(I["lines"], I["diag"])
print(json.dumps({"violates": bad is not None or (I.get("expect_no_split") and bool(KNOWN_SPLITS)), "detail": bad or (KNOWN_SPLITS and "a word longer than the line width was split: " + repr(KNOWN_SPLITS[0][1])), "input": I if bad else None}))
'''

FINDER = ORACLE + r'''
import itertools
I = INPUT
templates = ["x = 1", "    yy = f(a)", " " * 14 + "deep()", " " * 17 + "deeper(1)", ""]
labels = [None, "lbl", "a well-known extraordinarily-long-hyphenated label that needs to be wrapped since it is long", "  ", "w" * 70, "two\nparagraphs"]
messages = [None, "A short message.", "non-copyable " * 9, " "]
bad = None; n = 0
def cols(line):
    lead = len(line) - len(line.lstrip())
    return sorted({0, lead // 2, lead, min(lead + 2, len(line)), len(line)})
for k in range(1, I["max_lines"] + 1):
    for src in itertools.product(templates, repeat=k):
        for sl in range(1, k + 1):
            for el in range(sl, k + 1):
                for sc in cols(src[sl - 1]):
                    for ec in cols(src[el - 1]):
                        if sl == el and ec < sc: continue
                        for li, lab in enumerate(labels):
                            if li >= I["labels"]: break
                            d = {"span": [sl, sc, el, ec], "label": lab, "message": messages[(n // 7) % len(messages)]}
                            if I["children"] and n % 5 == 0:
                                d["children"] = [{"span": [el, 0, el, min(1, len(src[el - 1]))] if n % 2 else None, "label": labels[(n // 3) % len(labels)], "message": messages[(n // 11) % len(messages)]},
                                                 {"span": [1, 0, k, len(src[k - 1])], "label": "all", "message": None}]
                            n += 1
                            r = check_render(list(src), d)
                            if r is not None and bad is None:
                                bad = {"lines": list(src), "diag": d, "detail": r}
                    if bad: break
                if bad: break
            if bad: break
        if bad: break
    if bad: break
if bad is None:
    for text in ["", " ", "a-b " * 30, "q" * 200, "x\ny", "tab\tsep " * 20]:
        n += 1
        r = check_render(["x = 1"], {"span": None, "message": text or None, "title": "T"})
        if r is not None: bad = {"lines": ["x = 1"], "diag": {"span": None, "message": text}, "detail": r}; break
ks = None
if KNOWN_SPLITS:
    w_, W_ = KNOWN_SPLITS[0]
    ks = {"occurrences": len(KNOWN_SPLITS), "word_length": len(w_), "line_width": W_, "detail": f"a word of {len(w_)} characters is rendered as pieces of {W_} characters ({len(KNOWN_SPLITS)} occurrences in the family)",
          "lines": ["x = 1"], "diag": {"span": [1, 0, 1, 5], "label": "w" * 70, "message": None}}
print(json.dumps({"violates": bad is not None, "evaluations": n, "witness": bad, "detail": bad and bad["detail"], "known_split": ks}))
'''


# ------------------------------------------------------------------------------ helpers
def implied(hy, c, timeout=300):
    s = z3.Solver()
    s.set(timeout=timeout)
    s.add(*hy)
    s.add(z3.Not(c))
    return s.check() == z3.unsat


def spec_cases(pc, build):
    """Run the specification builder under `pc`; conditions the path condition does not decide
    fork the specification.  Returns [(extra_hypotheses, expected)]."""
    out, stack = [], [[]]
    while stack:
        prefix = stack.pop()
        taken, extra = [], []

        def dec(cond):
            i = len(taken)
            if i < len(prefix):
                b = prefix[i]
            elif implied(pc + extra, cond):
                b = True
            elif implied(pc + extra, z3.Not(cond)):
                b = False
            else:
                b = True
                stack.append(taken[:i] + [False])
            taken.append(b)
            extra.append(cond if b else z3.Not(cond))
            return b
        exp = build(dec)
        out.append((list(extra), exp))
        if len(out) > 64:
            break
    return out


def seg_len_sum(segs):
    from pyvc.rope import _seg_len
    return z3.Sum([z3.IntVal(0)] + [_seg_len(s) for s in segs])


def snippet_spec(dec, D, sl, sc, el, ec, prefix, rm, hc, pieces):
    """Expected output of render_snippet, from the property statement."""
    wf = []   # side conditions the layout needs (non-negative paddings)

    def rep(ch, n):
        n = z3.simplify(n)
        if z3.is_int_value(n):
            if n.as_long() < 0:
                wf.append(z3.BoolVal(False))
            return [("lit", ch * n.as_long())] if n.as_long() > 0 else []
        wf.append(n >= 0)
        return [("rep", ch, n)]

    def bar(num, content):
        if num is None:
            return Rope(rep(" ", D) + [("lit", " | ")] + content)
        return Rope(rep(" ", D - DIGITS(num)) + [("dec", num), ("lit", " | ")] + content)

    def line(n):
        return [("sub", z3.simplify(n), rm, LEN(z3.simplify(n)))]
    out = [bar(None, [])]
    p = z3.If(prefix <= sl - 1, prefix, sl - 1)
    k = 0
    while not dec(p == k):
        k += 1
        if k > 8:
            raise AssertionError("prefix")
    shown = [sl - k + j for j in range(k)] + [sl]
    for n in shown:
        out.append(bar(n, line(n)))
    if dec(sl == el):
        hl = rep(" ", sc - rm) + rep(hc, ec - sc)
    else:
        out.append(bar(None, rep(" ", sc - rm) + rep(hc, LEN(sl) - sc)))
        if dec(el - sl >= 2):
            out.append(bar(None, [("lit", "...")]))
        out.append(bar(el, line(el)))
        shown.append(el)
        hl = rep(hc, ec - rm)
    if pieces:
        out.append(bar(None, hl + [("lit", " ")] + pieces[0]))
        for pc_ in pieces[1:]:
            out.append(bar(None, rep(" ", seg_len_sum(hl) + 1) + pc_))
    else:
        out.append(bar(None, hl))
    # the removed columns are whitespace common to every shown line, and lie left of the span
    for n in shown:
        wf += [rm <= LEAD(z3.simplify(n))]
    wf += [rm >= 0, rm <= sc, rm <= ec]
    return out, wf


def match(buf, expected):
    if len(buf) != len(expected):
        return z3.BoolVal(False)
    return z3.And(*[rope_eq(Rope.of(a), Rope.of(b)) for a, b in zip(buf, expected)]) if buf else z3.BoolVal(True)


def observed_trim(buf, k):
    """Number of removed columns, read off the first span line of the output (buffer index 1+k)."""
    for cand in buf[1:]:
        r = Rope.of(cand)
        if r.segs and r.segs[-1][0] == "sub":
            return r.segs[-1][2]
    return None


def lines_from_model(m, N):
    out = []
    for n in range(1, N + 1):
        ln = max(0, min(model_val(m, LEN(z3.IntVal(n))), 150))
        ld = max(0, min(model_val(m, LEAD(z3.IntVal(n))), ln))
        out.append(" " * ld + "x" * (ln - ld))
    return out


def run(chk):
    chk.finders = {"": lambda: {"script": FINDER, "input": {"max_lines": 2, "labels": 4, "children": True}, "timeout": 900}}
    chk.refuted_finders = True
    for is_primary in (True, False):
        for has_label in (False, True):
            chk.section(f"snippet[{'primary' if is_primary else 'secondary'},{'label' if has_label else 'nolabel'}]",
                        lambda a=is_primary, b=has_label: snippet_section(chk, a, b))
    chk.section("render_diagnostic", lambda: diagnostic_section(chk))
    chk.section("wrap", lambda: wrap_section(chk))
    chk.section("sourcemap", lambda: sourcemap_section(chk))
    chk.section("bounded", lambda: bounded_section(chk))
    chk.expected_min_obligations = 40
    chk.assumptions += [
        "textwrap.wrap (CPython stdlib) honours its documented contract: with break_on_hyphens=False it breaks lines only at whitespace, except that a word longer than the width is cut into width-sized pieces unless break_long_words=False, and every word of the paragraph appears in exactly one returned line, in order; it returns [] for a paragraph without words",
        "a source line is abstracted to (length, number of leading whitespace characters); str.lstrip() removes exactly the leading whitespace; characters are one column wide (no tabs/wide characters in the gutter arithmetic)",
        "digits(n) (length of str(n) for n >= 0) is >= 1 and monotone — the only facts about decimal numerals the gutter alignment needs",
        "rope equality is checked segment-wise (sufficient for string equality)",
        "render_snippet: label wrapped into 1..3 lines (the loop `for lbl in label_rest` is unrolled); render_diagnostic: 0..2 sub-diagnostics; wrap: 0..3 paragraphs of 0..3 lines — list lengths are bounded there, contents are not",
    ]
    chk.not_covered += ["MietteRenderer (optional dependency)", "Diagnostic.rendered_* string formatting (string.Formatter)", "tab characters / East-Asian wide characters in source lines"]


# ------------------------------------------------------------------------------ render_snippet
def snippet_section(chk, is_primary, has_label):
    e = mk_engine(chk)
    e.rope_mode = True
    e.let_bind = True
    e.max_unroll = 4
    for q in ("DiagnosticsRenderer.render_snippet", "DiagnosticsRenderer.__init__"):
        e.func_info(MOD, q)
    for q in ("SourceMap.span_lines", "Span.shift_left", "Span.__len__", "Span.is_multiline", "Span.__post_init__", "Loc.shift_left"):
        e.func_info(SPAN, q)
    e.models[f"{SPAN}:normalize_ipython_dummy_files"] = lambda it, a, k: a[0]
    sl, sc, el, ec, N, mx, pf, nw = z3.Ints("sl sc el ec N max_lineno prefix n_label_lines")
    hc = "^" if is_primary else "-"

    def wrap_model(it, a, k):
        text, width = a[0], a[1]
        init, sub = k.get("initial_indent", ""), k.get("subsequent_indent", "")
        it.ctx.ghost["wrap_args"] = (text, width)
        n = 1
        while not it.ctx.branch(nw == n):
            n += 1
            if n > 3:
                raise PyRaise(it.make_exc("AssertionError", "unreachable"))
        it.ctx.ghost["pieces"] = n
        out = []
        for i in range(n):
            piece = Rope([("txt", "label", i)])
            out.append(Rope.of(init if i == 0 else sub).binop(it, "+", piece, False))
        return out
    e.models[f"{MOD}:wrap"] = wrap_model

    def t(it):
        sm = e.module(SPAN)
        Loc, Span, SourceMap = (it.lookup_global(sm, n) for n in ("Loc", "Span", "SourceMap"))
        R = it.lookup_global(e.module(MOD), "DiagnosticsRenderer")
        # precondition: the span lies within the registered source
        it.ctx.assume(z3.And(1 <= sl, sl <= el, el <= N, 0 <= sc, sc <= LEN(sl), 0 <= ec, ec <= LEN(el),
                             z3.Implies(sl == el, sc <= ec), el <= mx, 0 <= pf, pf <= 2, 1 <= nw, nw <= 3))
        for ax in digits_axioms(mx):
            it.ctx.assume(ax)
        it.ctx.assume(TLEN(z3.StringVal("label"), z3.IntVal(-1)) >= 0)
        for i in range(3):
            it.ctx.assume(TLEN(z3.StringVal("label"), z3.IntVal(i)) >= 0)
        src = it.call(SourceMap, [], {})
        src.fields["sources"] = {"f": SLines(0, N)}
        span = it.call(Span, [it.call(Loc, ["f", SInt(sl), SInt(sc)], {}), it.call(Loc, ["f", SInt(el), SInt(ec)], {})], {})
        r = it.call(R, [src], {})
        label = Rope([("txt", "label", -1)]) if has_label else None
        it.ctx.ghost["r"] = r
        it.call_method(r, "render_snippet", [span, label, SInt(mx), is_primary], {"prefix_lines": SInt(pf)})
        return r.fields["buffer"]
    paths = e.explore(t, max_paths=3000)

    def post(p):
        if p.kind != "return":
            return z3.BoolVal(False)          # total: no exception for an in-source span
        buf = p.value
        rm = observed_trim(buf, 0)
        if rm is None:
            return z3.BoolVal(False)
        labelled = has_label and "pieces" in p.ctx.ghost
        if has_label and not labelled:
            # the code skipped the label: only allowed when the label is empty
            skip_ok = TLEN(z3.StringVal("label"), z3.IntVal(-1)) == 0
        else:
            skip_ok = z3.BoolVal(True)
        pieces = [[("txt", "label", i)] for i in range(p.ctx.ghost["pieces"])] if labelled else None
        if labelled:
            text, width = p.ctx.ghost["wrap_args"]
            if not (isinstance(text, Rope) and text.segs == [("txt", "label", -1)]):
                return z3.BoolVal(False)       # the whole label is what gets wrapped
        goals = []
        for extra, (exp, wf) in spec_cases(p.pc, lambda dec: snippet_spec(dec, DIGITS(mx), sl, sc, el, ec, pf, rm, hc, pieces)):
            goals.append(z3.Implies(z3.And(*extra) if extra else z3.BoolVal(True), z3.And(match(buf, exp), *wf)))
        return z3.And(skip_ok, *goals)

    def replay(m):
        Nv = model_val(m, N)
        if not (1 <= Nv <= 60) or any(model_val(m, LEN(z3.IntVal(n))) > 150 for n in range(1, Nv + 1)):
            return None       # the model is too large to write down; the bounded finder searches small inputs instead
        d = {"span": [model_val(m, sl), model_val(m, sc), model_val(m, el), model_val(m, ec)],
             "label": ("lbl " * 3).strip() if has_label else None, "message": None}
        lines = lines_from_model(m, Nv)
        if not is_primary:
            d = {"span": [1, 0, 1, 0], "label": None, "message": None, "children": [dict(d)]}
        return {"script": REPLAY, "input": {"lines": lines, "diag": d}}
    tag = f"render_snippet[{'primary' if is_primary else 'secondary'},{'label' if has_label else 'no-label'}]"
    chk.prove_paths(tag + ":no-exception/\\true-line-numbers/\\true-text-minus-common-blank-columns/\\markers-under-spanned-columns/\\label-pieces-in-order",
                    paths, post, func=f"{MOD}:DiagnosticsRenderer.render_snippet", replay=replay)
    kinds = {}
    for p in paths:
        kinds[p.kind] = kinds.get(p.kind, 0) + 1
    chk.record(tag + ":single-line,-two-line-and-longer-spans-all-explored", kinds.get("return", 0) >= 6, json.dumps(kinds), kind="reachability")
    chk.must_fail("twin:trim-is-not-forced-to-zero", [sl == el, sl >= 1], z3.Int("rm") == 0)
    chk.use_engine(e)


# ------------------------------------------------------------------------------ render_diagnostic
def diagnostic_section(chk):
    e = mk_engine(chk)
    e.rope_mode = True
    e.func_info(MOD, "DiagnosticsRenderer.render_diagnostic")
    e.func_info(MOD, "DiagnosticsRenderer.level_str")
    e.func_info(SPAN, "to_span")
    e.models[f"{SPAN}:normalize_ipython_dummy_files"] = lambda it, a, k: a[0]
    MARK = ClassVal("Marker", builtin=True)

    def snippet_model(it, a, k):
        self, span, label, mx, prim = a[0], a[1], a[2], a[3], (a[4] if len(a) > 4 else k.get("is_primary"))
        pf = a[5] if len(a) > 5 else k.get("prefix_lines", 0)
        # precondition of the render_snippet contract: the gutter is wide enough for this span
        it.ctx.obligate("render_snippet.requires:span.end.line<=max_lineno", z3.IntVal(0) + _z(span.fields["end"].fields["line"]) <= _z(mx))
        self.fields["buffer"].append(SObj(MARK, {"kind": "snippet", "span": span, "label": label, "max": mx, "primary": prim, "prefix": pf}))
        return None

    def wrap_model(it, a, k):
        return [SObj(MARK, {"kind": "wrapped", "text": a[0], "width": a[1], "kw": dict(k)})]
    e.models[f"{MOD}:DiagnosticsRenderer.render_snippet"] = snippet_model
    e.models[f"{MOD}:wrap"] = wrap_model
    n_obl = 0
    for main_span in (True, False):
        for main_msg in (True, False):
            for kids in _kid_shapes():
                def t(it, main_span=main_span, main_msg=main_msg, kids=kids):
                    sm = e.module(SPAN)
                    Loc, Span, SourceMap = (it.lookup_global(sm, n) for n in ("Loc", "Span", "SourceMap"))
                    dm = e.module(MOD)
                    R, Lvl = it.lookup_global(dm, "DiagnosticsRenderer"), it.lookup_global(dm, "DiagnosticLevel")

                    def mkspan(pfx):
                        a, b, c, d = (z3.Int(f"{pfx}_{x}") for x in ("sl", "sc", "el", "ec"))
                        it.ctx.assume(z3.And(1 <= a, a <= c, 0 <= b, 0 <= d, z3.Implies(a == c, b <= d)))
                        return it.call(Span, [it.call(Loc, ["f", SInt(a), SInt(b)], {}), it.call(Loc, ["f", SInt(c), SInt(d)], {})], {})
                    D = ClassVal("Diag", builtin=True)
                    children = []
                    for i, (ks, km) in enumerate(kids):
                        children.append(SObj(D, {"span": mkspan(f"k{i}") if ks else None, "level": Lvl.members["NOTE"],
                                                 "rendered_span_label": Rope([("txt", f"klabel{i}", -1)]) if ks else None,
                                                 "rendered_message": Rope([("txt", f"kmsg{i}", -1)]) if km else None}))
                    diag = SObj(D, {"span": mkspan("m") if main_span else None, "level": Lvl.members["ERROR"], "children": children,
                                    "rendered_title": Rope([("txt", "title", -1)]), "rendered_span_label": Rope([("txt", "label", -1)]),
                                    "rendered_message": Rope([("txt", "msg", -1)]) if main_msg else None})
                    # texts that are present are non-empty (an empty text has no words to show)
                    for nm in ["title", "label", "msg"] + [f"klabel{i}" for i in range(2)] + [f"kmsg{i}" for i in range(2)]:
                        it.ctx.assume(TLEN(z3.StringVal(nm), z3.IntVal(-1)) > 0)
                    r = it.call(R, [it.call(SourceMap, [], {})], {})
                    it.ctx.ghost["diag"] = diag
                    it.call_method(r, "render_diagnostic", [diag])
                    return r.fields["buffer"]
                paths = e.explore(t)

                def post(p, main_span=main_span, main_msg=main_msg, kids=kids):
                    if p.kind != "return":
                        return z3.BoolVal(False)
                    return diag_post(p.value, p.ctx.ghost["diag"], main_span, main_msg, kids)
                name = f"render_diagnostic[span={main_span},message={main_msg},children={''.join(('S' if s else '-') + ('M' if m else '-') for s, m in kids) or 'none'}]"
                chk.prove_paths(name + ":title/\\every-span-rendered-once-in-order-with-max_lineno>=all-lines/\\every-message-wrapped-once-in-order",
                                paths, post, func=f"{MOD}:DiagnosticsRenderer.render_diagnostic")
                n_obl += len(paths)
    chk.record("render_diagnostic:all-shapes-explored", n_obl >= 40, str(n_obl), kind="reachability")
    chk.use_engine(e)


def _z(v):
    return v.t if isinstance(v, SInt) else z3.IntVal(v)


def _kid_shapes():
    one = [(s, m) for s in (True, False) for m in (True, False)]
    return [()] + [(a,) for a in one] + [(a, b) for a in one for b in one]


def diag_post(buf, diag, main_span, main_msg, kids):
    W_MSG = 80
    exp = []
    children = diag.fields["children"]
    spans = ([diag.fields["span"]] if main_span else []) + ([c.fields["span"] for c in children if c.fields["span"] is not None] if main_span else [])

    def is_wrapped(x, segs, width=W_MSG):
        return isinstance(x, SObj) and x.fields.get("kind") == "wrapped" and isinstance(x.fields["text"], Rope) and x.fields["text"].segs == segs and x.fields["width"] == width and not x.fields["kw"]
    conj = []
    i = 0

    def nxt():
        nonlocal i
        i += 1
        return buf[i - 1] if i - 1 < len(buf) else None
    if main_span:
        sp = diag.fields["span"]
        title = nxt()
        st = sp.fields["start"]
        want = Rope([("lit", "Error: "), ("txt", "title", -1), ("lit", " (at f:"), ("dec", _z(st.fields["line"])), ("lit", ":"), ("dec", _z(st.fields["column"])), ("lit", ")")])
        conj.append(rope_eq(Rope.of(title), want) if isinstance(title, (str, Rope)) else z3.BoolVal(False))
        ends = [_z(s.fields["end"].fields["line"]) for s in spans]
        for j, s in enumerate(spans):
            m = nxt()
            ok = isinstance(m, SObj) and m.fields.get("kind") == "snippet" and m.fields["span"] is s
            if not ok:
                return z3.BoolVal(False)
            lab = m.fields["label"]
            want_lab = [("txt", "label", -1)] if j == 0 else None
            if j > 0:
                k = [c for c in children if c.fields["span"] is s][0]
                want_lab = k.fields["rendered_span_label"].segs
            conj.append(z3.BoolVal(isinstance(lab, Rope) and lab.segs == want_lab))
            conj.append(z3.BoolVal(m.fields["primary"] is (j == 0)))
            conj.append(z3.BoolVal(m.fields["prefix"] == (2 if j == 0 else 0) or j > 0))
            mx = _z(m.fields["max"])
            conj.append(z3.And(*[mx >= x for x in ends], z3.Or(*[mx == x for x in ends])))
        if main_msg:
            conj.append(z3.BoolVal(nxt() == ""))
            conj.append(z3.BoolVal(is_wrapped(nxt(), [("txt", "msg", -1)])))
    else:
        # no span: level + message (or the title when there is no message)
        body = ("txt", "msg", -1) if main_msg else ("txt", "title", -1)
        conj.append(z3.BoolVal(is_wrapped(nxt(), [("lit", "Error: "), body])))
    for c in children:
        if c.fields["rendered_message"] is not None:
            conj.append(z3.BoolVal(nxt() == ""))
            conj.append(z3.BoolVal(is_wrapped(nxt(), [("lit", "Note: ")] + c.fields["rendered_message"].segs)))
    conj.append(z3.BoolVal(i == len(buf)))
    return z3.And(*conj)


# ------------------------------------------------------------------------------ wrap
class SPara(Sym):
    def __init__(self, i):
        self.i = i
        self.nonempty = z3.Bool(f"para{i}_nonempty")

    def truth(self, it):
        return SBool(self.nonempty)

    def __repr__(self):
        return f"SPara({self.i})"


class SText(Sym):
    def getattr(self, it, name):
        if name == "splitlines":
            def f(*a, **k):
                n = z3.Int("n_paragraphs")
                it.ctx.assume(z3.And(0 <= n, n <= 3))
                c = 0
                while not it.ctx.branch(n == c):
                    c += 1
                it.ctx.ghost["paras"] = c
                return [SPara(i) for i in range(c)]
            return Builtin("str.splitlines", f)
        from pyvc import Unsupported
        raise Unsupported(f"str.{name} on the symbolic text")


def wrap_section(chk):
    e = mk_engine(chk)
    e.rope_mode = True
    e.func_info(MOD, "wrap")

    def tw_model(it, a, k):
        para, width = a[0], a[1]
        calls = it.ctx.ghost.setdefault("tw_calls", [])
        cnt = z3.Int(f"para{para.i}_lines")
        it.ctx.assume(z3.And(0 <= cnt, cnt <= 3, z3.Implies(z3.Not(para.nonempty), cnt == 0)))
        c = 0
        while not it.ctx.branch(cnt == c):
            c += 1
        calls.append((para.i, width, dict(k), c))
        return [Rope([("txt", f"para{para.i}", j)]) for j in range(c)]
    e.ext_models["textwrap.wrap"] = tw_model
    LONG_OK = {False: [], True: []}
    for indents in (False, True):
        def t(it, indents=indents):
            f = it.lookup_global(e.module(MOD), "wrap")
            kw = {"initial_indent": " ", "subsequent_indent": Rope([("rep", " ", z3.Int("indent"))])} if indents else {}
            it.ctx.assume(z3.Int("indent") > 0)
            return it.call(f, [SText(), SInt(z3.Int("width"))], kw)
        paths = e.explore(t, max_paths=3000)

        def post(p, indents=indents):
            if p.kind != "return":
                return z3.BoolVal(False)      # total: every text yields at least one line
            calls = p.ctx.ghost.get("tw_calls", [])
            n = p.ctx.ghost.get("paras", 0)
            res = p.value
            conj = []
            long_ok = LONG_OK[indents]
            # every paragraph is wrapped at most once, in order, with the caller's width, never breaking inside words
            conj.append(z3.BoolVal([c[0] for c in calls] == sorted({c[0] for c in calls})))
            for (_, w, kw, _) in calls:
                conj.append(z3.BoolVal(kw.get("break_on_hyphens") is False))
                long_ok.append(kw.get("break_long_words") is False)
                conj.append(_z(w) == z3.Int("width") if isinstance(w, SInt) else z3.BoolVal(False))
            byi = {c[0]: c[3] for c in calls}
            flat = []
            for i in range(n):
                # a paragraph that was not handed to textwrap must be one without words
                if i not in byi:
                    conj.append(z3.Not(z3.Bool(f"para{i}_nonempty")))
                k = byi.get(i, 0)
                flat += [[("txt", f"para{i}", j)] for j in range(k)] or [[]]
            flat = flat or [[]]
            ini = [("lit", " ")] if indents else []
            sub = [("rep", " ", z3.Int("indent"))] if indents else []
            exp = [Rope(ini + flat[0])] + [Rope(sub + x) for x in flat[1:]]
            if not isinstance(res, list):
                return z3.BoolVal(False)
            conj.append(match(res, exp))
            return z3.And(*conj)
        chk.prove_paths(f"wrap[indents={indents}]:never-raises/\\words-kept-and-never-split-at-hyphens(break_on_hyphens=False)/\\one-output-line-per-wrapped-line-in-order/\\indents-prepended",
                        paths, post, func=f"{MOD}:wrap",
                        replay=lambda m: {"script": REPLAY, "input": {"lines": ["x = 1"], "diag": {"span": [1, 0, 1, 5], "label": "a well-known extraordinarily-long-hyphenated-word " + "q" * 90, "message": "  "}}})
        chk.record(f"wrap[indents={indents}]:paragraph-and-line-counts-explored", len(paths) >= 20, str(len(paths)), kind="reachability")
    # "wrapped only at whitespace" also forbids splitting a word that is longer than the line: textwrap does
    # that unless break_long_words=False is passed
    o = chk.record("wrap:a-word-longer-than-the-line-width-is-not-split(break_long_words=False on every textwrap call)", bool(LONG_OK[False]) and all(LONG_OK[False] + LONG_OK[True]),
                   "textwrap.wrap is called with its default break_long_words=True", func=f"{MOD}:wrap", backend="pyvc (call arguments)")
    if o.status == "refuted":
        from pyvc.report import run_replay
        inp = {"lines": ["x = 1"], "diag": {"span": [1, 0, 1, 5], "label": "w" * 70, "message": None}, "expect_no_split": True}
        r_ = run_replay(REPLAY, inp, chk.repo, timeout=300)
        o.replay = {"confirmed": bool(r_.get("violates")), "script": REPLAY, "input": inp, "native": r_}
    chk.use_engine(e)


# ------------------------------------------------------------------------------ bounded text-level check
def bounded_section(chk):
    from pyvc.report import run_replay
    inp = {"max_lines": 3 if chk.tier == "thorough" else 2, "labels": 6 if chk.tier == "thorough" else 4, "children": True}
    res = run_replay(FINDER, inp, chk.repo, timeout=3000)
    if "evaluations" not in res:
        chk.undecided("bounded:text-level-oracle", "oracle run failed: " + json.dumps(res)[:400])
        return
    chk.bounded_result("bounded:parsed-output==statement(all sources<=%d lines over 5 line shapes x all span corners x %d labels)" % (inp["max_lines"], inp["labels"]),
                       not res.get("violates"), res["evaluations"], detail=res.get("detail") or "every rendered diagnostic parsed back to the source lines, marker columns and label/message words",
                       witness=res.get("witness"), func=f"{MOD}:DiagnosticsRenderer.render_diagnostic")
    ks = res.get("known_split")
    if ks:
        k = chk.bounded_result("known-deviation[word-longer-than-the-line-width-is-split]", False, ks["occurrences"], detail=ks["detail"], witness=ks, func=f"{MOD}:wrap")
        k.replay.update({"script": REPLAY, "input": {"lines": ks["lines"], "diag": ks["diag"], "expect_no_split": True}})


def sourcemap_section(chk):
    """SourceMap.add_file / span_lines (span.py): "within registered source" means the text registered
    LAST.  add_file(file) stores the current lines of the file (linecache, right-stripped), add_file(file,
    content) the lines of `content` — whether or not the file was registered before (a module edited and
    compiled again in one session must be rendered with its new text) — and leaves every other file's
    entry alone; span_lines returns lines start-prefix .. end of that text."""
    e = mk_engine(chk)
    SM = "guppylang_internals.span"
    e.func_info(SM, "SourceMap.add_file")
    e.func_info(SM, "SourceMap.span_lines")
    m = e.module(SM)
    for before in ("fresh", "registered"):
        for how in ("linecache", "content"):
            def t(it, before=before, how=how):
                e.ext_models["linecache.getlines"] = lambda it2, a, k: ["new line 1  \n", "new line 2\n", "    new line 3\t\n"] if a[0] == "f.py" else ["?"]
                S = it.lookup_global(m, "SourceMap")
                sm = it.call(S, [], {})
                it.getattr(sm, "sources")["other.py"] = ["other"]
                if before == "registered":
                    it.getattr(sm, "sources")["f.py"] = ["old line 1", "old line 2"]
                if how == "linecache":
                    it.call_method(sm, "add_file", ["f.py"])
                else:
                    it.call_method(sm, "add_file", ["f.py", "given 1\ngiven 2  \n"])
                return dict(it.getattr(sm, "sources"))
            paths = e.explore(t)

            def post(p, how=how):
                if p.kind != "return":
                    return z3.BoolVal(False)
                want = ["new line 1", "new line 2", "    new line 3"] if how == "linecache" else ["given 1", "given 2  "]
                return z3.BoolVal(p.value == {"other.py": ["other"], "f.py": want})
            chk.prove_paths(f"SourceMap.add_file[{before},{how}]:the-file's-entry-is-the-text-registered-now/\\other-files-untouched", paths, post, func=f"{SM}:SourceMap.add_file",
                            replay=lambda m_: {"script": REPLAY_RELOAD, "input": {}})
    # the registered text is returned character for character (tabs included: spans count a tab as ONE column,
    # so a line shown with expanded tabs would have its markers under the wrong characters)
    LINE = lambda i: ("\t" * (i % 3)) + f"L{i}\tx = {i}  y"  # noqa: E731
    for sl in range(1, 5):
        for el in range(sl, 5):
            for pf in range(0, sl):
                def t3(it, sl=sl, el=el, pf=pf):
                    S = it.lookup_global(m, "SourceMap")
                    sm = it.call(S, [], {})
                    it.getattr(sm, "sources")["f.py"] = [LINE(i) for i in range(1, 7)]
                    Loc = it.lookup_global(m, "Loc")
                    Sp = it.lookup_global(m, "Span")
                    sp = it.call(Sp, [it.call(Loc, ["f.py", sl, 0], {}), it.call(Loc, ["f.py", el, 1], {})], {})
                    return it.call_method(sm, "span_lines", [sp, pf])
                chk.prove_paths(f"SourceMap.span_lines[{sl}..{el},prefix {pf}]:lines-(start-prefix)..end-of-the-registered-text", e.explore(t3),
                                lambda p, sl=sl, el=el, pf=pf: z3.BoolVal(p.kind == "return" and p.value == [LINE(i) for i in range(sl - pf, el + 1)]), func=f"{SM}:SourceMap.span_lines",
                                replay=lambda m_: {"script": REPLAY_TABS, "input": {}})
    chk.use_engine(e)


REPLAY_TABS = r'''
from guppylang_internals.span import SourceMap, Span, Loc
from guppylang_internals.diagnostic import DiagnosticsRenderer, Error
from dataclasses import dataclass
from typing import ClassVar
src = "def f(y):\n\treturn y + 1.5\n"
sm = SourceMap(); sm.add_file("<tabs>", src)
lines = sm.span_lines(Span(Loc("<tabs>", 2, 8), Loc("<tabs>", 2, 15)), 0)
@dataclass(frozen=True)
class E(Error):
    title: ClassVar[str] = "T"
    span_label: ClassVar[str] = "here"
r = DiagnosticsRenderer(sm)
r.render_diagnostic(E(Span(Loc("<tabs>", 2, 8), Loc("<tabs>", 2, 15))))
buf = r.buffer
shown = [l for l in buf if "return" in l][0]
marks = [l for l in buf if "^" in l][0]
a, b = marks.index("^"), marks.rindex("^") + 1
above = shown[a:b]
print(json.dumps({"violates": lines != ["\treturn y + 1.5"] or above != "y + 1.5", "span_lines": lines, "text above the markers": above, "required": "y + 1.5"}))
'''

REPLAY_RELOAD = r'''
import os, tempfile, shutil, linecache
from guppylang_internals.span import SourceMap, Span, Loc
from guppylang_internals.diagnostic import DiagnosticsRenderer
d = tempfile.mkdtemp(dir=os.environ.get("TMPDIR", "/var/tmp")); fn = os.path.join(d, "edited.py")
open(fn, "w").write("def foo(x):\n    return x\n")
sm = SourceMap(); sm.add_file(fn)
first = list(sm.sources[fn])
open(fn, "w").write("import math\n\n\ndef foo(x):\n    return math.floor(x)\n")
linecache.checkcache(fn)
sm.add_file(fn)
second = list(sm.sources[fn])
shutil.rmtree(d, ignore_errors=True)
print(json.dumps({"violates": second != ["import math", "", "", "def foo(x):", "    return math.floor(x)"], "after_first_registration": first, "after_second_registration": second}))
'''
