"""Native oracle for C12 (bounded layer): the real `unify` against an independent reference.

All pairs of types/constants from a pool (three type inference variables, one const variable,
int/float/bool/None/qubit, tuples of 0..2, list[.], array[., n], function types with owned /
borrowed linear inputs, numeric and boolean constants; nesting depth <= 2) are unified with the
real `unify(s, t, {})` and with a textbook Robinson unifier on an independent term representation.
Checked per pair:
  (a) the real unify succeeds iff the reference finds a unifier;
  (b) the returned substitution is acyclic, idempotent (no solution mentions a solved variable) and
      makes both sides syntactically equal in one application;
  (c) it is most general: the instance it yields equals the reference mgu's instance up to a
      renaming of variables;
  (d) the call returns (recursion / time limit).
"""
ORACLE = r'''
import itertools, json, signal, sys
from guppylang_internals.tys.ty import (unify, TupleType, ExistentialTypeVar, NumericType, NoneType, FunctionType, FuncInput, InputFlags,
                                        OpaqueType, StructType, BoundTypeVar)
from guppylang_internals.tys.const import ConstValue, ExistentialConstVar, BoundConstVar
from guppylang_internals.tys.arg import TypeArg, ConstArg
from guppylang_internals.tys.subst import Substituter
from guppylang_internals.tys.builtin import list_type, array_type, bool_type

I_, F_, N_ = NumericType(NumericType.Kind.Int), NumericType(NumericType.Kind.Float), NumericType(NumericType.Kind.Nat)
# variables of the most general kind (may stand for linear types): kind constraints of a variable
# (copyable / droppable) are enforced after unification by Parameter.check_arg, not by unify
A, B, C = (ExistentialTypeVar(n, 100 + i, False, False) for i, n in enumerate("ABC"))
NV = ExistentialConstVar(N_, "n", 200)

def qubit_ty():
    from guppylang.std.quantum import qubit
    return qubit.wrapped.check_instantiate([]) if hasattr(qubit, "wrapped") else None

def pool(depth):
    Q = qubit_ty()
    atoms = [A, B, C, I_, F_, bool_type(), NoneType(), Q]
    consts = [NV, ConstValue(N_, 2), ConstValue(N_, 3)]
    level = list(atoms)
    allt = list(atoms)
    for _ in range(depth):
        nxt = [TupleType([])]
        small = level[:6]
        for a in level:
            nxt.append(TupleType([a])); nxt.append(list_type(a))
        for a, b in itertools.product(small, repeat=2):
            nxt.append(TupleType([a, b]))
        for a in small[:4]:
            for c in consts: nxt.append(array_type(a, c))
        AI = array_type(I_, ConstValue(N_, 2))
        nxt += [FunctionType([FuncInput(AI, InputFlags.Owned)], NoneType()), FunctionType([FuncInput(AI, InputFlags.Inout)], NoneType()), FunctionType([FuncInput(array_type(A, NV), InputFlags.Inout)], NoneType()),
                FunctionType([FuncInput(I_, InputFlags.Owned)], NoneType()),
                FunctionType([FuncInput(Q, InputFlags.Owned)], NoneType()), FunctionType([FuncInput(Q, InputFlags.Inout)], NoneType()),
                FunctionType([FuncInput(A, InputFlags.NoFlags)], B), FunctionType([FuncInput(I_, InputFlags.NoFlags)], A), FunctionType([FuncInput(I_, InputFlags.NoFlags), FuncInput(B, InputFlags.NoFlags)], A)]
        level = nxt
        allt += nxt
    seen, out = set(), []
    for t in allt:
        k = repr(conv(t))
        if k not in seen: seen.add(k); out.append(t)
    return out

CONSTS = [NV, ConstValue(N_, 2), ConstValue(N_, 3), ConstValue(bool_type(), True), ConstValue(N_, 1), ConstValue(F_, 1.0)]

# ---- independent term representation and reference unifier
def conv(t):
    if isinstance(t, (ExistentialTypeVar, ExistentialConstVar)): return ("var", t.id)
    if isinstance(t, NumericType): return ("num:" + t.kind.name,)
    if isinstance(t, NoneType): return ("none",)
    if isinstance(t, ConstValue): return ("const:" + type(t.value).__name__ + ":" + repr(t.value),)
    if isinstance(t, TupleType): return ("tuple:" + str(len(t.element_types)),) + tuple(conv(x) for x in t.element_types)
    if isinstance(t, FunctionType):
        # ownership flags are compared separately (flag_conflict): they only matter for linear inputs
        return ("fn:" + str(len(t.inputs)),) + tuple(conv(i.ty) for i in t.inputs) + (conv(t.output),)
    if isinstance(t, (OpaqueType, StructType)):
        return ("def:" + t.defn.name + ":" + str(len(t.args)),) + tuple(conv(a.ty if isinstance(a, TypeArg) else a.const) for a in t.args)
    raise TypeError(type(t))

def walk(t, s):
    while t[0] == "var" and t[1] in s: t = s[t[1]]
    return t

def occurs(v, t, s):
    t = walk(t, s)
    if t[0] == "var": return t[1] == v
    return any(occurs(v, x, s) for x in t[1:])

def ref_unify(a, b, s):
    a, b = walk(a, s), walk(b, s)
    if a[0] == "var" and b[0] == "var" and a[1] == b[1]: return s
    if a[0] == "var":
        return None if occurs(a[1], b, s) else {**s, a[1]: b}
    if b[0] == "var":
        return None if occurs(b[1], a, s) else {**s, b[1]: a}
    if a[0] != b[0] or len(a) != len(b): return None
    for x, y in zip(a[1:], b[1:]):
        s = ref_unify(x, y, s)
        if s is None: return None
    return s

def resolve(t, s):
    t = walk(t, s)
    if t[0] == "var": return t
    return (t[0],) + tuple(resolve(x, s) for x in t[1:])

def canon(t, m=None):
    m = {} if m is None else m
    if t[0] == "var":
        m.setdefault(t[1], len(m)); return ("var", m[t[1]])
    return (t[0],) + tuple(canon(x, m) for x in t[1:])

def is_linear(term):
    """resolved term of a type that is NOT COPYABLE, so that an owned and a borrowed input differ in calling convention
    (qubit, arrays, a variable of general kind, tuples / lists / options holding one)"""
    if term[0] == "var": return True
    if term[0] == "def:qubit:0": return True
    if term[0].startswith("def:array"): return True
    if term[0].startswith("tuple:") or term[0].startswith("def:"): return any(is_linear(x) for x in term[1:] if isinstance(x, tuple))
    return False

def flag_conflict(s, t, ref):
    """two function types in corresponding positions whose (resolved) linear inputs disagree on ownership"""
    if isinstance(s, FunctionType) and isinstance(t, FunctionType) and len(s.inputs) == len(t.inputs):
        for a, b in zip(s.inputs, t.inputs):
            if a.flags != b.flags and is_linear(resolve(conv(a.ty), ref)) and is_linear(resolve(conv(b.ty), ref)): return True
        return any(flag_conflict(a.ty, b.ty, ref) for a, b in zip(s.inputs, t.inputs)) or flag_conflict(s.output, t.output, ref)
    if isinstance(s, TupleType) and isinstance(t, TupleType) and len(s.element_types) == len(t.element_types):
        return any(flag_conflict(a, b, ref) for a, b in zip(s.element_types, t.element_types))
    if isinstance(s, OpaqueType) and isinstance(t, OpaqueType) and s.defn == t.defn and len(s.args) == len(t.args):
        return any(flag_conflict(a.ty, b.ty, ref) for a, b in zip(s.args, t.args) if isinstance(a, TypeArg) and isinstance(b, TypeArg))
    return False

class Timeout(Exception): pass
def _alarm(*a): raise Timeout()
signal.signal(signal.SIGALRM, _alarm)

def judge(s, t):
    cs, ct = conv(s), conv(t)
    ref = ref_unify(cs, ct, {})
    if ref is not None and flag_conflict(s, t, ref): ref = None
    sys.setrecursionlimit(600)
    signal.alarm(3)
    try:
        got = unify(s, t, {})
    except (RecursionError, Timeout):
        return "unify does not return (recursion/time limit)"
    finally:
        signal.alarm(0)
    if (got is None) != (ref is None):
        return f"unify {'fails' if got is None else 'succeeds'} but a unifier {'exists' if ref is not None else 'does not exist'}" + (f" (returned {({str(k): str(v) for k, v in got.items()})})" if got else "")
    if got is None: return None
    # (b) acyclic and solves
    g = {k.id: conv(v) for k, v in got.items()}
    def res(t, depth=0):
        if depth > 40: raise OverflowError
        t2 = t
        while t2[0] == "var" and t2[1] in g: t2 = g[t2[1]]; depth += 1;
        if depth > 40: raise OverflowError
        if t2[0] == "var": return t2
        return (t2[0],) + tuple(res(x, depth + 1) for x in t2[1:])
    try:
        rs, rt = res(cs), res(ct)
    except (OverflowError, RecursionError):
        return "the returned substitution is cyclic: " + str({str(k): str(v) for k, v in got.items()})
    if rs != rt: return f"the returned substitution does not make the two sides equal: {rs} vs {rt}"
    # (b') idempotent: ONE application solves (unify's own contract `s[subst] == t[subst]`; every caller applies the result once)
    dangling = {str(k): str(v) for k, v in got.items() if v.unsolved_vars & got.keys()}
    if dangling: return "the returned substitution is not idempotent (a solution mentions a solved variable, so applying it once leaves solved variables behind): " + str(dangling)
    one_s, one_t = s.transform(Substituter(got)), t.transform(Substituter(got))
    if conv(one_s) != conv(one_t): return f"one application of the returned substitution does not make the two sides equal: {one_s} vs {one_t}"
    # (c) most general
    if canon(rs) != canon(resolve(cs, ref)): return f"not most general: instance {canon(rs)} vs reference mgu instance {canon(resolve(cs, ref))}"
    return None
'''

DRIVER = r'''
I_IN = INPUT
P = pool(I_IN["depth"])
pairs = list(itertools.product(range(len(P)), repeat=2))
if I_IN.get("stride"): pairs = pairs[:: I_IN["stride"]]
mine = pairs[I_IN["chunk"]::I_IN["nchunks"]]
bad = None; n = 0
for i, j in mine:
    n += 1
    msg = judge(P[i], P[j])
    if msg is not None:
        bad = {"s": str(P[i]), "t": str(P[j]), "i": i, "j": j, "detail": f"unify({P[i]}, {P[j]}): {msg}"}; break
if bad is None and I_IN["chunk"] == 0:
    for a, b in itertools.product(CONSTS, repeat=2):
        n += 1
        msg = judge(a, b)
        if msg is not None:
            bad = {"s": str(a), "t": str(b), "detail": f"unify({a!r}, {b!r}): {msg}"}; break
print(json.dumps({"violates": bad is not None, "evaluations": n, "pool": len(P), "total": len(pairs), "witness": bad, "detail": bad and bad["detail"]}))
'''

REPLAY_ONE = r'''
P = pool(INPUT["depth"])
msg = judge(P[INPUT["i"]], P[INPUT["j"]])
print(json.dumps({"violates": msg is not None, "s": str(P[INPUT["i"]]), "t": str(P[INPUT["j"]]), "detail": msg}))
'''

REPLAY_CYCLE = r'''
s = TupleType([B, A]); t = TupleType([list_type(A), TupleType([B])])
msg = judge(s, t)
msg2 = judge(ConstValue(bool_type(), True), ConstValue(N_, 1))
print(json.dumps({"violates": msg is not None or msg2 is not None, "occurs": msg, "const": msg2}))
'''


# the three programs whose acceptance hinges on unify returning an IDEMPOTENT substitution (callers apply it once)
REPLAY_IDEM = r'''
import tempfile, importlib.util, os, shutil
from guppylang_internals.error import GuppyError
src = """from collections.abc import Callable
from guppylang import guppy
T = guppy.type_var("T"); A = guppy.type_var("A"); U = guppy.type_var("U")
@guppy
def ident(x: T) -> T:
    return x
@guppy
def app(f: Callable[[A], int], x: A) -> int:
    return f(x)
@guppy
def passes_float_to_int_instance() -> int:
    return app(ident, 1.5)
@guppy.declare
def inner(x: T) -> tuple[T, int, U]: ...
@guppy.declare
def outer(p: tuple[tuple[A, A], A, bool]) -> None: ...
@guppy
def a_is_int_and_float() -> None:
    outer(inner((1.5, 2.5)))
@guppy.declare
def g(x: T, y: int) -> None: ...
@guppy.declare
def hof(f: Callable[[tuple[A, A], A], None]) -> None: ...
@guppy
def instance_exists() -> None:
    hof(g)
"""
d = tempfile.mkdtemp(dir=os.environ.get("TMPDIR", "/var/tmp")); fn = os.path.join(d, "replay_c12i.py"); open(fn, "w").write(src)
spec = importlib.util.spec_from_file_location("replay_c12i", fn); m = importlib.util.module_from_spec(spec); sys.modules["replay_c12i"] = m
spec.loader.exec_module(m)
res = {}
for name in ("passes_float_to_int_instance", "a_is_int_and_float", "instance_exists"):
    try:
        getattr(m, name).check(); res[name] = "accepted"
    except GuppyError as ex:
        res[name] = "rejected:" + type(ex.error).__name__
shutil.rmtree(d, ignore_errors=True)
s_ = TupleType([TupleType([A, A]), B]); t_ = TupleType([B, TupleType([NumericType(NumericType.Kind.Int), NumericType(NumericType.Kind.Int)])])
msg = judge(s_, t_)
bad = res["passes_float_to_int_instance"] == "accepted" or res["a_is_int_and_float"] == "accepted" or res["instance_exists"] != "accepted" or msg is not None
print(json.dumps({"violates": bad, "observed": res, "unify": msg,
                  "required": "app(ident, 1.5) needs T = A, T = int, A = float: reject; outer(inner((1.5, 2.5))) needs A = int and A = float: reject; hof(g) has the instance A := int, T := tuple[int, int]: accept"}))
'''
