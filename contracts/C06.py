"""C06 — Linearity: qubits are used exactly once on every path.

The property is a soundness-and-completeness statement about the whole linearity checker.  What
contracts reach are the LOCAL RULES it is built from; their composition over the control-flow
graph (place-level liveness across blocks) is decided by the bounded layer.

 L1  Scope (checker/linearity_checker.py): assign / use / used over a chain of scopes, real code:
     after assign(x) the place is unused; after use(x) it is used (whichever scope in the chain
     holds it, and the use is recorded as a use of an outer place for the dataflow pass);
     re-assignment clears the use.
 L2  leaf_places: exactly the leaves of nested struct / tuple types, each once.
 L3  BBLinearityChecker.visit_PlaceNode on plain / struct / tuple places whose leaves have SYMBOLIC
     copyable flags: raises AlreadyUsedError iff some leaf was already used and is not copyable,
     otherwise marks every leaf used; a borrowed parameter may only be borrowed again
     (NotOwnedError for every other kind of use).
 L4  _check_assign_targets: assigning to a place (a plain variable, a whole struct or tuple, a
     field) is rejected with PlaceNotUsedError iff one of its leaves was assigned in this block,
     is not droppable and has not been used since; otherwise every leaf becomes a fresh unused
     place.  A borrowed parameter cannot be re-assigned.
 L5  _reassign_single_inout_arg: after a borrowing call every leaf of the lent place is assigned
     again (usable, and a later use is not a second use).
 L6  check_cfg_linearity, the rules that connect blocks (real code; scopes built with the real Scope
     API; the liveness result of C09 handed in): for a block whose outgoing value of x has a type
     with SYMBOLIC copyable/droppable flags, (E1) AlreadyUsedError iff the value was consumed in the
     block, is not copyable and is live into some successor; (E2) PlaceNotUsedError iff the value is
     alive in the block (live on entry or bound there), not droppable, not consumed there and not
     live into every successor; otherwise the block's signature lists exactly the live places.  All
     combinations of: one/two successors, live into which, bound outside / here / rebound to
     another type, used before / after the binding, in scope without being live.
 B   BOUNDED (contracts/C06_oracle.py): the real check() on programs of the core fragment
     (assignments, owned and borrowed calls, if/while, break/continue/return, tuples, struct
     fields) — a systematic single-fault family plus randomly generated valid programs and random
     edits of them — against an independent path semantics on the syntax tree; accept/reject must
     agree on every program.
"""
import itertools
import json
import z3

from pyvc import SObj, ClassVal, Builtin, SBool, PyRaise
from .common import mk_engine
from .C06_oracle import ORACLE, DRIVER, REPLAY_ONE

TITLE = "local linearity rules (scope bookkeeping, leaves, use-once, no overwrite of a live value, hand-back after borrow) + check() == path semantics on the core fragment (bounded)"
LC = "guppylang_internals.checker.linearity_checker"
CORE = "guppylang_internals.checker.core"
TYM = "guppylang_internals.tys.ty"
CHKM = "guppylang_internals.checker.cfg_checker"
NCH = 16


def run(chk):
    chk.section("scope", lambda: l1(chk))
    chk.section("places", lambda: l345(chk))
    chk.section("cross-block", lambda: l6(chk))
    chk.section("borrow-shadowing", lambda: borrow_shadowing(chk))
    chk.section("projections-of-temporaries", lambda: projections(chk))
    chk.section("diverging-branch", lambda: diverging_branch(chk))
    for i in range(NCH):
        chk.section(f"bounded-{i}", lambda i=i: bounded(chk, i))
    chk.expected_min_obligations = 40
    chk.assumptions += [
        "types are records with symbolic copyable/droppable flags (their computation is C14); struct and tuple types are the real classes with such leaves",
        "diagnostic classes are replaced by records naming the error kind; get_type / ENGINE lookups are not needed by the functions under contract",
        "L6 takes the place-level liveness result as given (its fixpoint property is C09) and BBLinearityChecker.check's per-block scopes as built with the real Scope API; that the per-block rules add up to the path statement is decided by the bounded layer",
    ]
    chk.not_covered += ["subscripted places (array elements), comprehensions, nested functions and modifier blocks in the linearity checker", "check_cfg_linearity with borrowed parameters whose exit is unreachable (live_default) and struct places split across blocks"]


REPLAY_PROJ = r'''
import tempfile, importlib.util, os, sys, shutil
from guppylang_internals.error import GuppyError
src = """from guppylang import guppy
from guppylang.std.builtins import owned
from guppylang.std.quantum import qubit, discard
@guppy.struct
class In:
    q: qubit
    r: qubit
@guppy.struct
class Out:
    a: In
    n: int
@guppy.declare
def make_out() -> Out: ...
@guppy.declare
def make_pair() -> tuple[int, tuple[qubit, qubit]]: ...
@guppy
def field_of_field() -> None:
    discard(make_out().a.q)
@guppy
def elem_of_elem() -> None:
    discard(make_pair()[1][0])
@guppy
def fine() -> int:
    return make_out_classical().n
@guppy.struct
class C:
    n: int
    m: int
@guppy.declare
def make_out_classical() -> C: ...
"""
d = tempfile.mkdtemp(dir=os.environ.get("TMPDIR", "/var/tmp")); fn = os.path.join(d, "replay_c06p.py"); open(fn, "w").write(src)
spec = importlib.util.spec_from_file_location("replay_c06p", fn); m = importlib.util.module_from_spec(spec); sys.modules["replay_c06p"] = m
spec.loader.exec_module(m)
res = {}
for name in ("field_of_field", "elem_of_elem", "fine"):
    try:
        getattr(m, name).check(); res[name] = "accepted"
    except GuppyError as ex:
        res[name] = "rejected:" + type(ex.error).__name__
shutil.rmtree(d, ignore_errors=True)
print(json.dumps({"violates": res["field_of_field"] == "accepted" or res["elem_of_elem"] == "accepted" or res["fine"] != "accepted", "observed": res,
                  "required": "projecting one qubit out of a temporary struct / tuple that holds another one leaks the other: rejected"}))
'''


def projections(chk):
    """BBLinearityChecker.visit_FieldAccessAndDrop / visit_TupleAccessAndDrop: a field / element projected out of a value
    that is NOT a place — everything else in the value is gone afterwards, so every OTHER component must be droppable,
    at every level of a chain of projections (`f().a.q`: the siblings of `a` in the outer value AND the siblings of `q`
    in `a`); the projected-from value itself is checked first, exactly once."""
    import itertools
    e = mk_engine(chk)
    for q in ("BBLinearityChecker.visit_FieldAccessAndDrop", "BBLinearityChecker.visit_TupleAccessAndDrop"):
        e.func_info(LC, q)
    m = e.module(LC)
    for n_ in ("UnnamedFieldNotUsedError", "UnnamedTupleNotUsedError"):
        def mk(it2, a, k, n_=n_):
            o = SObj(ClassVal("Diag", builtin=True), {"kind": n_, "args": tuple(a)})
            o.fields["add_sub_diagnostic"] = Builtin("add_sub_diagnostic", lambda *x: None)
            return o
        e.models[f"{ERR}:{n_}"] = mk
        e.models[f"{ERR}:{n_}.Fix"] = lambda it2, a, k: "NOTE"
    D = [[z3.Bool(f"droppable_l{lv}_c{c}") for c in range(3)] for lv in range(3)]
    for depth in (1, 2, 3):
        for kinds in itertools.product(("field", "elem"), repeat=depth):
            for picks in itertools.product(range(3), repeat=depth) if depth == 1 else [(0,) * depth, (1, 2, 0)[:depth], (2, 0, 1)[:depth]]:
                def t(it, depth=depth, kinds=kinds, picks=picks):
                    nm = e.module("guppylang_internals.nodes")
                    FAD, TAD = it.lookup_global(nm, "FieldAccessAndDrop"), it.lookup_global(nm, "TupleAccessAndDrop")
                    BB = it.lookup_global(m, "BBLinearityChecker")
                    log = []
                    chkr = SObj(BB, {"scope": None, "func_name": "f", "func_inputs": {}, "globals": None})
                    chkr.fields["visit_Leaf"] = Builtin("visit_Leaf", lambda n, *a, **k: log.append("leaf"))
                    node = SObj(ClassVal("Leaf", builtin=True), {})
                    # level 0 is the outermost value; the chain projects inwards
                    for lv in range(depth):
                        tys = [SObj(ClassVal("Ty", builtin=True), {"droppable": SBool(D[lv][c]), "c": c}) for c in range(3)]
                        if kinds[lv] == "field":
                            flds = [SObj(ClassVal("StructField", builtin=True), {"name": f"f{c}", "ty": tys[c]}) for c in range(3)]
                            node = it.call(FAD, [], {"value": node, "struct_ty": SObj(ClassVal("StructTy", builtin=True), {"fields": flds}), "field": flds[picks[lv]]})
                        else:
                            node = it.call(TAD, [], {"value": node, "tuple_ty": SObj(ClassVal("TupleTy", builtin=True), {"element_types": tys}), "index": picks[lv]})
                    it.call_method(chkr, "visit", [node])
                    return log

                def post(p, depth=depth, picks=picks):
                    leak = z3.Or(*[z3.Not(D[lv][c]) for lv in range(depth) for c in range(3) if c != picks[lv]])
                    if p.kind == "raise":
                        k_ = raised_kind(p)
                        return z3.And(leak, z3.BoolVal(p.raised(e, "GuppyError") and k_ in ("UnnamedFieldNotUsedError", "UnnamedTupleNotUsedError")))
                    return z3.And(z3.Not(leak), z3.BoolVal(p.kind == "return" and p.value == ["leaf"]))
                chk.prove_paths(f"projection-of-a-temporary[{'.'.join(f'{k_}{i}' for k_, i in zip(kinds, picks))}]:rejected<=>some-other-component-at-some-level-is-not-droppable/\\the-value-is-checked-once",
                                e.explore(t), post, func=f"{LC}:BBLinearityChecker.visit_FieldAccessAndDrop", replay=lambda m_: {"script": REPLAY_PROJ, "input": {}})
    chk.use_engine(e)


REPLAY_DIVERGE = r'''
import tempfile, importlib.util, os, sys, shutil
from guppylang_internals.error import GuppyError
I = INPUT
BODIES = {"one-branch-diverges": "    if b:\n        while True:\n            pass\n",
          "whole-body-diverges": "    while True:\n        pass\n",
          "diverging-loop-uses-the-argument": "    if b:\n        while True:\n            h(q)\n",
          "else-branch-diverges": "    if b:\n        h(q)\n    else:\n        while True:\n            pass\n"}
src = "from guppylang import guppy\nfrom guppylang.std.quantum import qubit, h\n@guppy\ndef f(q: qubit, b: bool) -> None:\n" + BODIES[I["case"]]
d = tempfile.mkdtemp(dir=os.environ.get("TMPDIR", "/var/tmp")); fn = os.path.join(d, "replay_c06d.py"); open(fn, "w").write(src)
spec = importlib.util.spec_from_file_location("replay_c06d", fn); m = importlib.util.module_from_spec(spec); sys.modules["replay_c06d"] = m
spec.loader.exec_module(m)
try:
    m.f.check(); got = "accepted"
except GuppyError as ex:
    got = "rejected:" + type(ex.error).__name__
shutil.rmtree(d, ignore_errors=True)
print(json.dumps({"violates": got != "accepted", "evaluations": 1, "observed": got, "required": "accepted: every path that reaches the exit hands the borrowed qubit back", "detail": f"{I['case']}: {got}"}))
'''


def diverging_branch(chk):
    """BOUNDED: a borrowed qubit and a branch that never terminates — no path that reaches the exit violates the
    path condition, so the core-fragment program is accepted (the converse direction of the property)."""
    import json
    from pyvc.report import run_replay
    for case in ("one-branch-diverges", "whole-body-diverges", "diverging-loop-uses-the-argument", "else-branch-diverges"):
        res = run_replay(REPLAY_DIVERGE, {"case": case}, chk.repo, timeout=600)
        if "evaluations" not in res:
            chk.undecided(f"bounded:borrowed-argument-and-divergence[{case}]", "oracle run failed: " + json.dumps(res)[:500])
            continue
        o = chk.bounded_result(f"bounded:borrowed-argument-and-divergence[{case}]:accepted", not res.get("violates"), 1, detail=res.get("detail"),
                               witness={"case": case, "observed": res.get("observed")} if res.get("violates") else None, func=f"{LC}:check_cfg_linearity")
        if res.get("violates"):
            o.replay.update({"script": REPLAY_DIVERGE, "input": {"case": case}})


def world(e, it, flags):
    """real place classes over types with the given (copyable, droppable) leaf flags"""
    m = e.module(CORE)
    V, FA, TA = (it.lookup_global(m, k) for k in ("Variable", "FieldAccess", "TupleAccess"))
    TT = it.lookup_global(e.module(TYM), "TupleType")
    ST = it.lookup_global(e.module(TYM), "StructType")
    IF = it.lookup_global(e.module(TYM), "InputFlags")
    leaf = lambda i: SObj(ClassVal("LeafTy", builtin=True), {"copyable": flags[i][0], "droppable": flags[i][1], "name": f"leaf{i}"})  # noqa: E731
    return dict(V=V, FA=FA, TA=TA, TT=TT, ST=ST, IF=IF, leaf=leaf, nof=it.getattr(IF, "NoFlags"), inout=it.getattr(IF, "Inout"))


def mk_struct_ty(w, fields):
    """a struct type whose `fields` are given directly (the instantiation of fields is C13/C14)"""
    fl = [SObj(ClassVal("StructField", builtin=True), {"name": n, "ty": t}) for n, t in fields]
    return SObj(w["ST"], {"fields": fl, "args": [], "defn": SObj(ClassVal("Defn", builtin=True), {"name": "S"})})


def mk_var(w, name, ty, flags=None, defined="DEF"):
    return SObj(w["V"], {"name": name, "ty": ty, "defined_at": defined, "flags": flags if flags is not None else w["nof"], "is_func_input": False})


ERR = "guppylang_internals.checker.errors.linearity"


def install_errors(e):
    for n in ("AlreadyUsedError", "NotOwnedError", "PlaceNotUsedError", "BorrowShadowedError", "MoveOutOfSubscriptError"):
        def mk(it2, a, k, n=n):
            o = SObj(ClassVal("Diag", builtin=True), {"kind": n, "args": tuple(a)})
            o.fields["add_sub_diagnostic"] = Builtin("add_sub_diagnostic", lambda *x: None)
            return o
        e.models[f"{ERR}:{n}"] = mk
    e.models["guppylang_internals.tys.builtin:is_array_type"] = lambda it2, a, k: False


def raised_kind(p):
    ex = p.value
    err = getattr(ex, "fields", {}).get("error") if isinstance(ex, SObj) else None
    return err.fields.get("kind") if isinstance(err, SObj) else None


# ------------------------------------------------------------------------------ L1
def l1(chk):
    e = mk_engine(chk)
    for q in ("Scope.__init__", "Scope.used", "Scope.use", "Scope.assign", "Scope.stats"):
        e.func_info(LC, q)
    m = e.module(LC)
    for depth in (1, 2, 3):
        for holder in range(depth):
            def t(it, depth=depth, holder=holder):
                w = world(e, it, {0: (False, False)})
                Sc = it.lookup_global(m, "Scope")
                UK = it.lookup_global(m, "UseKind")
                chain = [it.call(Sc, [], {})]
                for _ in range(depth - 1):
                    chain.append(it.call(Sc, [chain[-1]], {}))
                x = mk_var(w, "x", w["leaf"](0))
                y = mk_var(w, "y", w["leaf"](0))
                it.call_method(chain[holder], "assign", [x])
                it.call_method(chain[holder], "assign", [y])
                inner = chain[-1]
                xid, yid = it.getattr(x, "id"), it.getattr(y, "id")
                log = [("fresh", it.call_method(inner, "used", [xid]))]
                it.call_method(inner, "use", [xid, "NODE1", it.getattr(UK, "MOVE")])
                u = it.call_method(inner, "used", [xid])
                log.append(("after-use", u, it.call_method(inner, "used", [yid])))
                log.append(("recorded-as-outer-use", [sorted(k.fields["name"] for k in sc.fields["used_parent"]) for sc in chain]))
                it.call_method(chain[holder], "assign", [mk_var(w, "x", w["leaf"](0), defined="DEF2")])
                log.append(("after-reassign", it.call_method(inner, "used", [xid])))
                return log, holder, depth
            paths = e.explore(t)

            def post(p):
                if p.kind != "return":
                    return z3.BoolVal(False)
                log, holder, depth = p.value
                d = dict((x[0], x[1:]) for x in log)
                use = d["after-use"][0]
                ok = d["fresh"] == (None,) and use is not None and d["after-use"][1] is None and d["after-reassign"] == (None,)
                ok = ok and (use.fields.get("node") if isinstance(use, SObj) else use[0]) == "NODE1"
                # the use is recorded as a use of an OUTER place in every scope strictly inside the holder
                want = [["x"] if i > holder else [] for i in range(depth)]
                return z3.BoolVal(ok and d["recorded-as-outer-use"][0] == want)
            chk.prove_paths(f"Scope[chain={depth},place-held-at-level={holder}]:fresh-place-unused/\\use-marks-exactly-it/\\outer-uses-recorded-for-dataflow/\\reassignment-clears-the-use", paths, post,
                            func=f"{LC}:Scope.use")
    chk.use_engine(e)


# ------------------------------------------------------------------------------ L2-L5
SHAPES = ["leaf", "struct2", "tuple2", "struct-in-tuple", "tuple-in-struct"]


def build_place(w, shape, name="x", flags=None):
    """returns (variable, number of leaves); leaf i has type leaf(i)"""
    L = w["leaf"]
    if shape == "leaf":
        ty, n = L(0), 1
    elif shape == "struct2":
        ty, n = mk_struct_ty(w, [("a", L(0)), ("b", L(1))]), 2
    elif shape == "tuple2":
        ty, n = SObj(w["TT"], {"element_types": [L(0), L(1)], "args": []}), 2
    elif shape == "struct-in-tuple":
        ty, n = SObj(w["TT"], {"element_types": [mk_struct_ty(w, [("a", L(0)), ("b", L(1))]), L(2)], "args": []}), 3
    else:
        ty, n = mk_struct_ty(w, [("p", SObj(w["TT"], {"element_types": [L(0), L(1)], "args": []})), ("c", L(2))]), 3
    return mk_var(w, name, ty, flags), n


def leaf_names(it, e, places):
    return sorted(it.call(it.builtins["str"], [p], {}) for p in places)


WANT_LEAVES = {"leaf": ["x"], "struct2": ["x.a", "x.b"], "tuple2": ["x[0]", "x[1]"], "struct-in-tuple": ["x[0].a", "x[0].b", "x[1]"], "tuple-in-struct": ["x.c", "x.p[0]", "x.p[1]"]}


def l345(chk):
    e = mk_engine(chk)
    for q in ("leaf_places", "is_inout_var", "BBLinearityChecker.visit_PlaceNode", "BBLinearityChecker._check_assign_targets", "BBLinearityChecker._reassign_single_inout_arg", "Scope.use", "Scope.assign"):
        e.func_info(LC, q)
    install_errors(e)
    m = e.module(LC)
    # symbolic classification of (up to) three leaves
    C = [z3.Bool(f"copyable{i}") for i in range(3)]
    D = [z3.Bool(f"droppable{i}") for i in range(3)]
    U = [z3.Bool(f"used_before{i}") for i in range(3)]
    flags = {i: (SBool(C[i]), SBool(D[i])) for i in range(3)}

    # ---- L2
    for shape in SHAPES:
        def t(it, shape=shape):
            w = world(e, it, flags)
            v, n = build_place(w, shape)
            return leaf_names(it, e, it.iterate(it.call(it.lookup_global(m, "leaf_places"), [v], {})))
        chk.prove_paths(f"leaf_places[{shape}]:exactly-the-leaves-each-once", e.explore(t), lambda p, shape=shape: z3.BoolVal(p.kind == "return" and p.value == WANT_LEAVES[shape]),
                        func=f"{LC}:leaf_places")

    def checker(it, w, scope):
        BB = it.lookup_global(m, "BBLinearityChecker")
        return SObj(BB, {"scope": scope, "func_name": "f", "func_inputs": {}, "globals": None})

    def setup(it, shape, inout=False, local=True):
        """scope chain (outer, inner); the place's leaves are assigned in the inner scope if local else in the outer one;
        leaf i is marked used iff U[i]"""
        w = world(e, it, flags)
        Sc = it.lookup_global(m, "Scope")
        UK = it.lookup_global(m, "UseKind")
        outer = it.call(Sc, [], {})
        inner = it.call(Sc, [outer], {})
        v, n = build_place(w, shape, flags=w["inout"] if inout else None)
        leaves = list(it.iterate(it.call(it.lookup_global(m, "leaf_places"), [v], {})))
        leaves.sort(key=lambda p: int(it.getattr(p, "ty").fields["name"][4:]))        # leaf i carries the flags C[i], D[i], U[i]
        holder = inner if local else outer
        for lf in leaves:
            it.call_method(holder, "assign", [lf])
        for i, lf in enumerate(leaves):
            if it.ctx.branch(U[i]):
                it.call_method(inner, "use", [it.getattr(lf, "id"), f"EARLIER-USE-{i}", it.getattr(UK, "MOVE")])
        return w, UK, outer, inner, v, leaves, n

    PN = lambda it, place: SObj(it.lookup_global(e.module("guppylang_internals.nodes"), "PlaceNode"), {"place": place})  # noqa: E731

    # ---- L3 use of a place
    for shape in SHAPES:
        for kind in ("MOVE", "CONSUME", "BORROW"):
            def t(it, shape=shape, kind=kind):
                w, UK, outer, inner, v, leaves, n = setup(it, shape)
                ck = checker(it, w, inner)
                it.call_method(ck, "visit_PlaceNode", [PN(it, v)], {"use_kind": it.getattr(UK, kind)})
                return [it.call_method(inner, "used", [it.getattr(lf, "id")]) is not None for lf in leaves], n

            def post(p, shape=shape):
                n = len(WANT_LEAVES[shape])
                clash = z3.Or(*[z3.And(U[i], z3.Not(C[i])) for i in range(n)])
                if p.kind == "raise":
                    return z3.And(clash, z3.BoolVal(raised_kind(p) == "AlreadyUsedError"))
                if p.kind != "return":
                    return z3.BoolVal(False)
                return z3.And(z3.Not(clash), z3.BoolVal(all(p.value[0])))
            chk.prove_paths(f"visit_PlaceNode[{shape},{kind}]:AlreadyUsedError<=>some-leaf-used-before-and-not-copyable;otherwise-every-leaf-is-marked-used", e.explore(t), post,
                            func=f"{LC}:BBLinearityChecker.visit_PlaceNode", replay=lambda m_: {"script": ORACLE + REPLAY_ONE, "input": {"sig": "none", "prog": [["new", "q"], ["consume", "q"], ["consume", "q"]]}})
    for kind in ("MOVE", "CONSUME", "RETURN", "COPY", "BORROW"):
        def t(it, kind=kind):
            w, UK, outer, inner, v, leaves, n = setup(it, "leaf", inout=True)
            ck = checker(it, w, inner)
            ck.fields["func_inputs"] = {it.hashable(it.getattr(v, "id")) if hasattr(it, "hashable") else it.getattr(v, "id"): v}
            it.call_method(ck, "visit_PlaceNode", [PN(it, v)], {"use_kind": it.getattr(UK, kind)})
            return True

        def post(p, kind=kind):
            if kind == "BORROW":
                clash = z3.And(U[0], z3.Not(C[0]))
                return z3.BoolVal(p.kind == "return") if p.kind == "return" else z3.And(clash, z3.BoolVal(raised_kind(p) == "AlreadyUsedError"))
            return z3.BoolVal(p.kind == "raise" and raised_kind(p) == "NotOwnedError")
        chk.prove_paths(f"visit_PlaceNode[borrowed-parameter,{kind}]:only-re-borrowing-is-allowed(NotOwnedError-otherwise)", e.explore(t), post, func=f"{LC}:BBLinearityChecker.visit_PlaceNode",
                        replay=lambda m_: {"script": ORACLE + REPLAY_ONE, "input": {"sig": "borrowed", "prog": [["consume", "p"]]}})

    # ---- L4 assignment to a place
    for shape in SHAPES:
        for local in (True, False):
            def t(it, shape=shape, local=local):
                w, UK, outer, inner, v, leaves, n = setup(it, shape, local=local)
                ck = checker(it, w, inner)
                e.models["guppylang_internals.ast_util:find_nodes"] = lambda it2, a, k: [a[1]] if isinstance(a[1], SObj) and a[1].cls.name == "PlaceNode" else []
                new_v, _ = build_place(w, shape)
                new_v.fields["defined_at"] = "DEF-NEW"
                it.call_method(ck, "_check_assign_targets", [[PN(it, new_v)]])
                inner_vars = inner.fields["vars"]
                return [it.call_method(inner, "used", [it.getattr(lf, "id")]) is None for lf in leaves], len(inner_vars)

            def post(p, shape=shape, local=local):
                n = len(WANT_LEAVES[shape])
                leak = z3.Or(*[z3.And(z3.Not(U[i]), z3.Not(D[i])) for i in range(n)]) if local else z3.BoolVal(False)
                if p.kind == "raise":
                    return z3.And(leak, z3.BoolVal(raised_kind(p) == "PlaceNotUsedError"))
                if p.kind != "return":
                    return z3.BoolVal(False)
                return z3.And(z3.Not(leak), z3.BoolVal(all(p.value[0]) and p.value[1] == n))
            tag = "assigned-in-this-block" if local else "assigned-in-an-earlier-block"
            chk.prove_paths(f"_check_assign_targets[{shape},{tag}]:PlaceNotUsedError<=>a-local-leaf-is-unused-and-not-droppable;otherwise-every-leaf-is-a-fresh-unused-place", e.explore(t), post,
                            func=f"{LC}:BBLinearityChecker._check_assign_targets",
                            replay=lambda m_: {"script": ORACLE + REPLAY_ONE, "input": {"sig": "none", "prog": [["new", "q"], ["new", "r"], ["mk", "q", "r"], ["new", "q"], ["new", "r"], ["mk", "q", "r"], ["consume", "s.a"], ["consume", "s.b"]]}})
    e.models.pop("guppylang_internals.ast_util:find_nodes", None)

    # ---- L5 hand-back after a borrowing call
    for shape in SHAPES:
        def t(it, shape=shape):
            w, UK, outer, inner, v, leaves, n = setup(it, shape)
            ck = checker(it, w, inner)
            it.call_method(ck, "_reassign_single_inout_arg", [v, "CALL-NODE"])
            return [it.call_method(inner, "used", [it.getattr(lf, "id")]) is None for lf in leaves]
        chk.prove_paths(f"_reassign_single_inout_arg[{shape}]:every-leaf-of-the-lent-place-is-unused-again", e.explore(t),
                        lambda p: z3.BoolVal(p.kind == "return" and all(p.value)), func=f"{LC}:BBLinearityChecker._reassign_single_inout_arg")
    chk.must_fail("twin:leaf-classification-is-free", [], z3.And(C[0], D[0]))
    chk.use_engine(e)


# ------------------------------------------------------------------------------ bounded
def bounded(chk, i):
    from pyvc.report import run_replay
    res = run_replay(ORACLE + DRIVER, {"tier": chk.tier, "chunk": i, "nchunks": NCH}, chk.repo, timeout=6000)
    if "evaluations" not in res:
        chk.undecided(f"bounded[{i}/{NCH}]:programs", "oracle run failed: " + json.dumps(res)[:800])
        return
    w = res.get("witness")
    o = chk.bounded_result(f"bounded[{i}/{NCH}]:check()==path-semantics(slice {i} of {NCH})", not res.get("violates"), res["evaluations"],
                           detail=res.get("detail") or f"{res['evaluations']} programs of the core fragment ({res['reference_accepts']} satisfy the path condition): accept/reject agrees on all", witness=w,
                           func=f"{LC}:check_cfg_linearity")
    if w:
        o.replay.update({"script": ORACLE + REPLAY_ONE, "input": {"sig": w["sig"], "prog": w["prog"]}})
    chk.record(f"bounded[{i}/{NCH}]:both-verdicts-occur", 10 <= res["reference_accepts"] <= res["evaluations"] - 10, f"{res['reference_accepts']} of {res['evaluations']} accepted by the reference", kind="reachability")


# ------------------------------------------------------------------------------ L6
def l6(chk):
    e = mk_engine(chk)
    e.func_info(LC, "check_cfg_linearity")
    m = e.module(LC)
    install_errors(e)
    for n in ("BorrowSubPlaceUsedError",):
        def mk(it2, a, k, n=n):
            o = SObj(ClassVal("Diag", builtin=True), {"kind": n, "args": tuple(a)})
            o.fields["add_sub_diagnostic"] = Builtin("add_sub_diagnostic", lambda *x: None)
            return o
        e.models[f"{ERR}:{n}"] = mk
    for sub in ("AlreadyUsedError.PrevUse", "AlreadyUsedError.MakeCopy", "PlaceNotUsedError.Branch", "PlaceNotUsedError.Fix", "BorrowSubPlaceUsedError.PrevUse", "BorrowSubPlaceUsedError.Fix"):
        e.models[f"{ERR}:{sub}"] = lambda it2, a, k: "NOTE"
    e.models[f"{LC}:has_explicit_copy"] = lambda it2, a, k: False
    co, do, cn, dn = z3.Bools("copyable_old droppable_old copyable_new droppable_new")
    n_sc = 0
    for k in (1, 2):
        for liveS in itertools.product((False, True), repeat=k):
            for bound in ("outer", "here", "rebound"):
                for uo in ((False, True) if bound != "here" else (False,)):
                    for uh in ((False, True) if bound != "outer" else (False,)):
                        for extra in (False, True):
                            if extra and all(liveS):
                                continue
                            sc = dict(k=k, liveS=liveS, bound=bound, uo=uo, uh=uh, extra=extra)
                            cross_block_case(chk, e, m, sc, (co, do, cn, dn))
                            n_sc += 1
    # the same rules for a compiler temporary (`%tmpN` holds the value of a conditional expression): a qubit in
    # it that is neither consumed nor handed on is a leak like any other
    for k in (1, 2):
        for liveS in itertools.product((False, True), repeat=k):
            for uh in (False, True):
                cross_block_case(chk, e, m, dict(k=k, liveS=liveS, bound="here", uo=False, uh=uh, extra=False, name="%tmp3"), (co, do, cn, dn))
                n_sc += 1
    # borrowed parameter: must reach the exit unconsumed (or re-assigned), whatever happens in between
    for k in (1, 2):
        for bound in ("outer", "rebound"):
            for uo in (False, True):
                for uh in ((False, True) if bound == "rebound" else (False,)):
                    cross_block_borrowed(chk, e, m, dict(k=k, bound=bound, uo=uo, uh=uh), (co, do, cn, dn))
                    n_sc += 1
    chk.record("check_cfg_linearity:cases-explored", n_sc >= 90, str(n_sc), kind="reachability")
    chk.use_engine(e)


def cross_block_case(chk, e, m, sc, syms):
    co, do, cn, dn = syms
    k, liveS, bound, uo, uh, extra = sc["k"], sc["liveS"], sc["bound"], sc["uo"], sc["uh"], sc["extra"]
    vname = sc.get("name", "x")
    # what the liveness analysis (C09) yields for these uses: x is live into A iff A uses the incoming
    # value, or lets it through (not rebound) to a successor that needs it
    liveA = bound != "here" and (uo or (bound == "outer" and any(liveS)))

    def t(it):
        w = world(e, it, {0: (SBool(co), SBool(do)), 1: (SBool(cn), SBool(dn))})
        Sc = it.lookup_global(m, "Scope")
        UK = it.lookup_global(m, "UseKind")
        mv = it.getattr(UK, "MOVE")
        T_old, T_new = w["leaf"](0), w["leaf"](1)
        P_old = mk_var(w, vname, T_old, defined="DEF-OLD")
        P_new = mk_var(w, vname, T_new, defined="DEF-NEW")
        xid = it.getattr(P_old, "id")
        out_place = P_old if bound == "outer" else P_new
        BBc = it.lookup_global(e.module(CHKM), "CheckedBB")
        names = ["entry", "A"] + [f"S{j}" for j in range(k)] + ["exit"]
        bbs = {n_: SObj(BBc, {"idx": i, "name": n_, "statements": [], "branch_pred": None, "reachable": True, "predecessors": [], "successors": []}) for i, n_ in enumerate(names)}
        bbs["entry"].fields["successors"] = [bbs["A"]]
        bbs["A"].fields["successors"] = [bbs[f"S{j}"] for j in range(k)]
        bbs["A"].fields["branch_pred"] = "PRED" if k == 2 else None
        for j in range(k):
            bbs[f"S{j}"].fields["successors"] = [bbs["exit"]]
        for n_, b in bbs.items():
            b.fields["sig"] = SObj(ClassVal("Sig", builtin=True), {"input_row": [], "output_rows": [f"ORIG-{n_}-{j}" for j in range(len(b.fields["successors"]))]})
            for s_ in b.fields["successors"]:
                s_.fields["predecessors"].append(b)
        scopes = {}
        # entry: binds the incoming value (when there is one), never uses it
        scopes["entry"] = it.call(Sc, [], {})
        if bound != "here":
            it.call_method(scopes["entry"], "assign", [P_old])
        # A
        inA = it.call(Sc, [], {})
        if bound != "here":
            it.call_method(inA, "assign", [P_old])
        scA = it.call(Sc, [inA], {})
        if uo:
            it.call_method(scA, "use", [xid, "USE-A-OUTER", mv])
        if bound != "outer":
            it.call_method(scA, "assign", [P_new])
            if uh:
                it.call_method(scA, "use", [xid, "USE-A-HERE", mv])
        scopes["A"] = scA
        # successors: use the value they get (when live), or merely have it in scope (extra)
        for j in range(k):
            inS = it.call(Sc, [], {})
            scS = it.call(Sc, [inS], {})
            if liveS[j] or extra:
                it.call_method(inS, "assign", [out_place])
            if liveS[j]:
                it.call_method(scS, "use", [xid, f"USE-S{j}", mv])
            scopes[f"S{j}"] = scS
        scopes["exit"] = it.call(Sc, [it.call(Sc, [], {})], {})
        live = {bbs["entry"]: {}, bbs["A"]: ({xid: bbs["A"] if uo else bbs[[f"S{j}" for j in range(k) if liveS[j]][0]]} if liveA else {}), bbs["exit"]: {}}
        for j in range(k):
            live[bbs[f"S{j}"]] = {xid: bbs[f"S{j}"]} if liveS[j] else {}
        by_bb = {id(b): n_ for n_, b in bbs.items()}
        e.models[f"{LC}:BBLinearityChecker"] = lambda it2, a, k_: SObj(ClassVal("BBLC", builtin=True), {"check": Builtin("check", lambda bb, **kw: scopes[by_bb[id(bb)]])})
        e.models["guppylang_internals.cfg.analysis:LivenessAnalysis"] = lambda it2, a, k_: SObj(ClassVal("LA", builtin=True), {"run": Builtin("run", lambda bbs_: live)})
        cfg = SObj(ClassVal("CheckedCFG", builtin=True), {"bbs": list(bbs.values()), "entry_bb": bbs["entry"], "exit_bb": bbs["exit"], "input_tys": [], "output_ty": "RET",
                                                          "live_before": {b: {} for b in bbs.values()}, "ass_before": {b: set() for b in bbs.values()}, "maybe_ass_before": {b: set() for b in bbs.values()}, "unitary_flags": "FLAGS"})
        r = it.call(it.lookup_global(m, "check_cfg_linearity"), [cfg, "fname", "GLOBALS"], {})
        return r, P_old, P_new, names
    paths = e.explore(t)

    # specification (path reading of the property, per block): value v of x leaving block b
    T, F = z3.BoolVal(True), z3.BoolVal(False)
    b_ = lambda v: T if v else F   # noqa: E731
    cases = []      # (condition, error kind, marker) in the order blocks are visited
    if bound != "here":
        # entry holds the old value, does not consume it; its only successor A needs it iff liveA
        cases.append((z3.And(z3.Not(do), b_(not liveA)), "PlaceNotUsedError", "DEF-OLD"))
    c_out, d_out = (co, do) if bound == "outer" else (cn, dn)
    consumed = uo if bound == "outer" else uh
    cases.append((z3.And(b_(any(liveS)), z3.Not(c_out), b_(consumed)), "AlreadyUsedError", None))
    relevant = liveA if bound == "outer" else True
    cases.append((z3.And(b_(relevant), z3.Not(d_out), b_(not consumed), b_(not all(liveS))), "PlaceNotUsedError", "DEF-OLD" if bound == "outer" else "DEF-NEW"))

    def post(p):
        if p.kind == "raise":
            kind = raised_kind(p)
            err = p.value.fields.get("error")
            alts = [z3.And(cond, *[z3.Not(c) for c, _, _ in cases[:i]]) for i, (cond, kd, marker) in enumerate(cases)
                    if kd == kind and (marker is None or (err.fields["args"] and err.fields["args"][0] == marker))]
            return z3.Or(*alts) if alts else F
        if p.kind != "return":
            return F
        r, P_old, P_new, names = p.value
        out_place = P_old if bound == "outer" else P_new
        by = {b.fields["idx"]: b for b in r.fields["bbs"]}
        A = by[1]
        ok = [b.fields["idx"] for b in r.fields["bbs"]] == list(range(len(names)))
        ok = ok and list(A.fields["sig"].fields["input_row"]) == ([P_old] if liveA else [])
        rows = A.fields["sig"].fields["output_rows"]
        ok = ok and len(rows) == k and all(list(rows[j]) == ([out_place] if liveS[j] else []) for j in range(k))
        ok = ok and all(all(x is P for x, P in zip(row, [out_place])) for row in rows)
        ok = ok and [s_.fields["idx"] for s_ in A.fields["successors"]] == [2 + j for j in range(k)] and [s_.fields["idx"] for s_ in A.fields["predecessors"]] == [0]
        return z3.And(b_(ok), *[z3.Not(c) for c, _, _ in cases])
    tag = f"succs={k},live-into={''.join('1' if x else '0' for x in liveS)},{bound},used-before-binding={int(uo)},used-after={int(uh)}" + (",in-scope-not-live" if extra else "") + (f",variable {vname}" if vname != "x" else "")
    chk.prove_paths(f"check_cfg_linearity[{tag}]:AlreadyUsed<=>consumed-here/\\not-copyable/\\live-later;NotUsed<=>alive-here/\\not-droppable/\\not-consumed/\\not-live-on-every-branch;else-rows=live-places", paths, post,
                    func=f"{LC}:check_cfg_linearity", replay=lambda m_: {"script": ORACLE + REPLAY_FAMILY, "input": {}})


def cross_block_borrowed(chk, e, m, sc, syms):
    """x is a borrowed parameter: the exit block hands it back (InoutReturnSentinel), so the value of x
    is live into every block.  A block that consumes the value it passes on (not copyable) is an
    error naming the borrow; nothing else is."""
    co, do, cn, dn = syms
    k, bound, uo, uh = sc["k"], sc["bound"], sc["uo"], sc["uh"]
    liveA = bound == "outer" or uo

    def t(it):
        w = world(e, it, {0: (SBool(co), SBool(do)), 1: (SBool(cn), SBool(dn))})
        Sc = it.lookup_global(m, "Scope")
        UK = it.lookup_global(m, "UseKind")
        mv = it.getattr(UK, "MOVE")
        P_old = mk_var(w, "x", w["leaf"](0), flags=w["inout"], defined="DEF-OLD")
        P_new = mk_var(w, "x", w["leaf"](1), defined="DEF-NEW")
        xid = it.getattr(P_old, "id")
        out_place = P_old if bound == "outer" else P_new
        BBc = it.lookup_global(e.module(CHKM), "CheckedBB")
        names = ["entry", "A"] + [f"S{j}" for j in range(k)] + ["exit"]
        bbs = {n_: SObj(BBc, {"idx": i, "name": n_, "statements": [], "branch_pred": None, "reachable": True, "predecessors": [], "successors": []}) for i, n_ in enumerate(names)}
        bbs["entry"].fields["successors"] = [bbs["A"]]
        bbs["A"].fields["successors"] = [bbs[f"S{j}"] for j in range(k)]
        bbs["A"].fields["branch_pred"] = "PRED" if k == 2 else None
        for j in range(k):
            bbs[f"S{j}"].fields["successors"] = [bbs["exit"]]
        for n_, b in bbs.items():
            b.fields["sig"] = SObj(ClassVal("Sig", builtin=True), {"input_row": [P_old] if n_ == "entry" else [], "output_rows": [f"ORIG-{n_}-{j}" for j in range(len(b.fields["successors"]))]})
            for s_ in b.fields["successors"]:
                s_.fields["predecessors"].append(b)
        scopes = {"entry": it.call(Sc, [], {})}
        it.call_method(scopes["entry"], "assign", [P_old])
        inA = it.call(Sc, [], {})
        it.call_method(inA, "assign", [P_old])
        scA = it.call(Sc, [inA], {})
        if uo:
            it.call_method(scA, "use", [xid, "USE-A-OUTER", mv])
        if bound == "rebound":
            it.call_method(scA, "assign", [P_new])
            if uh:
                it.call_method(scA, "use", [xid, "USE-A-HERE", mv])
        scopes["A"] = scA
        for n_ in [f"S{j}" for j in range(k)] + ["exit"]:
            inS = it.call(Sc, [], {})
            it.call_method(inS, "assign", [out_place])
            scopes[n_] = it.call(Sc, [inS], {})
        live = {bbs["entry"]: {}, bbs["A"]: ({xid: bbs["A"] if uo else bbs["exit"]} if liveA else {}), bbs["exit"]: {xid: bbs["exit"]}}
        for j in range(k):
            live[bbs[f"S{j}"]] = {xid: bbs["exit"]}
        by_bb = {id(b): n_ for n_, b in bbs.items()}
        e.models[f"{LC}:BBLinearityChecker"] = lambda it2, a, k_: SObj(ClassVal("BBLC", builtin=True), {"check": Builtin("check", lambda bb, **kw: scopes[by_bb[id(bb)]])})
        e.models["guppylang_internals.cfg.analysis:LivenessAnalysis"] = lambda it2, a, k_: SObj(ClassVal("LA", builtin=True), {"run": Builtin("run", lambda bbs_: live)})
        cfg = SObj(ClassVal("CheckedCFG", builtin=True), {"bbs": list(bbs.values()), "entry_bb": bbs["entry"], "exit_bb": bbs["exit"], "input_tys": [], "output_ty": "RET",
                                                          "live_before": {b: {} for b in bbs.values()}, "ass_before": {b: set() for b in bbs.values()}, "maybe_ass_before": {b: set() for b in bbs.values()}, "unitary_flags": "FLAGS"})
        r = it.call(it.lookup_global(m, "check_cfg_linearity"), [cfg, "fname", "GLOBALS"], {})
        exit_use = it.call_method(scopes["exit"], "used", [xid])
        return r, exit_use
    paths = e.explore(t)
    T, F = z3.BoolVal(True), z3.BoolVal(False)
    b_ = lambda v: T if v else F   # noqa: E731
    c_out = co if bound == "outer" else cn
    consumed = uo if bound == "outer" else uh
    cases = [(z3.And(z3.Not(do), b_(not liveA)), "PlaceNotUsedError"),            # entry: the old value is overwritten in A without having been used
             (z3.And(z3.Not(c_out), b_(consumed)), "BorrowSubPlaceUsedError")]   # A: the value handed on was consumed

    def post(p):
        if p.kind == "raise":
            kind = raised_kind(p)
            alts = [z3.And(cond, *[z3.Not(c) for c, _ in cases[:i]]) for i, (cond, kd) in enumerate(cases) if kd == kind]
            return z3.Or(*alts) if alts else F
        if p.kind != "return":
            return F
        r, exit_use = p.value
        return z3.And(b_(exit_use is not None), *[z3.Not(c) for c, _ in cases])
    chk.prove_paths(f"check_cfg_linearity[borrowed parameter,succs={k},{bound},used-before-binding={int(uo)},used-after={int(uh)}]:error-naming-the-borrow<=>the-value-passed-on-was-consumed/\\not-copyable;the-exit-block-uses-it", paths, post,
                    func=f"{LC}:check_cfg_linearity", replay=lambda m_: {"script": ORACLE + REPLAY_FAMILY, "input": {}})


REPLAY_FAMILY = r'''
progs = fixed_family()
bad = None; n = 0
for off in range(0, len(progs), 100):
    batch = progs[off:off + 100]
    for (sig, prog, want), (got, info) in zip(batch, check_all(batch)):
        n += 1
        if got != want and bad is None:
            bad = {"source": source(0, sig, prog), "reference": want, "check": got, "info": info}
    if bad: break
print(json.dumps({"violates": bad is not None, "evaluations": n, "witness": bad}))
'''


# ------------------------------------------------------------------------------ L7
def borrow_shadowing(chk, tag=""):
    """BBLinearityChecker.visit_Assign: a borrowed parameter may not be re-bound — the callee hands back
    whatever its parameter NAME is bound to at the end, so a re-binding would replace the caller's value
    and lose the in-place updates.  The check must look at EVERY place the assignment target binds: the
    plain target, and the names inside tuple / array / iterable unpacking patterns (left, starred, right,
    nested) — `xs, n = ...` and `for xs in ...` (desugared to unpacking) re-bind as much as `xs = ...`.
    Raises BorrowShadowedError iff some bound place is a borrowed function input.  Shared with C07."""
    e = mk_engine(chk)
    e.func_info(LC, "BBLinearityChecker.visit_Assign")
    m = e.module(LC)
    install_errors(e)
    e.models[f"{ERR}:BorrowShadowedError.Rename"] = lambda it2, a, k: "NOTE"
    NM = "guppylang_internals.nodes"
    SHAPES = ["P", "T(a|-|)", "T(X|-|)", "T(a|-|X)", "T(a|X|b)", "T(a,X|-|)", "A(a|-|X)", "T(T(a|-|X)|-|b)", "T(a|-|T(b|X|))", "T(a|b|c)", "O", "T(a|-|O)"]
    for shape in SHAPES:
        def t(it, shape=shape):
            w = world(e, it, {0: (False, True)})
            PN, UP, TU, AU = (it.lookup_global(e.module(NM), k) for k in ("PlaceNode", "UnpackPattern", "TupleUnpack", "ArrayUnpack"))
            ty = w["leaf"](0)
            X = mk_var(w, "xs", ty, flags=w["inout"])         # borrowed parameter
            O = mk_var(w, "ys", ty, flags=w["nof"])           # owned parameter
            loc = {n_: mk_var(w, n_, ty) for n_ in "abc"}

            def pn(c):
                v = X if c == "X" else O if c == "O" else X if c == "P" else loc[c]
                return SObj(PN, {"place": v})

            def parse(sh):
                sh = sh.strip()
                if sh in ("P", "X", "O") or sh in loc:
                    return pn(sh)
                kind, body = sh[0], sh[2:-1]
                parts, depth, cur = [], 0, ""
                for ch in body:
                    if ch == "(":
                        depth += 1
                    if ch == ")":
                        depth -= 1
                    if ch == "|" and depth == 0:
                        parts.append(cur); cur = ""
                    else:
                        cur += ch
                parts.append(cur)

                def lst(x):
                    out, depth, cur = [], 0, ""
                    for ch in x:
                        if ch == "(":
                            depth += 1
                        if ch == ")":
                            depth -= 1
                        if ch == "," and depth == 0:
                            out.append(cur); cur = ""
                        else:
                            cur += ch
                    if cur:
                        out.append(cur)
                    return [parse(y) for y in out]
                pat = SObj(UP, {"left": lst(parts[0]), "starred": None if parts[1] in ("-", "") else parse(parts[1]), "right": lst(parts[2])})
                return SObj(TU if kind == "T" else AU, {"pattern": pat})
            target = parse(shape)
            BB = it.lookup_global(m, "BBLinearityChecker")
            ck = SObj(BB, {"func_inputs": {it.getattr(X, "id"): X, it.getattr(O, "id"): O}})
            ck.fields["visit"] = Builtin("visit", lambda n_: None)
            ck.fields["_check_assign_targets"] = Builtin("_check_assign_targets", lambda ts: None)
            node = SObj(ClassVal("Assign", builtin=True), {"value": "VALUE", "targets": [target]})
            f, _ = BB.lookup("visit_Assign")
            return it.call(f, [ck, node], {})
        paths = e.explore(t)

        def post(p, shape=shape):
            want = "X" in shape or shape == "P"
            if want:
                return z3.BoolVal(p.kind == "raise" and raised_kind(p) == "BorrowShadowedError")
            return z3.BoolVal(p.kind == "return")
        chk.prove_paths(f"{tag}visit_Assign[target {shape}]:BorrowShadowedError<=>some-place-bound-by-the-target-is-a-borrowed-parameter(X; P = plain target; O = owned parameter)", paths, post,
                        func=f"{LC}:BBLinearityChecker.visit_Assign", replay=lambda m_: {"script": REPLAY_SHADOW, "input": {}})
    chk.use_engine(e)


REPLAY_SHADOW = r'''
import guppy_plainbool
import tempfile, importlib.util, os, sys, shutil
from guppylang_internals.error import GuppyError
src = """from guppylang import guppy
from guppylang.std.builtins import array, result
@guppy
def callee(xs: array[int, 3], c: bool) -> None:
    xs[0] = 11
    if c:
        xs, n = array(7, 8, 9), 1
        xs[1] = n
@guppy
def main() -> None:
    a = array(1, 2, 3)
    callee(a, True)
    result("a0", a[0]); result("a1", a[1]); result("a2", a[2])
"""
d = tempfile.mkdtemp(dir=os.environ.get("TMPDIR", "/var/tmp")); fn = os.path.join(d, "replay_c06s.py"); open(fn, "w").write(src)
spec = importlib.util.spec_from_file_location("replay_c06s", fn); m = importlib.util.module_from_spec(spec); sys.modules["replay_c06s"] = m
try:
    spec.loader.exec_module(m)
    try:
        m.main.check(); out = {"violates": True, "observed": "accepted", "required": "re-binding the borrowed parameter xs inside an unpacking assignment must be rejected (BorrowShadowedError)"}
    except GuppyError as ex:
        out = {"violates": False, "observed": "rejected: " + type(ex.error).__name__}
except Exception as ex:
    out = {"violates": False, "error": repr(ex)[:300]}
shutil.rmtree(d, ignore_errors=True)
print(json.dumps(out))
'''
