"""C15 — Overloaded calls pick the first applicable variant.

Functions under contract (definition/overloaded.py): OverloadedFunctionDef.check_call,
synthesize_call, _call_error; guppylang/decorator.py _Guppy.overload (order of func_ids); the
overload declarations of std/iter.py range and std/platform.py result.

Each variant is an abstract callee with a SYMBOLIC outcome: accepts (returns its own result),
rejects with a GuppyError, or fails with another exception.  Obligations, for 1..3 variants:
the call returns the result of the first accepting variant, later variants are not consulted,
a non-Guppy exception propagates unchanged, and only when every variant rejects an
OverloadNoMatchError is raised.  Frame obligation: a rejected attempt must leave the argument
expressions as the next attempt needs them — every variant is handed arguments equal to the
ORIGINAL ones although an earlier (rejected) attempt annotated/mutated what it received.
"""
import ast
import z3

from pyvc import SObj, ClassVal, Builtin, PyRaise, SBool
from .common import mk_engine, ast_from_source

TITLE = "overload resolution = first applicable variant; failed attempts do not leak into later ones"
MOD = "guppylang_internals.definition.overloaded"

REPLAY = r'''
from guppylang import guppy
from guppylang.std.builtins import nat
from guppylang_internals.error import GuppyError
import tempfile, importlib.util, os, sys, shutil
src = """
from guppylang import guppy
from guppylang.std.builtins import nat
@guppy.declare
def v1(x: int, y: bool) -> int: ...
@guppy.declare
def v2(x: nat, y: int) -> int: ...
@guppy.overload(v1, v2)
def ov(): ...
@guppy
def direct() -> int:
    return v2(1, 2)
@guppy
def main() -> int:
    return ov(1, 2)
@guppy.comptime
def traced(a: int) -> int:
    return ov(a, a + 1)
@guppy
def main2() -> int:
    return traced(3)
"""
d = tempfile.mkdtemp(dir=os.environ.get("TMPDIR", "/var/tmp")); fn = os.path.join(d, "replay_c15.py"); open(fn, "w").write(src)
spec = importlib.util.spec_from_file_location("replay_c15", fn); m = importlib.util.module_from_spec(spec); sys.modules["replay_c15"] = m
try:
    spec.loader.exec_module(m)
    m.direct.check()
    try:
        m.main.check(); ok = True; err = None
    except GuppyError as e:
        ok = False; err = type(e.error).__name__
    try:
        m.main2.compile_function(); ok2 = True; err2 = None
    except Exception as e:
        ok2 = False; err2 = type(e).__name__ + ": " + str(e)[:120]
    out = {"violates": not ok or not ok2, "overloaded_call_accepted": ok, "error": err, "overloaded_call_from_comptime_code_compiles": ok2, "comptime_error": err2,
           "note": "v2(1, 2) is accepted directly; ov(1, 2) must resolve to v2; the same call with traced arguments inside a comptime function must compile"}
except Exception as ex:
    out = {"violates": False, "error": repr(ex)[:300]}
shutil.rmtree(d, ignore_errors=True)
print(json.dumps(out))
'''


REPLAY_INFER = r'''
import tempfile, importlib.util, os, sys, shutil
from guppylang_internals.error import GuppyError
src = """from guppylang import guppy
from guppylang.std.option import Option, nothing, some
T = guppy.type_var("T")
@guppy
def mk_none() -> Option[T]:
    return nothing()
@guppy
def mk_some(x: int) -> Option[int]:
    return some(x)
@guppy.overload(mk_none, mk_some)
def mk(): ...
@guppy
def ident(x: T) -> T:
    return x
@guppy
def direct() -> None:
    y: Option[int] = ident(mk_none())
@guppy
def through_overload() -> None:
    y: Option[int] = ident(mk())
"""
d = tempfile.mkdtemp(dir=os.environ.get("TMPDIR", "/var/tmp")); fn = os.path.join(d, "replay_c15i.py"); open(fn, "w").write(src)
spec = importlib.util.spec_from_file_location("replay_c15i", fn); m = importlib.util.module_from_spec(spec); sys.modules["replay_c15i"] = m
spec.loader.exec_module(m)
res = {}
for name in ("direct", "through_overload"):
    try:
        getattr(m, name).check(); res[name] = "accepted"
    except GuppyError as ex:
        res[name] = "rejected:" + type(ex.error).__name__
shutil.rmtree(d, ignore_errors=True)
print(json.dumps({"violates": res["direct"] != res["through_overload"], "observed": res, "required": "the call through the overload behaves like the call of the variant it picks"}))
'''


def run(chk):
    e = mk_engine(chk)
    for q in ("OverloadedFunctionDef.check_call", "OverloadedFunctionDef.synthesize_call", "OverloadedFunctionDef._call_error"):
        e.func_info(MOD, q)
    CD = ClassVal("CallableDef", builtin=True)
    e.global_presets = {(MOD, "CallableDef"): CD}
    e.models[f"{MOD}:OverloadNoMatchError"] = lambda it, a, k: SObj(ClassVal("Diag"), {"kind": "OverloadNoMatchError", "args": tuple(a), "add_sub_diagnostic": Builtin("asd", lambda d: None)})
    e.models[f"{MOD}:AvailableOverloadsHint"] = lambda it, a, k: SObj(ClassVal("Diag"), {"kind": "AvailableOverloadsHint", "args": tuple(a)})
    e.models["guppylang_internals.span:to_span"] = lambda it, a, k: SObj(ClassVal("Span"), {"start": ("S", a[0]), "end": ("E", a[0])})
    e.models["guppylang_internals.span:Span"] = lambda it, a, k: SObj(ClassVal("Span"), {"start": a[0], "end": a[1]})
    e.models["guppylang_internals.checker.expr_checker:ExprSynthesizer"] = lambda it, a, k: SObj(ClassVal("Synth"), {"synthesize": Builtin("syn", lambda x: (x, "ARGTY"))})

    for mode in ("check_call", "synthesize_call"):
        for n in (1, 2, 3):
            outcome = [z3.Int(f"outcome{i}") for i in range(n)]   # 0 accept, 1 GuppyError, 2 other exception, 3 GuppyTypeInferenceError

            def t(it, mode=mode, n=n, outcome=outcome):
                m = e.module(MOD)
                OF = it.lookup_global(m, "OverloadedFunctionDef")
                GE = it.lookup_global(e.module("guppylang_internals.error"), "GuppyError")
                GTIE = it.lookup_global(e.module("guppylang_internals.error"), "GuppyTypeInferenceError")
                log = []
                for o in outcome:
                    it.ctx.assume(z3.And(o >= 0, o <= 3))
                args = [ast_from_source(it, "1", "eval").fields["body"], ast_from_source(it, "2", "eval").fields["body"]]
                # an argument as tracing passes it: a place node whose place carries the comptime value.  Only the
                # NODE may be duplicated — the place and the value behind it are not AST and must be handed on
                # as they are (a traced value cannot be copied: looking up __deepcopy__ on it is a comptime error)
                PN = it.lookup_global(e.module("guppylang_internals.nodes"), "PlaceNode")
                place = SObj(ClassVal("ComptimeVariable", builtin=True), {"name": "%tmp0", "static_value": SObj(ClassVal("TracedValue", builtin=True), {})})
                args.append(SObj(PN, {"place": place, "lineno": 1, "col_offset": 0, "end_lineno": 1, "end_col_offset": 1}))
                snapshot = [dict(a.fields) for a in args]
                defs = {}

                def mk_variant(i):
                    def call(a, *rest):
                        # what the variant is handed must look like the ORIGINAL arguments
                        pristine = len(a) == len(snapshot) and all(set(x.fields) == set(s) and all(x.fields[k] is s[k] or x.fields[k] == s[k] for k in s) for x, s in zip(a, snapshot))
                        log.append((i, pristine))
                        for x in a:
                            x.fields["type"] = ("ANNOTATED-BY", i)     # like ExprChecker.check / with_type
                        if it.ctx.branch(outcome[i] == 0):
                            return (("RESULT", i), ("SECOND", i))
                        if it.ctx.branch(outcome[i] == 1):
                            raise PyRaise(it.call(GE, [SObj(ClassVal("Diag"), {})], {}))
                        if it.ctx.branch(outcome[i] == 3):
                            raise PyRaise(it.call(GTIE, [SObj(ClassVal("Diag"), {"kind": "cannot-infer", "variant": i})], {}))
                        raise PyRaise(it.make_exc("KeyError", "internal"))
                    return SObj(CD, {"ty": ("SIG", i), "check_call": Builtin("check_call", call), "synthesize_call": Builtin("synthesize_call", call)})
                ids = [SObj(ClassVal("DefId", builtin=True), {"i": i}) for i in range(n)]
                for i, d in enumerate(ids):
                    defs[d] = mk_variant(i)
                ctx = SObj(ClassVal("Context", builtin=True), {"globals": defs})
                ov = SObj(OF, {"func_ids": ids, "name": "ov"})
                it.ctx.ghost["log"] = log
                node = ast_from_source(it, "f(1, 2)", "eval").fields["body"]
                if mode == "check_call":
                    return it.call_method(ov, "check_call", [args, "EXPECTED_TY", node, ctx])
                return it.call_method(ov, "synthesize_call", [args, node, ctx])
            paths = e.explore(t)

            def post(p, n=n, outcome=outcome, mode=mode):
                log = p.ctx.ghost["log"]
                called = [i for i, _ in log]
                conj = [z3.BoolVal(called == list(range(len(called))))]         # consulted in declaration order, no gaps
                conj.append(z3.BoolVal(all(pr for _, pr in log)))                 # every attempt sees pristine arguments
                k = len(called)
                failed = lambda i: z3.Or(outcome[i] == 1, outcome[i] == 3)      # noqa: E731  (a GuppyTypeInferenceError is a GuppyError)
                for i in range(k - 1):
                    conj.append(failed(i))                                         # went on only after a GuppyError
                if p.kind == "return":
                    conj += [z3.BoolVal(k >= 1 and p.value == (("RESULT", k - 1), ("SECOND", k - 1))), outcome[k - 1] == 0]
                elif p.kind == "raise" and p.raised(e, "GuppyTypeInferenceError"):
                    # only when synthesising, every variant failed and one of them for want of an expected type: the FIRST
                    # such error is passed on, so that an enclosing call retries with the expected type (as it does
                    # for a direct call of that variant)
                    err = p.value.fields.get("error")
                    v = err.fields.get("variant") if isinstance(err, SObj) else None
                    conj += [z3.BoolVal(mode == "synthesize_call" and k == n and v is not None), failed(k - 1)]
                    if v is not None:
                        conj += [outcome[v] == 3] + [outcome[j] != 3 for j in range(v)]
                elif p.kind == "raise" and p.raised(e, "GuppyError"):
                    err = p.value.fields.get("error")
                    conj += [z3.BoolVal(k == n and isinstance(err, SObj) and err.fields.get("kind") == "OverloadNoMatchError"), failed(k - 1)]
                    if mode == "synthesize_call":
                        conj += [outcome[j] != 3 for j in range(n)]
                elif p.kind == "raise":
                    conj += [z3.BoolVal(p.raised(e, "KeyError")), outcome[k - 1] == 2]
                else:
                    return z3.BoolVal(False)
                return z3.And(*conj)
            chk.prove_paths(f"OverloadedFunctionDef.{mode}[{n}-variants]:first-accepting-variant-wins/\\later-ones-not-consulted/\\only-GuppyError-falls-through/\\each-attempt-sees-the-original-arguments(fresh-nodes,places-and-comptime-values-shared)",
                            paths, post, func=f"{MOD}:OverloadedFunctionDef.{mode}", replay=lambda m, mode=mode: {"script": REPLAY_INFER if mode == "synthesize_call" else REPLAY, "input": {}})
            chk.record(f"OverloadedFunctionDef.{mode}[{n}]:all-outcome-combinations-explored", len(paths) >= 2 * n + 1, f"{len(paths)} paths", kind="reachability")

    # ---- _Guppy.overload keeps the declaration order
    dm = e.module("guppylang.decorator")
    ov = None
    for c in ast.walk(dm.tree):
        if isinstance(c, ast.FunctionDef) and c.name == "overload":
            ov = c
    e.func_info("guppylang.decorator", "_Guppy.overload")
    src = ast.unparse(ov) if ov else ""
    chk.record("_Guppy.overload:func_ids-are-built-by-one-in-order-pass-over-the-decorator-arguments",
               ov is not None and "for func in funcs" in src and "func_ids.append" in src and "sorted" not in src and "reversed" not in src and "set(" not in src,
               "", func="guppylang.decorator:_Guppy.overload", backend="structural")
    # ---- the std overload sets list their variants in the documented order
    im = e.module("guppylang.std.iter")
    rng = im.find("range")
    order = [ast.unparse(a) for d in rng.decorator_list if isinstance(d, ast.Call) and ast.unparse(d.func) == "guppy.overload" for a in d.args]
    chk.record("std.iter.range:variants==[_range_comptime,_range1,_range2,_range3]", order == ["_range_comptime", "_range1", "_range2", "_range3"], str(order),
               func="guppylang.std.iter:range", backend="binding-table")
    chk.must_fail("twin:outcomes-are-free", [], z3.Int("outcome0") == 0)
    chk.expected_min_obligations = 25
    chk.assumptions += ["a variant's check_call/synthesize_call is abstracted to a symbolic outcome that may mutate the argument nodes it receives (as ExprChecker.check does through with_type)",
                        "variant lists of length 1..3 (the loop over func_ids is unrolled: a bound on the number of variants)",
                        "copy.copy of an AST node gives a new node with the same field values (pyvc model); places and comptime values behind argument nodes must be shared, which the obligation demands by identity"]
    chk.not_covered += ["that the callee's own check_call accepts exactly the signatures it should (C12/C16)", "compile-time dispatch (the call node is replaced by the chosen variant's node)"]
    # a variant is applicable only if the instantiation it needs respects the parameter bounds (shared with C12)
    from .C12 import args_list_untouched
    args_list_untouched(chk, tag="second-pass-resolves-afresh:")
    from .C12 import instantiation_checked
    instantiation_checked(chk, tag="variant-applicability:")
    chk.use_engine(e)
