"""C32 — Accepted syntax is never silently ignored.

Field-consumption obligations over the visitor methods that turn Python syntax into Guppy IR:
CFGBuilder / ExprBuilder / BranchBuilder (cfg/builder.py), StmtChecker (checker/stmt_checker.py),
ExprSynthesizer / ExprChecker (checker/expr_checker.py), check_signature and
parse_function_with_docstring (checker/func_checker.py).

For every `visit_<K>` and every field f of the Python node class K that can hold user syntax
(K._fields of the running CPython minus positions/ctx/type_comment), on every non-raising path f is
CONSUMED: read from the node (directly or by a match pattern), or the node is handed on whole to a
consumer whose own summary consumes f (a helper that receives it, the block statement list that
StmtChecker later walks, NodeTransformer.generic_visit which rebuilds every child, a constructor
that receives all fields), or every path of the method raises.  Clauses the language does not
support must additionally be *rejected when present*: a top-level `if` that tests the field and
raises.  Node kinds without a visitor fall to generic_visit, which must raise on every path.
The analysis is recomputed from the current source on every run (def-use on the real ASTs).
"""
import ast
import os

import z3

from pyvc import SObj, ClassVal, Builtin
from .common import mk_engine

TITLE = "every field of every handled syntax node is consumed or rejected; unsupported node kinds raise"
B = "guppylang_internals.cfg.builder"
SC = "guppylang_internals.checker.stmt_checker"
EC = "guppylang_internals.checker.expr_checker"
FC = "guppylang_internals.checker.func_checker"
EXEMPT = {"ctx", "type_comment", "lineno", "col_offset", "end_lineno", "end_col_offset", "kind", "type_params", "simple"}
# (class, node kind, field) that must be rejected when present
MUST_REJECT = [("CFGBuilder", "While", "orelse"), ("CFGBuilder", "For", "orelse"),
               ("ExprSynthesizer", "Call", "keywords"), ("ExprChecker", "Call", "keywords")]
SIG_REJECT = ["posonlyargs", "kwonlyargs", "vararg", "kwarg", "defaults"]

REPLAY = r'''
from guppylang import guppy
from guppylang_internals.error import GuppyError
import tempfile, importlib.util, os, sys, shutil
I = INPUT
src = "from guppylang import guppy\n" + I["program"]
d = tempfile.mkdtemp(dir=os.environ.get("TMPDIR", "/var/tmp")); fn = os.path.join(d, "replay_c32.py"); open(fn, "w").write(src)
spec = importlib.util.spec_from_file_location("replay_c32", fn); m = importlib.util.module_from_spec(spec); sys.modules["replay_c32"] = m
try:
    spec.loader.exec_module(m)
    try:
        m.main.check(); accepted = True; err = None
    except GuppyError as e:
        accepted = False; err = type(e.error).__name__
    out = {"violates": accepted, "accepted": accepted, "error": err, "note": "the clause has no effect in the compiled program, so acceptance means it was dropped"}
except Exception as ex:
    out = {"violates": False, "error": repr(ex)[:300]}
shutil.rmtree(d, ignore_errors=True)
print(json.dumps(out))
'''
PROGS = {
    ("CFGBuilder", "While", "orelse"): "@guppy\ndef main(n: int) -> int:\n    i = 0\n    while i < n:\n        i += 1\n    else:\n        i = 100\n    return i\n",
    ("CFGBuilder", "For", "orelse"): "@guppy\ndef main(n: int) -> int:\n    s = 0\n    for i in range(n):\n        s += i\n    else:\n        s = 100\n    return s\n",
    ("ExprSynthesizer", "Call", "keywords"): "@guppy\ndef f(x: int) -> int:\n    return x\n@guppy\ndef main() -> int:\n    return f(x=1)\n",
    ("CFGBuilder", "FunctionDef", "decorator_list"): "def deco(f):\n    return f\n@guppy\ndef main() -> int:\n    @deco\n    def g() -> int:\n        return 1\n    return g()\n",
}


class Src:
    def __init__(self, e, mod):
        self.m = e.module(mod)
        self.classes = {n.name: n for n in ast.walk(self.m.tree) if isinstance(n, ast.ClassDef)}
        self.funcs = {n.name: n for n in self.m.tree.body if isinstance(n, ast.FunctionDef)}

    def method(self, cls, name):
        c = self.classes.get(cls)
        if c is None:
            return None
        for f in c.body:
            if isinstance(f, ast.FunctionDef) and f.name == name:
                return f
        return None


def reads(fn, var, kind=None):
    """fields read on `var`, helper calls receiving `var` whole, whether var is returned / stored."""
    r, whole, flows = set(), [], set()
    # `K(f=var.f, ...)`: copying a field into a node constructor under the same name is not a use
    copies = set()
    for n in ast.walk(fn):
        if isinstance(n, ast.Call) and kind is not None and ast.unparse(n.func).split(".")[-1].endswith(kind):
            for k in n.keywords:
                if k.arg is not None and isinstance(k.value, ast.Attribute) and isinstance(k.value.value, ast.Name) \
                        and k.value.value.id == var and k.value.attr == k.arg:
                    copies.add(id(k.value))
    for n in ast.walk(fn):
        if isinstance(n, ast.Attribute) and isinstance(n.value, ast.Name) and n.value.id == var and id(n) not in copies:
            r.add(n.attr)
        if isinstance(n, ast.Call):
            for i, a in enumerate(n.args):
                if isinstance(a, ast.Name) and a.id == var:
                    whole.append((ast.unparse(n.func), i))
            for k in n.keywords:
                if isinstance(k.value, ast.Name) and k.value.id == var:
                    whole.append((ast.unparse(n.func), k.arg))
                if k.arg is None and ast.unparse(k.value) == f"dict(ast.iter_fields({var}))":
                    flows.add("all-fields->" + ast.unparse(n.func))
        if isinstance(n, ast.Return) and isinstance(n.value, ast.Name) and n.value.id == var:
            flows.add("returned")
        if isinstance(n, ast.Match) and isinstance(n.subject, ast.Name) and n.subject.id == var:
            for c in n.cases:
                for p in ast.walk(c.pattern):
                    if isinstance(p, ast.MatchClass):
                        r.update(p.kwd_attrs)
    return r, whole, flows


def always_raises(stmts):
    """every path through the statement list ends in `raise` (no normal return anywhere)"""
    def has_return(n):
        for c in ast.iter_child_nodes(n):
            if isinstance(c, (ast.FunctionDef, ast.Lambda, ast.ClassDef)):
                continue
            if isinstance(c, ast.Return) or has_return(c):
                return True
        return False
    if any(isinstance(st, ast.Return) or has_return(st) for st in stmts):
        return False

    def terminal(st):
        if isinstance(st, ast.Raise):
            return True
        if isinstance(st, ast.If):
            return bool(st.body) and terminal(st.body[-1]) and bool(st.orelse) and terminal(st.orelse[-1])
        return False
    return bool(stmts) and terminal(stmts[-1])


def rejects_when_present(fn, var, path):
    """a top-level `if` whose test mentions var.<path> and whose body always raises"""
    for st in fn.body:
        if isinstance(st, ast.If) and f"{var}.{path}" in ast.unparse(st.test) and always_raises(st.body):
            return True, st.lineno
    return False, None


def run(chk):
    e = mk_engine(chk)
    S = {k: Src(e, k) for k in (B, SC, EC, FC)}
    bsrc, ssrc, esrc, fsrc = S[B], S[SC], S[EC], S[FC]

    def fields(K):
        k = getattr(ast, K, None)
        return [f for f in k._fields if f not in EXEMPT] if k is not None else None

    def helper_reads(src, callee, pos, kind=None):
        """fields a helper reads on the parameter that receives the node"""
        name = callee.split(".")[-1]
        fn = None
        for s in (src, fsrc, bsrc, esrc):
            fn = s.funcs.get(name)
            if fn is None:
                for cname in s.classes:
                    fn = s.method(cname, name)
                    if fn is not None:
                        break
            if fn is not None:
                break
        if fn is None:
            return None, None
        params = [a.arg for a in fn.args.args]
        if params and params[0] in ("self", "cls"):
            params = params[1:]
        if isinstance(pos, int):
            if pos >= len(params):
                return None, None
            p = params[pos]
        else:
            p = pos
        return reads(fn, p, kind), fn

    def consumed(cls, src, fn, K, depth=0):
        """{field -> reason} for the fields of K consumed by visitor fn; None reason = not consumed"""
        var = fn.args.args[1].arg
        r, whole, flows = reads(fn, var, K)
        out = {}
        allraise = always_raises(fn.body)
        for f in fields(K):
            if allraise:
                out[f] = "every path raises"
            elif f in r:
                out[f] = "read"
            else:
                out[f] = None
        for callee, pos in whole:
            if callee.endswith("generic_visit") and cls == "ExprBuilder" and depth == 0:
                # the transformer rebuilds every child and the node itself flows on to the checker
                down = esrc.method("ExprSynthesizer", f"visit_{K}")
                d = consumed("ExprSynthesizer", esrc, down, K, 1) if down is not None else {f: "no checker visitor: ExprSynthesizer.generic_visit raises" for f in out}
                for f in out:
                    if out[f] is None and d.get(f):
                        out[f] = f"children rebuilt by NodeTransformer.generic_visit, then {d[f]} (ExprSynthesizer)"
                continue
            hr, hfn = helper_reads(src, callee, pos, K)
            if hr is None:
                continue
            hr_fields, hwhole, hflows = hr
            for f in out:
                if out[f] is None and f in hr_fields:
                    out[f] = f"read by helper {callee}"
            stores = any(isinstance(n, ast.Call) and ast.unparse(n.func).endswith("statements.append") for n in ast.walk(hfn))
            if stores:
                flows.add("stored-in-bb")
        if any(isinstance(n, ast.Call) and ast.unparse(n.func).endswith("statements.append") and n.args and isinstance(n.args[0], ast.Name) and n.args[0].id == var
               for n in ast.walk(fn)):
            flows.add("stored-in-bb")
        if "stored-in-bb" in flows and depth == 0:
            down = ssrc.method("StmtChecker", f"visit_{K}")
            if down is not None:
                d = consumed("StmtChecker", ssrc, down, K, 1)
                for f in out:
                    if out[f] is None and d.get(f):
                        out[f] = f"stored in the block, then {d[f]} in StmtChecker.visit_{K}"
        if "returned" in flows and depth == 0 and cls == "ExprBuilder":
            for down_cls in ("ExprSynthesizer",):
                down = esrc.method(down_cls, f"visit_{K}")
                if down is not None:
                    d = consumed(down_cls, esrc, down, K, 1)
                    for f in out:
                        if out[f] is None and d.get(f):
                            out[f] = f"node returned unchanged, then {d[f]} in {down_cls}.visit_{K}"
        for fl in flows:
            if fl.startswith("all-fields->"):
                tgt = fl.split("->")[1]
                # all fields copied into a new node: its consumer must read them
                cons = ssrc.method("StmtChecker", f"visit_{tgt}")
                rr = set()
                if cons is not None:
                    v2 = cons.args.args[1].arg
                    r2, w2, _ = reads(cons, v2, K)
                    rr |= r2
                    for callee, pos in w2:
                        hr, _ = helper_reads(ssrc, callee, pos, K)
                        if hr:
                            rr |= hr[0]
                for f in out:
                    if out[f] is None and f in rr:
                        out[f] = f"copied into {tgt}, read by its checker"
        return out

    total = 0
    for modname, src, classes in ((B, bsrc, ("CFGBuilder", "ExprBuilder", "BranchBuilder")), (SC, ssrc, ("StmtChecker",)), (EC, esrc, ("ExprSynthesizer", "ExprChecker"))):
        for cls in classes:
            c = src.classes.get(cls)
            if c is None:
                chk.record(f"{cls}:class-present", False, "class not found", func=f"{modname}:{cls}")
                continue
            for fn in c.body:
                if not (isinstance(fn, ast.FunctionDef) and fn.name.startswith("visit_")):
                    continue
                K = fn.name[6:]
                if fields(K) is None:
                    continue
                e.func_info(modname, f"{cls}.{fn.name}")
                d = consumed(cls, src, fn, K)
                for f, why in d.items():
                    total += 1
                    prog = PROGS.get((cls, K, f))
                    o = chk.record(f"{cls}.{fn.name}:field-{f}-consumed-or-rejected", why is not None, why or f"`{f}` of ast.{K} is never read, handed on or rejected",
                                   func=f"{modname}:{cls}.{fn.name}", backend="structural(def-use on the real AST)")
                    if why is None and prog:
                        o.replay = {"confirmed": False}
                        from pyvc.report import run_replay
                        res = run_replay(REPLAY, {"program": prog}, chk.repo)
                        o.replay = {"confirmed": bool(res.get("violates")), "script": REPLAY, "input": {"program": prog}, "native": res}
    # ---- clauses that must be rejected when present
    for cls, K, f in MUST_REJECT:
        src = bsrc if cls in ("CFGBuilder",) else esrc
        fn = src.method(cls, f"visit_{K}")
        ok, line = (False, None) if fn is None else rejects_when_present(fn, fn.args.args[1].arg, f)
        o = chk.record(f"{cls}.visit_{K}:{f}-rejected-when-present", ok, f"guard at line {line}" if ok else "no top-level `if node.%s...: raise`" % f,
                       func=f"{B if src is bsrc else EC}:{cls}.visit_{K}", backend="structural(dominating raise)")
        prog = PROGS.get((cls, K, f))
        if not ok and prog:
            from pyvc.report import run_replay
            res = run_replay(REPLAY, {"program": prog}, chk.repo)
            o.replay = {"confirmed": bool(res.get("violates")), "script": REPLAY, "input": {"program": prog}, "native": res}
    cs = fsrc.funcs.get("check_signature")
    e.func_info(FC, "check_signature")
    for f in SIG_REJECT:
        ok, line = (False, None) if cs is None else rejects_when_present(cs, cs.args.args[0].arg, f"args.{f}")
        chk.record(f"check_signature:parameter-kind-{f}-rejected-when-present", ok, f"guard at line {line}" if ok else "no guard", func=f"{FC}:check_signature",
                   backend="structural(dominating raise)")
    if cs is not None:
        r, _, _ = reads(cs, cs.args.args[0].arg)
        for f in ("args", "returns", "name"):
            chk.record(f"check_signature:FunctionDef.{f}-read", f in r, str(sorted(r)), func=f"{FC}:check_signature", backend="structural")

    # ---- node kinds without a visitor: generic_visit raises on every path
    for modname, src, cls in ((B, bsrc, "CFGBuilder"), (EC, esrc, "ExprSynthesizer")):
        g = src.method(cls, "generic_visit")
        chk.record(f"{cls}.generic_visit:raises-on-every-path(unsupported-syntax-is-an-error)", g is not None and always_raises(g.body),
                   "" if g is not None else "missing", func=f"{modname}:{cls}.generic_visit", backend="structural")
    handled = {fn.name[6:] for fn in bsrc.classes["CFGBuilder"].body if isinstance(fn, ast.FunctionDef) and fn.name.startswith("visit_")}
    stmt_kinds = sorted(n for n in dir(ast) if isinstance(getattr(ast, n), type) and issubclass(getattr(ast, n), ast.stmt) and n != "stmt")
    chk.notes.append(f"statement kinds dispatched to a CFGBuilder visitor: {sorted(handled & set(stmt_kinds))}; all others reach generic_visit: {sorted(set(stmt_kinds) - handled)}")

    # ---- AstVisitor.visit dispatches on the class name, else generic_visit (symbolic execution of the real method)
    from pyvc import SObj, ClassVal, Builtin
    e.func_info("guppylang_internals.ast_util", "AstVisitor.visit")
    for kind, has in (("Try", False), ("If", True)):
        def t(it, kind=kind, has=has):
            AV = it.lookup_global(e.module("guppylang_internals.ast_util"), "AstVisitor")
            log = []
            v = SObj(AV, {"generic_visit": Builtin("gv", lambda n, *a: log.append("generic") or "G")})
            if has:
                v.fields[f"visit_{kind}"] = Builtin("v", lambda n, *a: log.append("specific") or "S")
            node = SObj(ClassVal(kind), {})
            return it.call_method(v, "visit", [node, "BB", "JUMPS"]), log
        paths = e.explore(t)
        chk.prove_paths(f"AstVisitor.visit[{kind}]:visit_<ClassName>-if-defined-else-generic_visit", paths,
                        lambda p, has=has: z3.BoolVal(p.kind == "return" and p.value == (("S", ["specific"]) if has else ("G", ["generic"]))),
                        func="guppylang_internals.ast_util:AstVisitor.visit")
    chk.level = "other"  # structural def-use obligations on the real ASTs; no solver involved
    chk.expected_min_obligations = 80
    chk.assumptions += ["ast field lists come from the running CPython (3.11 for the checker, 3.12 in /venv: the statement/expression fields used here are identical)",
                        "`consumed` is a def-use notion: the field is read (or handed to a consumer that reads it); that the reader honours Python's meaning of the field is covered by the other properties",
                        "ast.NodeTransformer.generic_visit visits every child field (CPython)"]
    chk.not_covered += ["decorators/keywords of the outermost @guppy function are handled by the decorator itself", "comprehension internals (desugar_comprehension)"]
    comptime_call_shape(chk)
    expression_builder_keeps_operators(chk)
    expression_statements_kept(chk)
    with_modifier_keywords(chk)
    assignment_targets_built(chk)
    comprehension_clauses(chk)
    chk.use_engine(e)


CM_SNIPPET = '''
class _CM:
    def __init__(self, log, name):
        self.log = log
        self.name = name
    def __enter__(self):
        self.log.append(("enter", self.name))
        return None
    def __exit__(self, *a):
        self.log.append(("exit", self.name))
        return False

class _ExitStack:
    def __init__(self):
        self.cms = []
    def __enter__(self):
        return self
    def enter_context(self, cm):
        v = cm.__enter__()
        self.cms.append(cm)
        return v
    def __exit__(self, *a):
        while self.cms:
            self.cms.pop().__exit__(None, None, None)
        return False
'''


def comprehension_clauses(chk):
    """ExprCompiler._build_generators (compiler/expr_compiler.py), real code with recording context
    managers: for a comprehension with generators g0..gk the loops are entered outermost first and
    EVERY `if` clause of EVERY generator is entered, in source order, inside the loop of its own
    generator and before the next generator's iterator is built — no clause is dropped, whichever
    position its generator has.  (1..3 generators with 0..2 guards each.)"""
    import itertools
    EC = "guppylang_internals.compiler.expr_compiler"
    e = mk_engine(chk)
    e.func_info(EC, "ExprCompiler._build_generators")
    m = e.module(EC)
    n_ok = 0
    for guards in [g for k in (1, 2, 3) for g in itertools.product((0, 1, 2), repeat=k)]:
        def t(it, guards=guards):
            ns = it.exec_snippet(m, CM_SNIPPET)
            CM, ES = ns["_CM"], ns["_ExitStack"]
            log = []
            e.ext_models["contextlib.ExitStack"] = lambda it2, a, k: it.call(ES, [], {})
            comp = SObj(ClassVal("StmtCompiler", builtin=True), {"dfg": None})
            comp.fields["compile_stmts"] = Builtin("compile_stmts", lambda stmts, dfg: log.append(("iter-assign", stmts[0])))
            comp.fields["_assign"] = Builtin("_assign", lambda tgt, w: log.append(("bind-target", tgt)))
            e.models["guppylang_internals.compiler.stmt_compiler:StmtCompiler"] = lambda it2, a, k: comp
            e.models["guppylang_internals.ast_util:get_type"] = lambda it2, a, k: SObj(ClassVal("Ty", builtin=True), {"to_hugr": Builtin("to_hugr", lambda c: "H")})
            e.models["guppylang_internals.tys.builtin:bool_type"] = lambda it2, a, k: "bool"
            e.ext_models["hugr.tys.Either"] = lambda it2, a, k: "EITHER"
            e.ext_models["hugr.ops.Tag"] = lambda it2, a, k: ("Tag", a[0])
            e.ext_models["hugr.ops.UnpackTuple"] = lambda it2, a, k: "UnpackTuple"
            it.ctx.mod_globals(m)["tmp_vars"] = [f"%tmp{i}" for i in range(50)]
            ECc = it.lookup_global(m, "ExprCompiler")
            PN = it.lookup_global(e.module("guppylang_internals.nodes"), "PlaceNode")
            TT = it.lookup_global(e.module("guppylang_internals.tys.ty"), "TupleType")
            it.ctx.mod_globals(m)["TupleType"] = Builtin("TupleType", lambda xs: ("tuple-ty", tuple(xs)))
            builder = SObj(ClassVal("Builder", builtin=True), {"add_op": Builtin("add_op", lambda op, *w: ("e", "i") if op == "UnpackTuple" else ("wire", op))})
            dfg = it.exec_snippet(e.module(EC), "class _D:\n    def __init__(self, b):\n        self.builder = b\n        self.m = {}\n    def __getitem__(self, k):\n        return ('wire-of', k)\n    def __setitem__(self, k, v):\n        pass\nd = _D(b)\n", {"b": builder})["d"]
            self_ = SObj(ECc, {"ctx": None, "dfg": dfg})
            self_.fields["_new_loop"] = Builtin("_new_loop", lambda just, inputs, bp: it.call(CM, [log, ("loop", just[0].fields["gen"])], {}))
            self_.fields["_if_else"] = Builtin("_if_else", lambda cond, inputs, **k: (it.call(CM, [log, ("has-next", cond)], {}), it.call(CM, [log, ("stop", cond)], {})))
            self_.fields["_if_true"] = Builtin("_if_true", lambda cond, inputs: it.call(CM, [log, ("guard", cond)], {}))
            gens = []
            for gi, ng in enumerate(guards):
                itp = SObj(PN, {"place": f"iter{gi}", "gen": gi})
                gens.append(SObj(ClassVal("DesugaredGenerator", builtin=True), {"iter_assign": f"iter-assign{gi}", "iter": itp, "target": f"target{gi}", "next_call": f"next{gi}",
                                                                                 "used_outer_places": [], "ifs": [f"g{gi}.if{j}" for j in range(ng)]}))
            it.exec_snippet(m, "with self_._build_generators(gens, []):\n    log.append('BODY')\n", {"self_": self_, "gens": gens, "log": log})
            return log

        def post(p, guards=guards):
            if p.kind != "return":
                return z3.BoolVal(False)
            log = p.value
            body = log.index("BODY") if "BODY" in log else None
            if body is None:
                return z3.BoolVal(False)
            before = [x for x in log[:body] if isinstance(x, tuple) and x[0] == "enter" and x[1][0] in ("loop", "guard")] + [x for x in log[:body] if isinstance(x, tuple) and x[0] == "iter-assign"]
            seq = [x for x in log[:body] if (isinstance(x, tuple) and ((x[0] == "enter" and x[1][0] in ("loop", "guard")) or x[0] == "iter-assign"))]
            want = []
            for gi, ng in enumerate(guards):
                want += [("iter-assign", f"iter-assign{gi}"), ("enter", ("loop", gi))] + [("enter", ("guard", f"g{gi}.if{j}")) for j in range(ng)]
            exits = [x[1] for x in log[body:] if isinstance(x, tuple) and x[0] == "exit" and x[1][0] in ("loop", "guard")]
            entered = [x[1] for x in seq if x[0] == "enter"]
            return z3.BoolVal(seq == want and exits == list(reversed(entered)))
        chk.prove_paths(f"ExprCompiler._build_generators[guards-per-generator={list(guards)}]:every-if-clause-of-every-generator-is-entered-inside-its-own-loop-in-source-order", e.explore(t), post,
                        func=f"{EC}:ExprCompiler._build_generators")
        n_ok += 1
    chk.record("_build_generators:shapes-explored", n_ok >= 30, str(n_ok), kind="reachability")
    for k in ("guppylang_internals.compiler.stmt_compiler:StmtCompiler", "guppylang_internals.ast_util:get_type", "guppylang_internals.tys.builtin:bool_type"):
        e.models.pop(k, None)
    chk.use_engine(e)

REPLAY_BARE = r'''
import tempfile, importlib.util, os, sys, shutil
from guppylang_internals.error import GuppyError
src = """from guppylang import guppy
from guppylang.std.builtins import owned
from guppylang.std.quantum import qubit, discard
@guppy
def bare_undefined(x: int) -> int:
    undefined_name
    return x
@guppy
def bare_maybe_undefined(b: bool) -> int:
    if b:
        y = 1
    y
    return 0
@guppy
def bare_after_move(q: qubit @owned) -> None:
    discard(q)
    q
@guppy
def bare_defined(x: int) -> int:
    x
    return x
"""
d = tempfile.mkdtemp(dir=os.environ.get("TMPDIR", "/var/tmp")); fn = os.path.join(d, "replay_c32b.py"); open(fn, "w").write(src)
spec = importlib.util.spec_from_file_location("replay_c32b", fn); m = importlib.util.module_from_spec(spec); sys.modules["replay_c32b"] = m
spec.loader.exec_module(m)
res = {}
for name in ("bare_undefined", "bare_maybe_undefined", "bare_after_move", "bare_defined"):
    try:
        getattr(m, name).check(); res[name] = "accepted"
    except GuppyError as ex:
        res[name] = "rejected:" + type(ex.error).__name__
shutil.rmtree(d, ignore_errors=True)
bad = [k for k in ("bare_undefined", "bare_maybe_undefined", "bare_after_move") if res[k] == "accepted"] + ([] if res["bare_defined"] == "accepted" else ["bare_defined"])
print(json.dumps({"violates": bool(bad), "observed": res, "required": "an expression statement consisting of a name is checked like any other read: undefined / possibly undefined / already moved names are rejected"}))
'''

REPLAY_WITH_KW = r'''
import tempfile, importlib.util, os, sys, shutil
import guppylang
guppylang.enable_experimental_features()
from guppylang_internals.error import GuppyError
src = """from guppylang import guppy
from guppylang.std.quantum import qubit, h, x
dagger = object(); control = object(); power = object()
@guppy
def f_dagger(q: qubit) -> None:
    with dagger(foo=1):
        h(q)
@guppy
def f_control(q: qubit, c: qubit) -> None:
    with control(c, foo=1):
        x(q)
@guppy
def f_power(q: qubit) -> None:
    with power(2, foo=1):
        x(q)
"""
d = tempfile.mkdtemp(dir=os.environ.get("TMPDIR", "/var/tmp")); fn = os.path.join(d, "replay_c32w.py"); open(fn, "w").write(src)
spec = importlib.util.spec_from_file_location("replay_c32w", fn); m = importlib.util.module_from_spec(spec); sys.modules["replay_c32w"] = m
spec.loader.exec_module(m)
res = {}
for name in ("f_dagger", "f_control", "f_power"):
    try:
        getattr(m, name).check(); res[name] = "accepted"
    except GuppyError as ex:
        res[name] = "rejected:" + type(ex.error).__name__
shutil.rmtree(d, ignore_errors=True)
print(json.dumps({"violates": any(v == "accepted" for v in res.values()), "observed": res, "required": "a keyword argument of a with-block modifier is rejected, not dropped"}))
'''


def with_modifier_keywords(chk):
    """CFGBuilder._handle_withitem (cfg/builder.py): the modifier of a `with` block is built from the
    POSITIONAL arguments of dagger(...) / control(...) / power(...); a keyword argument therefore has to be
    rejected (it would otherwise vanish), and so has an `as` clause."""
    from . import C03 as C3
    from .common import ast_from_source
    BM = "guppylang_internals.cfg.builder"
    e = C3.cfg_engine(chk)
    e.func_info(BM, "CFGBuilder._handle_withitem")
    e.models["guppylang_internals.checker.errors.generic:UnsupportedError"] = lambda it, a, k: SObj(ClassVal("Diag"), {"kind": "UnsupportedError", "args": tuple(a)})
    e.models["guppylang_internals.span:to_span"] = lambda it, a, k: SObj(ClassVal("SpanStub", builtin=True), {"start": ("start", a[0]), "end": ("end", a[0])})
    CASES = [("dagger(foo=1)", True), ("control(c, foo=1)", True), ("power(2, foo=1)", True), ("control(c, d, k=e)", True), ("power(n, **kw)", True),
             ("dagger", False), ("dagger()", False), ("control(c)", False), ("control(c, d)", False), ("power(2)", False)]
    for src, must in CASES:
        def t(it, src=src):
            m = e.module(BM)
            CB = it.lookup_global(m, "CFGBuilder")
            w = ast_from_source(it, f"with {src}:\n    pass\n").fields["body"][0]
            return it.call_method(it.call(CB, [], {}), "_handle_withitem", [w.fields["items"][0]])

        def post(p, must=must):
            if must:
                ok = p.kind == "raise" and p.raised(e, "GuppyError") and getattr(p.value.fields.get("error"), "fields", {}).get("kind") == "UnsupportedError"
                return z3.BoolVal(bool(ok))
            return z3.BoolVal(p.kind == "return" and isinstance(p.value, SObj) and p.value.cls.name in ("Dagger", "Control", "Power"))
        chk.prove_paths(f"_handle_withitem[with {src}]:{'keyword-argument-rejected-as-unsupported' if must else 'modifier-built'}", e.explore(t), post, func=f"{BM}:CFGBuilder._handle_withitem",
                        replay=(lambda m_: {"script": REPLAY_WITH_KW, "input": {}}) if must else None)
    chk.use_engine(e)

REPLAY_TARGETS = r'''
import guppy_plainbool
import tempfile, importlib.util, os, sys, shutil
from guppylang_internals.error import GuppyError
src = """from guppylang import guppy
from guppylang.std.builtins import array, result
@guppy
def cond_index(c: bool) -> int:
    xs = array(1, 2, 3)
    xs[1 if c else 0] = 7
    return xs[0] * 100 + xs[1] * 10 + xs[2]
@guppy
def bool_index(a: bool, b: bool) -> int:
    xs = array(1, 2, 3)
    xs[int(a and b)] = 7
    return xs[0] * 100 + xs[1] * 10 + xs[2]
@guppy
def walrus_index() -> int:
    xs = array(1, 2, 3)
    xs[(j := 1)] = 7
    return xs[j] * 10 + j
@guppy
def two_targets(c: bool) -> int:
    xs = array(1, 2, 3); ys = array(4, 5)
    xs[2 if c else 1], ys[0 if c else 1] = 8, 9
    return xs[1] * 1000 + xs[2] * 100 + ys[0] * 10 + ys[1]
@guppy
def int_min_index() -> None:
    xs = array(1, 2, 3)
    xs[-9223372036854775808] = 1
@guppy
def main() -> None:
    result("r", cond_index(True)); result("r", cond_index(False)); result("r", bool_index(True, True)); result("r", walrus_index()); result("r", two_targets(True)); result("r", two_targets(False))
"""
d = tempfile.mkdtemp(dir=os.environ.get("TMPDIR", "/var/tmp")); fn = os.path.join(d, "replay_c32t.py"); open(fn, "w").write(src)
spec = importlib.util.spec_from_file_location("replay_c32t", fn); m = importlib.util.module_from_spec(spec); sys.modules["replay_c32t"] = m
spec.loader.exec_module(m)
res = {}
for name in ("cond_index", "bool_index", "walrus_index", "two_targets", "int_min_index"):
    try:
        getattr(m, name).check(); res[name] = "accepted"
    except GuppyError as ex:
        res[name] = "rejected:" + type(ex.error).__name__
    except Exception as ex:
        res[name] = "crash:" + type(ex).__name__
vals = None
if all(v == "accepted" for v in res.values()):
    vals = [int(v) for t, v in list(m.main.emulator(n_qubits=1).run().results)[0].entries]
shutil.rmtree(d, ignore_errors=True)
want = [173, 723, 173, 71, 2895, 8349]
print(json.dumps({"violates": vals != want, "observed": {"check": res, "values": vals}, "required": {"values": want}}))
'''


def assignment_targets_built(chk):
    """CFGBuilder.visit_Assign / _build_target (cfg/builder.py): the index expressions of an assignment target are
    expressions like any other — after CFG construction no basic block holds a conditional, boolean or
    assignment expression (the checker has no rule for them: InternalGuppyError), negative literals in them are
    folded, and every name they bind is bound in a block that precedes the assignment."""
    from . import C03 as C3
    from .common import ast_from_source
    BM = "guppylang_internals.cfg.builder"
    e = C3.cfg_engine(chk)
    e.func_info(BM, "CFGBuilder.visit_Assign")
    try:
        e.func_info(BM, "CFGBuilder._build_target")
    except KeyError:
        pass
    STMTS = ["xs[1 if c else 0] = 7", "xs[int(a and b)] = 7", "xs[(j := 1)] = 7", "xs[-9223372036854775808] = 1", "xs[2 if c else 1], ys[0 if c else 1] = 8, 9", "s.f[0 if c else 1] = 2",
             "m[1 if c else 0][i] = 3", "m[i][0 if c else 1] = 3", "xs[not c] = 1", "xs[i] = 7", "[xs[0 if c else 1], y] = t", "xs[0 if c else 1], *r = t", "xs[i if c else j] = (1 if c else 2)"]
    BANNED = {"IfExp", "BoolOp", "NamedExpr", "ListComp"}
    for st in STMTS:
        def t(it, st=st):
            m = e.module(BM)
            it.ctx.mod_globals(m)["tmp_vars"] = [f"%tmp{k}" for k in range(50)]
            CB = it.lookup_global(m, "CFGBuilder")
            fd = ast_from_source(it, f"def fn():\n    {st}\n").fields["body"][0]
            return it.call_method(it.call(CB, [], {}), "build", [fd.fields["body"], True, SObj(ClassVal("Globals", builtin=True), {})])
        paths = e.explore(t)

        def post(p, st=st):
            if p.kind != "return":
                return z3.BoolVal(False)
            stmts = [C3.to_real_ext(s_) for bb in p.value.fields["bbs"] for s_ in bb.fields["statements"]]
            preds = [C3.to_real_ext(bb.fields["branch_pred"]) for bb in p.value.fields["bbs"] if bb.fields.get("branch_pred") is not None]
            bad = [type(n).__name__ for s_ in stmts + preds for n in ast.walk(s_) if type(n).__name__ in BANNED]
            unfolded = [1 for s_ in stmts for n in ast.walk(s_) if isinstance(n, ast.UnaryOp) and isinstance(n.op, ast.USub) and isinstance(n.operand, ast.Constant)]
            # the assignment itself is still there, once, with its targets in the written order
            assigns = [s_ for s_ in stmts if isinstance(s_, ast.Assign) and any(isinstance(n, ast.Subscript) for tg in s_.targets for n in ast.walk(tg))]
            return z3.BoolVal(not bad and not unfolded and len(assigns) == 1)
        chk.prove_paths(f"visit_Assign[{st}]:no-control-flow-expression-left-in-a-block/\\negative-literals-folded/\\the-assignment-reaches-a-block-once", paths, post, func=f"{BM}:CFGBuilder.visit_Assign",
                        replay=lambda m_: {"script": REPLAY_TARGETS, "input": {}})
    chk.use_engine(e)


def expression_statements_kept(chk):
    """CFGBuilder.visit_Expr (cfg/builder.py): an expression statement reaches its basic block as written —
    name resolution, definite assignment and linearity see it — unless what is left of it is a GENERATED
    temporary (the value of a lifted conditional expression, which is deliberately not type-checked).  In
    particular a statement that is a bare user variable is a read of that variable."""
    from . import C03 as C3
    from .common import ast_from_source
    BM = "guppylang_internals.cfg.builder"
    e = C3.cfg_engine(chk)
    e.func_info(BM, "CFGBuilder.visit_Expr")
    STMTS = ["x", "undefined_name", "_", "tmp0", "f(x)", "s.a", "xs[i]", "(x, y)", "1", "x + y", "-x", "x.f(y)", "None", "[x, y]"]
    n = 0
    for ex in STMTS:
        def t(it, ex=ex):
            m = e.module(BM)
            it.ctx.mod_globals(m)["tmp_vars"] = [f"%tmp{k}" for k in range(50)]
            CB = it.lookup_global(m, "CFGBuilder")
            fd = ast_from_source(it, f"def fn():\n    {ex}\n").fields["body"][0]
            return it.call_method(it.call(CB, [], {}), "build", [fd.fields["body"], True, SObj(ClassVal("Globals", builtin=True), {})])
        paths = e.explore(t)

        def post(p, ex=ex):
            if p.kind != "return":
                return z3.BoolVal(False)
            stmts = [C3.to_real_ext(st) for bb in p.value.fields["bbs"] for st in bb.fields["statements"]]
            return z3.BoolVal(len(stmts) == 1 and ast.unparse(stmts[0]) == ast.unparse(ast.parse(ex)))
        chk.prove_paths(f"visit_Expr[{ex}]:the-expression-statement-reaches-its-block-as-written", paths, post, func=f"{BM}:CFGBuilder.visit_Expr",
                        replay=lambda m_: {"script": REPLAY_BARE, "input": {}})
        n += 1
    # the one exception: the generated temporary of a lifted conditional expression
    def t_tmp(it):
        m = e.module(BM)
        it.ctx.mod_globals(m)["tmp_vars"] = [f"%tmp{k}" for k in range(50)]
        CB = it.lookup_global(m, "CFGBuilder")
        fd = ast_from_source(it, "def fn():\n    1 if c else 2.5\n").fields["body"][0]
        return it.call_method(it.call(CB, [], {}), "build", [fd.fields["body"], True, SObj(ClassVal("Globals", builtin=True), {})])

    def post_tmp(p):
        if p.kind != "return":
            return z3.BoolVal(False)
        stmts = [ast.unparse(C3.to_real_ext(st)) for bb in p.value.fields["bbs"] for st in bb.fields["statements"]]
        return z3.BoolVal(sorted(stmts) == ["%tmp0 = 1", "%tmp0 = 2.5"])
    chk.prove_paths("visit_Expr[1 if c else 2.5]:both-arms-are-evaluated-into-the-temporary/\\the-bare-temporary-is-not-a-statement", e.explore(t_tmp), post_tmp, func=f"{BM}:CFGBuilder.visit_Expr")
    chk.record("visit_Expr:statements-explored", n >= 12, str(n), kind="reachability")
    chk.use_engine(e)


def expression_builder_keeps_operators(chk):
    """ExprBuilder (cfg/builder.py) rewrites expressions on their way into the basic blocks (it lifts
    branching sub-expressions and folds a minus sign into a numeric literal).  For an expression WITHOUT
    branching constructs it must hand the type checker the expression that was written: the statement
    that reaches the block, unparsed, is the source statement, unparsed — no operator, operand, keyword
    or subscript vanishes on the way (a dropped unary `+` would never be looked up as `__pos__`, nor
    rejected where the operand has none)."""
    from . import C03 as C3
    from .common import ast_from_source
    BM = "guppylang_internals.cfg.builder"
    e = C3.cfg_engine(chk)
    for q in ("ExprBuilder.visit_UnaryOp", "ExprBuilder.generic_visit", "ExprBuilder.build"):
        try:
            e.func_info(BM, q)
        except KeyError:
            pass
    OPERANDS = ["x", "f(x)", "s.a", "xs[i]", "(x, y)", "1", "2.5", "True", "'t'", "None", "x + y", "-x"]
    # (`-True` is left out: the fold of a minus sign into a numeric literal also fires for it and gives -1,
    # which is Python's value of -True)
    EXPRS = [f"{op}{o}" for op in ("+", "-", "~", "not ") for o in OPERANDS if (op, o) != ("-", "True")] + ["+(+x)", "-(+1)", "+(-1)", "-(-1)", "- 1", "+ 1", "~1", "not 1", "x + -1", "f(+x, k=-y)", "xs[+i]", "(+x, -y)", "[+x]",
                                                                                "x ** -y", "+x * y", "x @ y", "x // -2", "x if False else 1"][:-1]
    n = 0
    for ex in EXPRS:
        def t(it, ex=ex):
            m = e.module(BM)
            it.ctx.mod_globals(m)["tmp_vars"] = [f"%tmp{k}" for k in range(50)]
            CB = it.lookup_global(m, "CFGBuilder")
            fd = ast_from_source(it, f"def fn():\n    r = {ex}\n").fields["body"][0]
            return it.call_method(it.call(CB, [], {}), "build", [fd.fields["body"], True, SObj(ClassVal("Globals", builtin=True), {})])
        paths = e.explore(t)

        def post(p, ex=ex):
            if p.kind != "return":
                return z3.BoolVal(False)
            stmts = [C3.to_real_ext(st) for bb in p.value.fields["bbs"] for st in bb.fields["statements"]]
            want = ast.unparse(ast.parse(f"r = {ex}"))
            return z3.BoolVal(len(stmts) == 1 and ast.unparse(stmts[0]) == want)
        chk.prove_paths(f"ExprBuilder[r = {ex}]:the-statement-that-reaches-the-block-is-the-statement-written(no-operator-dropped)", paths, post, func=f"{BM}:ExprBuilder.visit_UnaryOp",
                        replay=lambda m_: {"script": REPLAY_UPLUS, "input": {}})
        n += 1
    chk.record("ExprBuilder:expressions-explored", n >= 60, str(n), kind="reachability")
    chk.use_engine(e)


REPLAY_UPLUS = r'''
import tempfile, importlib.util, os, sys, shutil
from guppylang_internals.error import GuppyError
src = """from guppylang import guppy
@guppy
def plus_bool(b: bool) -> bool:
    return +b
@guppy
def plus_tuple(t: tuple[int, int]) -> tuple[int, int]:
    return +t
@guppy
def plus_int(x: int) -> int:
    return +x
"""
d = tempfile.mkdtemp(dir=os.environ.get("TMPDIR", "/var/tmp")); fn = os.path.join(d, "replay_c32u.py"); open(fn, "w").write(src)
spec = importlib.util.spec_from_file_location("replay_c32u", fn); m = importlib.util.module_from_spec(spec); sys.modules["replay_c32u"] = m
try:
    spec.loader.exec_module(m)
    res = {}
    for name in ("plus_bool", "plus_tuple", "plus_int"):
        try:
            getattr(m, name).check(); res[name] = "accepted"
        except GuppyError as ex:
            res[name] = "rejected:" + type(ex.error).__name__
    out = {"violates": res["plus_bool"] == "accepted" or res["plus_tuple"] == "accepted" or res["plus_int"] != "accepted", "observed": res,
           "required": "unary plus on a bool or a tuple has no __pos__: it must be rejected, not dropped; +x on an int is accepted"}
except Exception as ex:
    out = {"violates": False, "error": repr(ex)[:300]}
shutil.rmtree(d, ignore_errors=True)
print(json.dumps(out))
'''


def comptime_call_shape(chk):
    """is_comptime_expression (cfg/builder.py): a call to comptime / py becomes a ComptimeExpr of its single
    argument (of the tuple of its arguments when there are several); no argument is an error; and a
    KEYWORD argument, which the expression has no use for, is an 'unsupported' error — not ignored.  Any
    other call is not a comptime expression."""
    from .common import ast_from_source
    BM = "guppylang_internals.cfg.builder"
    e = mk_engine(chk)
    e.func_info(BM, "is_comptime_expression")
    m = e.module(BM)
    e.models["guppylang_internals.checker.errors.generic:UnsupportedError"] = lambda it, a, k: SObj(ClassVal("Diag", builtin=True), {"kind": "UnsupportedError", "args": tuple(a)})
    e.models[f"{BM}:EmptyComptimeExprError"] = lambda it, a, k: SObj(ClassVal("Diag", builtin=True), {"kind": "EmptyComptimeExprError", "args": tuple(a)})
    CASES = [("comptime(x)", "expr:x"), ("py(x + 1)", "expr:x + 1"), ("comptime(a, b)", "expr:(a, b)"), ("comptime()", "raise:EmptyComptimeExprError"), ("comptime(x, base=3)", "raise:UnsupportedError"),
             ("py(x, k=1)", "raise:UnsupportedError"), ("comptime(k=1)", "raise"), ("comptime(a, b, k=2)", "raise:UnsupportedError"), ("f(x, k=1)", "none"), ("o.comptime(x)", "none"), ("x + 1", "none")]
    for src, want in CASES:
        def t(it, src=src):
            node = ast_from_source(it, src, mode="eval").fields["body"]
            return it.call(it.lookup_global(m, "is_comptime_expression"), [node], {})
        paths = e.explore(t)

        def post(p, want=want):
            from . import C03 as C3
            if want.startswith("raise"):
                if p.kind != "raise" or not p.raised(e, "GuppyError"):
                    return z3.BoolVal(False)
                err = p.value.fields.get("error")
                kind = err.fields.get("kind") if isinstance(err, SObj) else None
                return z3.BoolVal(want == "raise" or kind == want.split(":")[1])
            if p.kind != "return":
                return z3.BoolVal(False)
            if want == "none":
                return z3.BoolVal(p.value is None)
            r = p.value
            ok = isinstance(r, SObj) and r.cls.name == "ComptimeExpr" and ast.unparse(C3.to_real_ext(r.fields["value"])) == ast.unparse(ast.parse(want[5:], mode="eval").body)
            return z3.BoolVal(bool(ok))
        chk.prove_paths(f"is_comptime_expression[{src}]:{want}", paths, post, func=f"{BM}:is_comptime_expression", replay=lambda m_: {"script": REPLAY_CKW, "input": {}})
    chk.use_engine(e)


REPLAY_CKW = r'''
import tempfile, importlib.util, os, sys, shutil
from guppylang_internals.error import GuppyError
src = """from guppylang import guppy
from guppylang.std.builtins import comptime
@guppy
def a() -> int:
    return comptime(1 + 2, base=3)
"""
d = tempfile.mkdtemp(dir=os.environ.get("TMPDIR", "/var/tmp")); fn = os.path.join(d, "replay_c32k.py"); open(fn, "w").write(src)
spec = importlib.util.spec_from_file_location("replay_c32k", fn); m = importlib.util.module_from_spec(spec); sys.modules["replay_c32k"] = m
try:
    spec.loader.exec_module(m)
    try:
        m.a.check(); out = {"violates": True, "observed": "accepted", "required": "comptime(1 + 2, base=3): the keyword argument must be rejected, not ignored"}
    except GuppyError as ex:
        out = {"violates": False, "observed": "rejected: " + type(ex.error).__name__}
except Exception as ex:
    out = {"violates": False, "error": repr(ex)[:300]}
shutil.rmtree(d, ignore_errors=True)
print(json.dumps(out))
'''
