"""C12 — Type inference finds an instantiation exactly when one exists.

Functions under contract (tys/ty.py): unify, _unify_var, _unify_args.

Local obligations, proved on the real code with pyvc:
  U1  _unify_args(s, t, subst) for argument lists of length 0..3 over {type, const} arguments: the
      arguments are unified pairwise left to right, each step starting from the substitution the
      previous step returned; the result is None iff the lengths differ, some pair mixes a type
      with a constant, or some step fails — and nothing after the first failure is attempted.
  U2  unify's constructor table: two leaves unify iff same constructor and equal payload, leaving
      the substitution unchanged (same object); different constructors -> None; a None
      substitution is propagated; parametrised types of the same constructor / definition
      delegate to _unify_args; function types additionally need equal parameter lists, equal
      arity and agreeing ownership flags on inputs that are not copyable on both sides.
  U3  _unify_var: a solved variable is replaced by its solution; an unsolved one is bound to the
      other side with already-solved variables resolved, unless it occurs in it (None); every
      other entry of the substitution is kept.
The global statement (exactly when a unifier exists, most general, terminating) needs induction
over triangular substitutions and is decided by the BOUNDED layer: the real unify against a
textbook unifier on an independent term representation, all pairs of a type pool
(contracts/C12_oracle.py).
"""
import itertools
import json
import z3

from pyvc import SObj, ClassVal, Builtin, PyRaise
from .common import mk_engine
from .C13 import K
from .C12_oracle import ORACLE, DRIVER, REPLAY_ONE, REPLAY_CYCLE, REPLAY_IDEM

TITLE = "unify: constructor table, pairwise left-to-right argument unification, occurs check modulo the substitution; real unify == reference unifier on a type pool (bounded)"
TY = "guppylang_internals.tys.ty"
NCH = 16


def run(chk):
    chk.section("unify_args", lambda: u1(chk))
    chk.section("constructor-table", lambda: u2(chk))
    chk.section("unify_var", lambda: u3(chk))
    chk.section("threading", lambda: u4(chk))
    for i in range(NCH):
        chk.section(f"bounded-{i}", lambda i=i: bounded(chk, i))
    chk.expected_min_obligations = 60
    chk.assumptions += ["kind constraints of inference variables (copyable / droppable) are enforced after unification by Parameter.check_arg, not by unify: the bounded layer uses variables of the most general kind",
                        "argument lists of length <= 3 are enumerated in U1"]
    chk.not_covered += ["check_type_against / synthesize_call beyond the threading of the substitution through arguments and tuple / list components (U4)", "protocol-constrained variables (not in this version)"]


def u1(chk):
    e = mk_engine(chk)
    e.func_info(TY, "_unify_args")
    m = e.module(TY)
    cnt = 0
    for n, k in itertools.product(range(4), repeat=2):
        kinds_list = [()] if max(n, k) == 0 else None
        for ks in itertools.product("TC", repeat=n):
            for kt in (itertools.product("TC", repeat=k) if k != n else [ks, tuple("C" if x == "T" else "T" for x in ks)] if n else [()]):
                outcome = [z3.Bool(f"step{i}_ok") for i in range(min(n, k))]

                def t(it, ks=ks, kt=kt, outcome=outcome):
                    kk = K(e, it)
                    f = it.lookup_global(m, "_unify_args")
                    log = []

                    def mk(kind, side, i):
                        payload = SObj(ClassVal("Payload", builtin=True), {"side": side, "i": i})
                        return kk.call(kk.TA, payload) if kind == "T" else kk.call(kk.CA, payload)

                    def unify_model(it2, a, kw):
                        x, y, sub = a
                        i = x.fields["i"]
                        log.append((x.fields["side"], x.fields["i"], y.fields["side"], y.fields["i"], sub))
                        if it.ctx.branch(outcome[i]):
                            return ("subst", i)
                        return None
                    e.models[f"{TY}:unify"] = unify_model
                    s = SObj(ClassVal("P", builtin=True), {"args": [mk(kd, "s", i) for i, kd in enumerate(ks)]})
                    tt = SObj(ClassVal("P", builtin=True), {"args": [mk(kd, "t", i) for i, kd in enumerate(kt)]})
                    return it.call(f, [s, tt, ("subst", "init")], {}), log
                paths = e.explore(t)

                def post(p, ks=ks, kt=kt, outcome=outcome):
                    if p.kind != "return":
                        return z3.BoolVal(False)
                    res, log = p.value
                    if len(ks) != len(kt):
                        return z3.BoolVal(res is None and log == [])
                    conj = []
                    expect_sub = ("subst", "init")
                    for i, (a, b) in enumerate(zip(ks, kt)):
                        if a != b:
                            # a type against a constant: failure here, nothing attempted afterwards
                            conj.append(z3.BoolVal(res is None and len(log) == i))
                            return z3.And(*conj, *[outcome[j] for j in range(i)])
                        if i < len(log):
                            conj.append(z3.BoolVal(log[i] == ("s", i, "t", i, expect_sub)))
                            expect_sub = ("subst", i)
                    if res is None:
                        k_ = len(log)
                        conj.append(z3.And(*[outcome[j] for j in range(k_ - 1)], z3.Not(outcome[k_ - 1])) if k_ else z3.BoolVal(False))
                    else:
                        conj.append(z3.BoolVal(len(log) == len(ks) and res == (("subst", len(ks) - 1) if ks else ("subst", "init"))))
                        conj.append(z3.And(*outcome) if outcome else z3.BoolVal(True))
                    return z3.And(*conj)
                chk.prove_paths(f"_unify_args[{''.join(ks) or '-'}~{''.join(kt) or '-'}]:pairwise-left-to-right-threading-the-substitution/\\None-iff-length/kind-mismatch-or-a-failing-step/\\stops-at-the-first-failure",
                                paths, post, func=f"{TY}:_unify_args")
                cnt += 1
    chk.record("_unify_args:shapes-explored", cnt >= 40, str(cnt), kind="reachability")
    chk.use_engine(e)


def array_literal_threading(chk, e, mk_ty=None, expected_checks=None, tag=""):
    """NewArrayChecker.check (shared with C16: a later element must be checked — and coerced — against
    the element type the earlier ones fixed)"""
    EC = "guppylang_internals.checker.expr_checker"
    if mk_ty is None:
        def mk_ty(name, log):
            def substitute(sub):
                snap = dict(sub)
                log.append(("substitute", name, snap))
                return ("SUBSTITUTED", name, tuple(sorted(snap.items())))
            return SObj(ClassVal("Ty", builtin=True), {"name": name, "substitute": Builtin("substitute", substitute), "unsolved_vars": set()})

        def expected_checks(n, names, init):
            out, acc = [], dict(init)
            for i in range(n):
                out.append((f"el{i}", ("SUBSTITUTED", names[i], tuple(sorted(acc.items())))))
                acc[f"v{i}"] = f"sol{i}"
            return out, acc
    # ---- array(e0, e1, ..) checked against array[T, n]: the same threading through the elements
    CKM = "guppylang_internals.std._internal.checker"
    e.func_info(CKM, "NewArrayChecker.check")
    e.models["guppylang_internals.tys.builtin:is_array_type"] = lambda it, a, k: True
    e.models[f"{TY}:unify"] = lambda it, a, k: {}
    e.models["guppylang_internals.tys.builtin:nat_type"] = lambda it, a, k: "nat"
    for n in range(1, 4):
        def t3(it, n=n):
            NAC = it.lookup_global(e.module(CKM), "NewArrayChecker")
            TA = it.lookup_global(e.module("guppylang_internals.tys.arg"), "TypeArg")
            CA = it.lookup_global(e.module("guppylang_internals.tys.arg"), "ConstArg")
            log, checks = [], []
            elem = mk_ty("elem", log)

            def check(self_, el, ty, *a):
                checks.append((el, ty))
                return (("CHECKED", el), {f"v{len(checks) - 1}": f"sol{len(checks) - 1}"})
            e.models[f"{EC}:ExprChecker.check"] = lambda it2, a, k: check(*a)
            e.models[f"{EC}:ExprChecker"] = lambda it2, a, k: SObj(ClassVal("ExprCheckerStub", builtin=True), {"check": Builtin("check", lambda el, ty, *x: check(None, el, ty))})
            aty = SObj(ClassVal("ArrayTy", builtin=True), {"args": [SObj(TA, {"ty": elem}), SObj(CA, {"const": "LEN"})]})
            self_ = SObj(NAC, {"ctx": None, "node": "NODE", "func": SObj(ClassVal("F", builtin=True), {"id": "ID"})})
            args = [f"el{i}" for i in range(n)]
            try:
                it.call_method(self_, "check", [args, aty])
            except PyRaise:
                pass                      # what happens after the element loop (length check, call node) is not this obligation
            return checks, args
        paths = e.explore(t3)

        def post3(p, n=n):
            if p.kind != "return":
                return z3.BoolVal(False)
            checks, args = p.value
            want, _ = expected_checks(n, ["elem"] * n, {})
            return z3.BoolVal(checks == want)
        chk.prove_paths(f"{tag}NewArrayChecker.check[{n}]:element-i-checked-against-elem_ty.substitute(solutions-of-elements<i)", paths, post3, func=f"{CKM}:NewArrayChecker.check",
                        replay=lambda m_: {"script": REPLAY_CALL, "input": {"sig": "x: array[T, 2]", "arg": "array(True, 3)", "imports": "from guppylang.std.builtins import array"}})
    for k in (f"{EC}:ExprChecker.check", f"{EC}:ExprChecker", f"{TY}:unify"):
        e.models.pop(k, None)



def instantiation_checked(chk, e=None, tag=""):
    """synthesize_call / check_call (checker/expr_checker.py): whichever way the instantiation of a
    generic callee is inferred — from the arguments alone, or with the help of the expected result
    type — it is validated by check_inst (the copyable / droppable bounds of the parameters) before
    the call is accepted, and a violation propagates as the call's rejection.  Shared with C15: a
    variant that fits only by violating a bound is not applicable."""
    EC = "guppylang_internals.checker.expr_checker"
    own = e is None
    if own:
        e = mk_engine(chk)
    for q in ("synthesize_call", "check_call"):
        e.func_info(EC, q)
    m = e.module(EC)
    bad = z3.Bool("instantiation_violates_a_bound")
    for fn, synth_ok in (("synthesize_call", None), ("check_call", True), ("check_call", False)):
        def t(it, fn=fn, synth_ok=synth_ok):
            GTE = it.lookup_global(e.module("guppylang_internals.error"), "GuppyTypeError")
            GTIE = it.lookup_global(e.module("guppylang_internals.error"), "GuppyTypeInferenceError")
            log = []
            out_ty = SObj(ClassVal("Ty", builtin=True), {"unsolved_vars": set(), "substitute": Builtin("substitute", lambda sub: "OUT-SUBST")})
            unq = SObj(ClassVal("FunctionType", builtin=True), {"output": out_ty, "inputs": []})
            fty = SObj(ClassVal("FunctionType", builtin=True), {"unsolved_vars": set(), "inputs": [], "output": out_ty, "unquantified": Builtin("unquantified", lambda: (unq, ["FREE"]))})
            e.models[f"{EC}:check_num_args"] = lambda it2, a, k: None
            sol = SObj(ClassVal("Ty", builtin=True), {"unsolved_vars": set()})
            e.models[f"{EC}:type_check_args"] = lambda it2, a, k: (list(a[0]), {"v": sol})
            e.models[f"{EC}:check_all_solved"] = lambda it2, a, k: "INST"
            e.models[f"{TY}:unify"] = lambda it2, a, k: {}

            def check_inst(it2, a, k):
                log.append(("check_inst", a[0], a[1], a[2]))
                if it.ctx.branch(bad):
                    raise PyRaise(it.call(GTE, [SObj(ClassVal("Diag", builtin=True), {"kind": "bound"})], {}))
            e.models[f"{EC}:check_inst"] = check_inst
            if fn == "check_call":
                def synth(it2, a, k):
                    raise PyRaise(it.call(GTIE, [SObj(ClassVal("Diag", builtin=True), {"kind": "cannot-infer"})], {}))
                if synth_ok:
                    e.models.pop(f"{EC}:synthesize_call", None)       # the real one (it validates the instantiation itself)
                else:
                    e.models[f"{EC}:synthesize_call"] = synth
                exp = SObj(ClassVal("Ty", builtin=True), {"unsolved_vars": set()})
                r = it.call(it.lookup_global(m, "check_call"), [fty, ["ARG"], exp, "NODE", None], {})
            else:
                e.models.pop(f"{EC}:synthesize_call", None)
                r = it.call(it.lookup_global(m, "synthesize_call"), [fty, ["ARG"], "NODE", None], {})
            return r, log, fty
        paths = e.explore(t)

        def post(p):
            if p.kind == "raise":
                return z3.And(bad, z3.BoolVal(p.raised(e, "GuppyTypeError")))
            if p.kind != "return":
                return z3.BoolVal(False)
            r, log, fty = p.value
            ok = len(log) == 1 and log[0][1] is fty and log[0][2] == "INST" and log[0][3] == "NODE" and r[-1] == "INST"
            return z3.And(z3.Not(bad), z3.BoolVal(ok))
        label = fn + ("" if synth_ok is None else "[synthesis-succeeds]" if synth_ok else "[falls-back-to-the-expected-type]")
        chk.prove_paths(f"{tag}{label}:the-inferred-instantiation-is-validated-by-check_inst-exactly-once/\\a-bound-violation-rejects-the-call", paths, post, func=f"{EC}:{fn}",
                        replay=lambda m_: {"script": REPLAY_BOUND, "input": {}})
    # chained solutions: the expected type's variable ?A is solved by the callee's ?S, which only the
    # argument solves: the call has the instantiation A = S = INT and must type-check, returning A := INT
    def t_chain(it):
        GTIE = it.lookup_global(e.module("guppylang_internals.error"), "GuppyTypeInferenceError")
        INT = SObj(ClassVal("Ty", builtin=True), {"name": "INT", "unsolved_vars": set()})
        INT.fields["substitute"] = Builtin("substitute", lambda sub: INT)
        S_, A_ = "?S", "?A"
        varS = SObj(ClassVal("Ty", builtin=True), {"name": "?S", "unsolved_vars": {S_}})
        varS.fields["substitute"] = Builtin("substitute", lambda sub: sub[S_].fields["substitute"].fn(sub) if S_ in sub else varS)
        out_ty = SObj(ClassVal("Ty", builtin=True), {"unsolved_vars": {S_}, "substitute": Builtin("substitute", lambda sub: "OUT-SUBST")})
        unq = SObj(ClassVal("FunctionType", builtin=True), {"output": out_ty, "inputs": []})
        fty = SObj(ClassVal("FunctionType", builtin=True), {"unsolved_vars": set(), "inputs": [], "output": out_ty, "unquantified": Builtin("unquantified", lambda: (unq, [S_]))})
        seen = {}
        e.models[f"{EC}:check_num_args"] = lambda it2, a, k: None
        e.models[f"{TY}:unify"] = lambda it2, a, k: {A_: varS}
        e.models[f"{EC}:type_check_args"] = lambda it2, a, k: (list(a[0]), {**a[2], S_: INT})
        e.models[f"{EC}:check_all_solved"] = lambda it2, a, k: (seen.__setitem__("subst", dict(a[0])), "INST")[1]
        e.models[f"{EC}:check_inst"] = lambda it2, a, k: None
        e.models[f"{EC}:synthesize_call"] = lambda it2, a, k: (_ for _ in ()).throw(PyRaise(it.call(GTIE, [SObj(ClassVal("Diag", builtin=True), {"kind": "cannot-infer"})], {})))
        exp = SObj(ClassVal("Ty", builtin=True), {"unsolved_vars": {A_}})
        r = it.call(it.lookup_global(m, "check_call"), [fty, ["ARG"], exp, "NODE", None], {})
        return r, seen, INT
    chk.prove_paths(f"{tag}check_call[falls-back,chained-solutions ?A:=?S,?S:=INT]:type-checks/\\returns-the-resolved-solution-?A:=INT/\\the-instantiation-is-computed-from-a-closed-substitution", e.explore(t_chain),
                    lambda p: z3.BoolVal(p.kind == "return" and p.value[0][1] == {"?A": p.value[2]} and p.value[0][2] == "INST" and all(v is p.value[2] for v in p.value[1]["subst"].values())),
                    func=f"{EC}:check_call", replay=lambda m_: {"script": REPLAY_CHAIN, "input": {}})
    for k in (f"{EC}:check_num_args", f"{EC}:type_check_args", f"{EC}:check_all_solved", f"{TY}:unify", f"{EC}:check_inst", f"{EC}:synthesize_call"):
        e.models.pop(k, None)
    if own:
        chk.use_engine(e)


REPLAY_CHAIN = r'''
import guppy_plainbool
import tempfile, importlib.util, os, sys, shutil
src = """from guppylang import guppy
from guppylang.std.builtins import result
from guppylang.std.option import Option, nothing
S = guppy.type_var("S"); R = guppy.type_var("R"); A = guppy.type_var("A")
@guppy
def none_of(x: S) -> tuple[S, Option[R]]:
    return x, nothing()
@guppy
def foo(p: tuple[A, Option[int]], q: A) -> A:
    a, o = p
    return a
@guppy
def main() -> None:
    result("r", foo(none_of(7), 2))
"""
d = tempfile.mkdtemp(dir=os.environ.get("TMPDIR", "/var/tmp")); fn = os.path.join(d, "replay_c12c.py"); open(fn, "w").write(src)
spec = importlib.util.spec_from_file_location("replay_c12c", fn); m = importlib.util.module_from_spec(spec); sys.modules["replay_c12c"] = m
try:
    spec.loader.exec_module(m)
    try:
        got = [list(x) for x in list(m.main.emulator(n_qubits=1).run().results)[0].entries]
        out = {"violates": got != [["r", 7]], "observed": got, "required": [["r", 7]]}
    except AssertionError as ex:
        out = {"violates": True, "observed": "AssertionError in check_call (substitution not closed)", "required": "the call type-checks: A = S = int, R = int"}
except Exception as ex:
    out = {"violates": False, "error": repr(ex)[:300]}
shutil.rmtree(d, ignore_errors=True)
print(json.dumps(out))
'''


REPLAY_BOUND = r'''
from guppylang_internals.error import GuppyError
import tempfile, importlib.util, os, sys, shutil
src = """from guppylang import guppy
from guppylang.std.option import Option
from guppylang.std.quantum import qubit
T = guppy.type_var("T")          # copyable and droppable
@guppy.declare
def empty_any() -> Option[T]: ...
@guppy
def main() -> None:
    o: Option[qubit] = empty_any()
    o.unwrap_nothing()
"""
d = tempfile.mkdtemp(dir=os.environ.get("TMPDIR", "/var/tmp")); fn = os.path.join(d, "replay_c12b.py"); open(fn, "w").write(src)
spec = importlib.util.spec_from_file_location("replay_c12b", fn); m = importlib.util.module_from_spec(spec); sys.modules["replay_c12b"] = m
try:
    spec.loader.exec_module(m)
    try:
        m.main.check(); accepted = True
    except GuppyError:
        accepted = False
    out = {"violates": accepted, "accepted": accepted, "required": "rejected: T must be copyable and droppable, qubit is neither"}
except Exception as ex:
    out = {"violates": False, "error": repr(ex)[:300]}
shutil.rmtree(d, ignore_errors=True)
print(json.dumps(out))
'''


def _zb(v):
    return v.t if hasattr(v, "t") else z3.BoolVal(bool(v))


def u4(chk):
    """U4 — how the checker drives inference: the solutions found for earlier arguments / tuple
    components / list elements constrain the later ones.  ExprChecker.visit_Tuple, visit_List and
    type_check_args (checker/expr_checker.py), real code: component i is checked against
    expected_i.substitute(S_i) where S_i is the union of the substitutions returned for
    components 0..i-1 (plus the incoming one for type_check_args), and the union of all of them
    is returned.  Without this `pair((True, 3))` for `pair(x: tuple[T, T])` would type-check
    although no instantiation of T exists."""
    EC = "guppylang_internals.checker.expr_checker"
    e = mk_engine(chk)
    for q in ("ExprChecker.visit_Tuple", "ExprChecker.visit_List", "type_check_args"):
        e.func_info(EC, q)
    m = e.module(EC)
    e.models["guppylang_internals.experimental:check_lists_enabled"] = lambda it, a, k: None
    e.models[f"{EC}:check_num_args"] = lambda it, a, k: None
    e.models["guppylang_internals.tys.builtin:is_list_type"] = lambda it, a, k: True
    e.models["guppylang_internals.tys.builtin:get_element_type"] = lambda it, a, k: a[0].fields["elem"]

    def mk_ty(name, log):
        def substitute(sub):
            snap = dict(sub)
            log.append(("substitute", name, snap))
            return ("SUBSTITUTED", name, tuple(sorted(snap.items())))
        return SObj(ClassVal("Ty", builtin=True), {"name": name, "substitute": Builtin("substitute", substitute), "unsolved_vars": set()})

    def expected_checks(n, names, init):
        out, acc = [], dict(init)
        for i in range(n):
            out.append((f"el{i}", ("SUBSTITUTED", names[i], tuple(sorted(acc.items())))))
            acc[f"v{i}"] = f"sol{i}"
        return out, acc

    class Sol(str):
        """a closed solution: substitution leaves it alone"""
        def substitute(self, sub):
            return self

    class VarRef(str):
        """a solution that IS another variable (N := K): substitution resolves it once that one is solved"""
        def substitute(self, sub):
            return sub.get(str(self)[1:], self)

    for n in range(0, 4):
        # ---- visit_Tuple / visit_List
        for meth in ("visit_Tuple", "visit_List"):
            def t(it, n=n, meth=meth):
                ECc = it.lookup_global(m, "ExprChecker")
                TT = it.lookup_global(e.module(TY), "TupleType")
                log, checks = [], []
                tys = [mk_ty(f"t{i}", log) for i in range(n)]
                elem = mk_ty("elem", log)

                def check(el, ty, *a):
                    checks.append((el, ty))
                    return (("CHECKED", el), {f"v{len(checks) - 1}": f"sol{len(checks) - 1}"})
                self_ = SObj(ECc, {"check": Builtin("check", check), "ctx": None})
                node = SObj(ClassVal("Node", builtin=True), {"elts": [f"el{i}" for i in range(n)]})
                ty = SObj(TT, {"element_types": tys}) if meth == "visit_Tuple" else SObj(ClassVal("ListTy", builtin=True), {"elem": elem})
                r = it.call_method(self_, meth, [node, ty])
                return r, checks, node

            def post(p, n=n, meth=meth):
                if p.kind != "return":
                    return z3.BoolVal(False)
                (rnode, rsub), checks, node = p.value
                want, acc = expected_checks(n, [f"t{i}" for i in range(n)] if meth == "visit_Tuple" else ["elem"] * n, {})
                ok = checks == want and rsub == acc and rnode is node and node.fields["elts"] == [("CHECKED", f"el{i}") for i in range(n)]
                return z3.BoolVal(ok)
            chk.prove_paths(f"ExprChecker.{meth}[{n}]:component-i-checked-against-expected_i.substitute(solutions-of-components<i)/\\returns-the-union", e.explore(t), post,
                            func=f"{EC}:ExprChecker.{meth}", replay=lambda m_: {"script": REPLAY_CALL, "input": {"sig": "x: tuple[T, T]", "arg": "(True, 3)"}})
        # ---- type_check_args
        def t2(it, n=n):
            f = it.lookup_global(m, "type_check_args")
            IF = it.lookup_global(e.module(TY), "InputFlags")
            log, checks = [], []
            tys = [mk_ty(f"t{i}", log) for i in range(n)]

            def check(self_, el, ty, *a):
                checks.append((el, ty))
                return (("CHECKED", el), {f"v{len(checks) - 1}": Sol(f"sol{len(checks) - 1}")})
            e.models[f"{EC}:ExprChecker.check"] = lambda it2, a, k: check(*a)
            out = SObj(ClassVal("Ty", builtin=True), {"unsolved_vars": set()})
            fty = SObj(ClassVal("FunctionType", builtin=True), {"parametrized": False, "comptime_args": [], "output": out,
                                                               "inputs": [SObj(ClassVal("FuncInput", builtin=True), {"ty": tys[i], "flags": it.getattr(IF, "NoFlags")}) for i in range(n)]})
            r = it.call(f, [[f"el{i}" for i in range(n)], fty, {"v_in": Sol("sol_in")}, None, "NODE"], {})
            return r, checks

        def post2(p, n=n):
            if p.kind != "return":
                return z3.BoolVal(False)
            (args, rsub), checks = p.value
            want, acc = expected_checks(n, [f"t{i}" for i in range(n)], {"v_in": "sol_in"})
            return z3.BoolVal(checks == want and rsub == acc and args == [("CHECKED", f"el{i}") for i in range(n)])
        chk.prove_paths(f"type_check_args[{n}]:argument-i-checked-against-input_i.substitute(incoming+solutions-of-arguments<i)/\\returns-the-union", e.explore(t2), post2,
                        func=f"{EC}:type_check_args", replay=lambda m_: {"script": REPLAY_CALL, "input": {"sig": "x: T, y: T", "arg": "True, 3"}})
    # ---- chained solutions: the incoming substitution (from unifying the expected type with the return
    # type) may solve one variable as ANOTHER one (w := ?v0).  Once argument 0 solves v0, every later
    # argument must be checked with w resolved to that solution — otherwise a later argument could
    # solve v0 a second time, differently, and overwrite it
    for n in (2, 3):
        def t2c(it, n=n):
            f = it.lookup_global(m, "type_check_args")
            IF = it.lookup_global(e.module(TY), "InputFlags")
            log, checks = [], []
            tys = [mk_ty(f"t{i}", log) for i in range(n)]

            def check(self_, el, ty, *a):
                checks.append((el, ty))
                return (("CHECKED", el), {f"v{len(checks) - 1}": Sol(f"sol{len(checks) - 1}")})
            e.models[f"{EC}:ExprChecker.check"] = lambda it2, a, k: check(*a)
            out = SObj(ClassVal("Ty", builtin=True), {"unsolved_vars": set()})
            fty = SObj(ClassVal("FunctionType", builtin=True), {"parametrized": False, "comptime_args": [], "output": out,
                                                               "inputs": [SObj(ClassVal("FuncInput", builtin=True), {"ty": tys[i], "flags": it.getattr(IF, "NoFlags")}) for i in range(n)]})
            r = it.call(f, [[f"el{i}" for i in range(n)], fty, {"w": VarRef("?v0"), "u": VarRef("?v1")}, None, "NODE"], {})
            return r, checks

        def post2c(p, n=n):
            if p.kind != "return":
                return z3.BoolVal(False)
            (args, rsub), checks = p.value
            ok = len(checks) == n
            for i in range(n):
                if not ok:
                    break
                sub_i = dict(checks[i][1][2])       # the substitution argument i's expected type was computed with
                ok = ok and str(sub_i.get("w")) == ("?v0" if i == 0 else "sol0")
                ok = ok and str(sub_i.get("u")) == ("?v1" if i <= 1 else "sol1")
            ok = ok and str(rsub.get("w")) == "sol0" and str(rsub.get("u")) == "sol1" and str(rsub.get("v0")) == "sol0"
            return z3.BoolVal(bool(ok))
        chk.prove_paths(f"type_check_args[{n};chained]:a-variable-solved-as-another-variable-is-resolved-as-soon-as-that-one-is-solved(no-second-solution-later)", e.explore(t2c), post2c,
                        func=f"{EC}:type_check_args", replay=lambda m_: {"script": REPLAY_CHAIN2, "input": {}})
    # ---- type_check_args with @comptime parameters: the constant of a comptime argument is checked
    # (check_comptime_arg) against the parameter's const and type under the substitution found SO FAR —
    # incoming solutions, all earlier arguments and this argument's own type check — and handed that
    # same substitution, so that a variable already solved cannot silently get a second solution
    import itertools as _it
    for n in (1, 2, 3):
        for flags in _it.product((False, True), repeat=n):
            if not any(flags):
                continue

            def t3(it, n=n, flags=flags):
                f = it.lookup_global(m, "type_check_args")
                IF = it.lookup_global(e.module(TY), "InputFlags")
                log, checks, cchecks = [], [], []
                tys = [mk_ty(f"t{i}", log) for i in range(n)]

                def check(self_, el, ty, *a):
                    checks.append((el, ty))
                    return (("CHECKED", el), {f"v{len(checks) - 1}": Sol(f"sol{len(checks) - 1}")})
                e.models[f"{EC}:ExprChecker.check"] = lambda it2, a, k: check(*a)

                def cca(it2, a, k):
                    arg, const, ty, sub = a
                    cchecks.append((arg, const, ty, dict(sub)))
                    return {f"c{len(cchecks) - 1}": Sol(f"csol{len(cchecks) - 1}")}
                e.models[f"{EC}:check_comptime_arg"] = cca
                consts = [mk_ty(f"const{i}", log) for i in range(n) if flags[i]]
                cargs = [SObj(ClassVal("ConstArg", builtin=True), {"const": c}) for c in consts]
                out = SObj(ClassVal("Ty", builtin=True), {"unsolved_vars": set()})
                fty = SObj(ClassVal("FunctionType", builtin=True), {"parametrized": False, "comptime_args": cargs, "output": out,
                                                                   "inputs": [SObj(ClassVal("FuncInput", builtin=True), {"ty": tys[i], "flags": it.getattr(IF, "Comptime" if flags[i] else "NoFlags")}) for i in range(n)]})
                r = it.call(f, [[f"el{i}" for i in range(n)], fty, {"v_in": Sol("sol_in")}, None, "NODE"], {})
                return r, checks, cchecks

            def post3(p, n=n, flags=flags):
                if p.kind != "return":
                    return z3.BoolVal(False)
                (args, rsub), checks, cchecks = p.value
                acc = {"v_in": "sol_in"}
                want_checks, want_c = [], []
                j = 0
                for i in range(n):
                    want_checks.append((f"el{i}", ("SUBSTITUTED", f"t{i}", tuple(sorted(acc.items())))))
                    acc[f"v{i}"] = f"sol{i}"
                    if flags[i]:
                        snap = tuple(sorted(acc.items()))
                        want_c.append((("CHECKED", f"el{i}"), ("SUBSTITUTED", f"const{i}", snap), ("SUBSTITUTED", f"t{i}", snap), dict(acc)))
                        acc[f"c{j}"] = f"csol{j}"
                        j += 1
                return z3.BoolVal(checks == want_checks and cchecks == want_c and rsub == acc)
            chk.prove_paths(f"type_check_args[{n};comptime at {[i for i in range(n) if flags[i]]}]:comptime-constant-checked-under-and-WITH-the-substitution-found-so-far/\\its-solutions-join-the-union", e.explore(t3), post3,
                            func=f"{EC}:type_check_args", replay=lambda m_: {"script": REPLAY_COMPTIME_CHAIN, "input": {}})
    e.models.pop(f"{EC}:ExprChecker.check", None)
    e.models.pop(f"{EC}:check_comptime_arg", None)

    array_literal_threading(chk, e, mk_ty, expected_checks)
    args_list_untouched(chk)

    instantiation_checked(chk, e)

    # ---- a parameter's inference variable carries the parameter's bounds (TypeParam.to_existential);
    # unify's ownership rule and check_inst read them from the variable
    PM = "guppylang_internals.tys.param"
    e.func_info(PM, "TypeParam.to_existential")
    cop, dro = z3.Bools("must_be_copyable must_be_droppable")

    def t4(it):
        from pyvc import SBool
        TP = it.lookup_global(e.module(PM), "TypeParam")
        p_ = SObj(TP, {"idx": 0, "name": "T", "must_be_copyable": SBool(cop), "must_be_droppable": SBool(dro)})
        arg, var = it.call_method(p_, "to_existential", [])
        return arg, var
    chk.prove_paths("TypeParam.to_existential:the-variable-has-the-parameter's-name-and-copyable/droppable-bounds", e.explore(t4),
                    lambda p: z3.BoolVal(False) if p.kind != "return" else z3.And(z3.BoolVal(p.value[0].fields["ty"] is p.value[1] and p.value[1].fields["display_name"] == "T"),
                                                                                   _zb(p.value[1].fields["copyable"]) == cop, _zb(p.value[1].fields["droppable"]) == dro),
                    func=f"{PM}:TypeParam.to_existential", replay=lambda m_: {"script": REPLAY_OWNED, "input": {}})
    chk.use_engine(e)


REPLAY_OWNED = r'''
from guppylang_internals.error import GuppyError
import tempfile, importlib.util, os, sys, shutil
src = """from guppylang import guppy
from guppylang.std.builtins import owned
from guppylang.std.quantum import qubit
from collections.abc import Callable
T = guppy.type_var("T", copyable=False, droppable=False)
@guppy.declare
def app(f: Callable[[T @owned], None], x: T @owned) -> None: ...
@guppy.declare
def borrow(q: qubit) -> None: ...
@guppy
def main(q: qubit @owned) -> None:
    app(borrow, q)
"""
d = tempfile.mkdtemp(dir=os.environ.get("TMPDIR", "/var/tmp")); fn = os.path.join(d, "replay_c12o.py"); open(fn, "w").write(src)
spec = importlib.util.spec_from_file_location("replay_c12o", fn); m = importlib.util.module_from_spec(spec); sys.modules["replay_c12o"] = m
try:
    spec.loader.exec_module(m)
    try:
        m.main.check(); accepted = True
    except GuppyError:
        accepted = False
    out = {"violates": accepted, "accepted": accepted, "required": "rejected: a borrowing function does not fit a parameter that takes its argument @owned"}
except Exception as ex:
    out = {"violates": False, "error": repr(ex)[:300]}
shutil.rmtree(d, ignore_errors=True)
print(json.dumps(out))
'''


REPLAY_CALL = r'''
from guppylang_internals.error import GuppyError
import tempfile, importlib.util, os, sys, shutil
I = INPUT
src = f"""from guppylang import guppy
{I.get('imports', '')}
T = guppy.type_var("T")
@guppy.declare
def gen({I['sig']}) -> None: ...
@guppy
def main() -> None:
    gen({I['arg']})
"""
d = tempfile.mkdtemp(dir=os.environ.get("TMPDIR", "/var/tmp")); fn = os.path.join(d, "replay_c12.py"); open(fn, "w").write(src)
spec = importlib.util.spec_from_file_location("replay_c12", fn); m = importlib.util.module_from_spec(spec); sys.modules["replay_c12"] = m
try:
    spec.loader.exec_module(m)
    try:
        m.main.check(); accepted = True
    except GuppyError:
        accepted = False
    out = {"violates": accepted, "accepted": accepted, "required": "rejected: no instantiation of T fits a bool and an int", "program": src}
except Exception as ex:
    out = {"violates": False, "error": repr(ex)[:300]}
shutil.rmtree(d, ignore_errors=True)
print(json.dumps(out))
'''


def u2(chk):
    e = mk_engine(chk)
    e.func_info(TY, "unify")
    m = e.module(TY)

    def leaves(k):
        return {"int": k.int_(), "nat": k.nat(), "float": k.flt(), "none": k.call(k.NoneT), "bound0": k.tv(0), "bound1": k.tv(1),
                "c2": k.call(k.CV, k.nat(), 2), "c3": k.call(k.CV, k.nat(), 3), "cTrue": k.call(k.CV, k.nat(), True), "c1": k.call(k.CV, k.nat(), 1),
                "cb0": k.cv(0), "cb1": k.cv(1)}
    names = ["int", "nat", "float", "none", "bound0", "bound1", "c2", "c3", "cTrue", "c1", "cb0", "cb1"]
    is_const = lambda n: n.startswith("c")
    for a, b in itertools.product(names, repeat=2):
        if is_const(a) != is_const(b):
            continue          # precondition of unify: both types or both constants

        def t(it, a=a, b=b):
            k = K(e, it)
            L1, L2 = leaves(k), leaves(k)
            f = it.lookup_global(m, "unify")
            sub = {"marker": 1}
            return it.call(f, [L1[a], L2[b], sub], {}), sub, it.call(f, [L1[a], L2[b], None], {})
        want_ok = a == b
        chk.prove_paths(f"unify[{a}~{b}]:{'unifies-leaving-the-substitution-untouched' if want_ok else 'fails'}/\\a-failed-substitution(None)-stays-None", e.explore(t),
                        lambda p, want_ok=want_ok: z3.BoolVal(p.kind == "return" and ((p.value[0] is p.value[1]) if want_ok else (p.value[0] is None)) and p.value[2] is None),
                        func=f"{TY}:unify", replay=lambda m_: {"script": ORACLE + REPLAY_CYCLE, "input": {}})
    # parametrised constructors delegate to _unify_args iff same constructor (and same definition)
    def t_par(it):
        k = K(e, it)
        f = it.lookup_global(m, "unify")
        calls = []
        e.models[f"{TY}:_unify_args"] = lambda it2, a, kw: calls.append((a[0], a[1])) or ("ARGS",)
        D1 = SObj(ClassVal("Defn", builtin=True), {"name": "d1"})
        D2 = SObj(ClassVal("Defn", builtin=True), {"name": "d2"})
        tup, tup2 = k.call(k.Tup, [k.int_()]), k.call(k.Tup, [k.flt(), k.flt()])
        o1, o1b, o2 = k.call(k.Opq, [], D1), k.call(k.Opq, [], D1), k.call(k.Opq, [], D2)
        s1, s2 = k.call(k.Str, [], D1), k.call(k.Str, [], D2)
        out = {}
        for nm, (x, y) in {"tuple~tuple": (tup, tup2), "opaque~same-def": (o1, o1b), "opaque~other-def": (o1, o2), "struct~other-def": (s1, s2), "tuple~opaque": (tup, o1),
                           "opaque~struct": (o1, s1), "tuple~int": (tup, k.int_())}.items():
            out[nm] = it.call(f, [x, y, {}], {})
        return out
    chk.prove_paths("unify[parametrised]:same-constructor-and-definition=>_unify_args;otherwise-None", e.explore(t_par),
                    lambda p: z3.BoolVal(p.kind == "return" and p.value["tuple~tuple"] == ("ARGS",) and p.value["opaque~same-def"] == ("ARGS",) and
                                         all(p.value[x] is None for x in ("opaque~other-def", "struct~other-def", "tuple~opaque", "opaque~struct", "tuple~int"))), func=f"{TY}:unify")
    e.models.pop(f"{TY}:_unify_args", None)
    # function types: parameter lists, arity, ownership flags of inputs that are linear on both sides
    # (an owned and a borrowed input have different calling conventions — the borrowed value is handed back — whenever
    # the type is NOT COPYABLE, droppable or not; for copyable inputs the flags make no difference)
    for case in ("same", "arity", "flags-linear", "flags-affine", "flags-affine-vs-linear", "flags-nonlinear", "flags-one-side-linear", "params"):
        def t_fn(it, case=case):
            k = K(e, it)
            f = it.lookup_global(m, "unify")
            e.models[f"{TY}:_unify_args"] = lambda it2, a, kw: ("ARGS",)
            lin = k.call(k.BTV, "L", 5, False, False)
            aff = k.call(k.BTV, "A", 6, False, True)        # not copyable, droppable (e.g. an array of ints)
            non = k.int_()
            def fn(ins, params=None):
                return k.call(k.Fn, [k.inp(ty, fl) for ty, fl in ins], k.call(k.NoneT), params or [])
            p0 = k.call(k.TP, 0, "P", True, True)
            pairs = {"same": (fn([(lin, "Owned")]), fn([(lin, "Owned")])), "arity": (fn([(non, "NoFlags")]), fn([(non, "NoFlags"), (non, "NoFlags")])),
                     "flags-linear": (fn([(lin, "Owned")]), fn([(lin, "Inout")])), "flags-affine": (fn([(aff, "Owned")]), fn([(aff, "Inout")])),
                     "flags-affine-vs-linear": (fn([(aff, "Inout")]), fn([(lin, "Owned")])), "flags-nonlinear": (fn([(non, "Owned")]), fn([(non, "NoFlags")])),
                     "flags-one-side-linear": (fn([(lin, "Owned")]), fn([(non, "NoFlags")])), "params": (fn([(non, "NoFlags")], [p0]), fn([(non, "NoFlags")]))}
            x, y = pairs[case]
            return it.call(f, [x, y, {}], {})
        want = {"same": True, "arity": False, "flags-linear": False, "flags-affine": False, "flags-affine-vs-linear": False, "flags-nonlinear": True, "flags-one-side-linear": True, "params": False}[case]
        chk.prove_paths(f"unify[function types:{case}]:{'delegates-to-_unify_args' if want else 'fails'}", e.explore(t_fn),
                        lambda p, want=want: z3.BoolVal(p.kind == "return" and ((p.value == ("ARGS",)) if want else (p.value is None))), func=f"{TY}:unify",
                        replay=(lambda m_: {"script": REPLAY_OWNERSHIP, "input": {}}) if "affine" in case else None)
    e.models.pop(f"{TY}:_unify_args", None)
    chk.use_engine(e)


REPLAY_OWNERSHIP = r'''
import guppy_plainbool
import tempfile, importlib.util, os, sys, shutil
from guppylang_internals.error import GuppyError
src = """from collections.abc import Callable
from guppylang import guppy
from guppylang.std.builtins import array, owned, result
@guppy
def consume(a: array[int, 3] @owned) -> None:
    pass
@guppy
def get() -> Callable[[array[int, 3]], None]:
    return consume
@guppy
def main() -> None:
    f = get()
    xs = array(1, 2, 3)
    f(xs)
    result("x", xs[0])
"""
d = tempfile.mkdtemp(dir=os.environ.get("TMPDIR", "/var/tmp")); fn = os.path.join(d, "replay_c12o.py"); open(fn, "w").write(src)
spec = importlib.util.spec_from_file_location("replay_c12o", fn); m = importlib.util.module_from_spec(spec); sys.modules["replay_c12o"] = m
spec.loader.exec_module(m)
try:
    m.main.check(); got = "accepted"
    try:
        m.main.emulator(n_qubits=1).run(); got += ", runs"
    except Exception as ex:
        got += ", but the compiled package is invalid: " + type(ex).__name__
except GuppyError as ex:
    got = "rejected:" + type(ex.error).__name__
shutil.rmtree(d, ignore_errors=True)
print(json.dumps({"violates": got.startswith("accepted"), "observed": got, "required": "a function taking its array OWNED is not a Callable taking it BORROWED (the borrowed array is handed back, the owned one is not)"}))
'''


def u3(chk):
    e = mk_engine(chk)
    e.func_info(TY, "_unify_var")
    m = e.module(TY)

    def setup(it):
        k = K(e, it)
        A = k.call(k.ETV, "A", 100, False, False)
        B = k.call(k.ETV, "B", 101, False, False)
        C = k.call(k.ETV, "C", 102, False, False)
        return k, A, B, C
    cases = {}

    def t(it):
        k, A, B, C = setup(it)
        f = it.lookup_global(m, "_unify_var")
        calls = []
        e.models[f"{TY}:unify"] = lambda it2, a, kw: calls.append(tuple(a)) or ("REC", len(calls))
        out = {}
        i_ = k.int_()
        # 1. var already solved: continue with its solution
        sub = {A: i_}
        out["solved"] = (it.call(f, [A, B, sub], {}), list(calls), sub, A, B, i_)
        del calls[:]
        # 2. other side is a solved variable: continue with its solution
        sub2 = {B: i_}
        out["other-solved"] = (it.call(f, [A, B, sub2], {}), list(calls), sub2, A, B, i_)
        del calls[:]
        # 3. occurs directly
        out["occurs"] = it.call(f, [A, k.call(k.Tup, [A]), {}], {})
        # 4. occurs through an already solved variable
        out["occurs-through-subst"] = it.call(f, [A, k.call(k.Tup, [B]), {B: k.call(k.Tup, [A, i_])}], {})
        # 5. fresh binding keeps the other entries and resolves solved variables in the bound type
        sub5 = {C: i_}
        r = it.call(f, [A, k.call(k.Tup, [B, C]), sub5], {})
        out["bind"] = (r, sub5, A, B, C, i_, k.call(k.Tup, [B, i_]))
        # 6. the result stays IDEMPOTENT: earlier solutions that mention the newly solved variable are
        # resolved (one application of the result solves a type completely; no caller needs a fixpoint)
        sub6 = {C: k.call(k.Tup, [A, i_]), B: k.call(k.Tup, [A, A])}
        before6 = dict(sub6)
        r6 = it.call(f, [A, k.call(k.Tup, [i_]), sub6], {})
        free6 = {id(x): [v for v in it.getattr(tv, "unsolved_vars")] for x, tv in r6.items()} if isinstance(r6, dict) else None
        out["idempotent"] = (r6, free6, sub6, before6, A, B, C, k.call(k.Tup, [k.call(k.Tup, [i_]), i_]), k.call(k.Tup, [k.call(k.Tup, [i_]), k.call(k.Tup, [i_])]))
        return out
    paths = e.explore(t)
    from .C13 import same

    def post(p):
        if p.kind != "return":
            return z3.BoolVal(False)
        o = p.value
        r, calls, sub, A, B, i_ = o["solved"]
        ok = r == ("REC", 1) and len(calls) == 1 and calls[0][0] is i_ and calls[0][1] is B and calls[0][2] is sub
        r, calls, sub, A, B, i_ = o["other-solved"]
        ok = ok and r == ("REC", 1) and len(calls) == 1 and calls[0][0] is A and calls[0][1] is i_ and calls[0][2] is sub
        ok = ok and o["occurs"] is None and o["occurs-through-subst"] is None
        r, sub5, A, B, C, i_, want = o["bind"]
        ok = ok and isinstance(r, dict) and set(map(id, r.keys())) == {id(A), id(C)} and same(r[C], i_) and same(r[A], want) and set(map(id, sub5.keys())) == {id(C)}
        r6, free6, sub6, before6, A, B, C, wantC, wantB = o["idempotent"]
        ok = ok and isinstance(r6, dict) and set(map(id, r6.keys())) == {id(A), id(B), id(C)}
        ok = ok and all(not any(v is x for x in r6 for v in vs) for vs in free6.values())        # no solution mentions a solved variable
        ok = ok and same(r6[C], wantC) and same(r6[B], wantB)
        ok = ok and set(map(id, sub6.keys())) == set(map(id, before6.keys())) and all(sub6[x] is before6[x] for x in sub6)      # the caller's dict is not written
        return z3.BoolVal(bool(ok))
    chk.prove_paths("_unify_var:solved-variables-are-replaced/\\occurs-check-sees-through-solved-variables/\\binding-keeps-every-other-key-and-resolves-the-bound-type/\\result-is-idempotent(no-solution-mentions-a-solved-variable)", paths, post,
                    func=f"{TY}:_unify_var", replay=lambda m_: {"script": ORACLE + REPLAY_IDEM, "input": {}})
    e.models.pop(f"{TY}:unify", None)
    chk.use_engine(e)


def bounded(chk, i):
    from pyvc.report import run_replay
    inp = {"depth": 1, "chunk": i, "nchunks": NCH} if chk.tier != "thorough" else {"depth": 2, "chunk": i, "nchunks": NCH, "stride": 7}
    res = run_replay(ORACLE + DRIVER, inp, chk.repo, timeout=6000)
    if "evaluations" not in res:
        chk.undecided(f"bounded[{i}/{NCH}]:pairs", "oracle run failed: " + json.dumps(res)[:600])
        return
    w = res.get("witness")
    o = chk.bounded_result(f"bounded[{i}/{NCH}]:unify==reference-unifier(succeeds iff a unifier exists, result acyclic and solving, most general, returns; slice {i} of {NCH}, pool {res['pool']}, {res['total']} pairs)",
                           not res.get("violates"), res["evaluations"], detail=res.get("detail") or f"{res['evaluations']} pairs compared", witness=w, func=f"{TY}:unify")
    if w and "i" in w:
        o.replay.update({"script": ORACLE + REPLAY_ONE, "input": {"depth": inp["depth"], "i": w["i"], "j": w["j"]}})
    elif w:
        o.replay.update({"script": ORACLE + REPLAY_CYCLE, "input": {}})


REPLAY_COMPTIME_CHAIN = r'''
import tempfile, importlib.util, os, sys, shutil
from guppylang_internals.error import GuppyError
src = """from guppylang import guppy
from guppylang.std.builtins import array, nat, comptime
T = guppy.type_var("T")
n = guppy.nat_var("n")
@guppy.declare
def zeros(r: nat @comptime, c: nat @comptime) -> "array[array[T, c], r]": ...
@guppy.declare
def trace(m: array[array[int, n], n]) -> int: ...
@guppy
def square_ok() -> int:
    return trace(zeros(3, 3))
@guppy
def square_bad() -> int:
    return trace(zeros(2, 3))
"""
d = tempfile.mkdtemp(dir=os.environ.get("TMPDIR", "/var/tmp")); fn = os.path.join(d, "replay_c12c.py"); open(fn, "w").write(src)
spec = importlib.util.spec_from_file_location("replay_c12c", fn); m = importlib.util.module_from_spec(spec); sys.modules["replay_c12c"] = m
try:
    spec.loader.exec_module(m)
    res = {}
    for name in ("square_ok", "square_bad"):
        try:
            getattr(m, name).check(); res[name] = "accepted"
        except GuppyError as ex:
            res[name] = "rejected:" + type(ex.error).__name__
    out = {"violates": res["square_bad"] == "accepted" or res["square_ok"] != "accepted", "observed": res, "required": "trace(zeros(2, 3)) has no instantiation (n = 2 and n = 3) and must be rejected; trace(zeros(3, 3)) must be accepted"}
except Exception as ex:
    out = {"violates": False, "error": repr(ex)[:300]}
shutil.rmtree(d, ignore_errors=True)
print(json.dumps(out))
'''


REPLAY_CHAIN2 = r'''
import tempfile, importlib.util, os, sys, shutil
from guppylang_internals.error import GuppyError
src = """from guppylang import guppy
from guppylang.std.option import Option
T = guppy.type_var("T"); K = guppy.type_var("K"); N = guppy.type_var("N"); M = guppy.type_var("M")
@guppy.declare
def mk(a: K, b: N) -> "Option[tuple[T, N, K]]": ...
@guppy.declare
def want(o: "Option[tuple[int, M, M]]") -> None: ...
@guppy
def ok() -> None:
    want(mk(3, 4))
@guppy
def bad() -> None:
    want(mk(3, True))
"""
d = tempfile.mkdtemp(dir=os.environ.get("TMPDIR", "/var/tmp")); fn = os.path.join(d, "replay_c12d.py"); open(fn, "w").write(src)
spec = importlib.util.spec_from_file_location("replay_c12d", fn); m = importlib.util.module_from_spec(spec); sys.modules["replay_c12d"] = m
try:
    spec.loader.exec_module(m)
    res = {}
    for name in ("ok", "bad"):
        try:
            getattr(m, name).check(); res[name] = "accepted"
        except GuppyError as ex:
            res[name] = "rejected:" + type(ex.error).__name__
    out = {"violates": res["bad"] == "accepted" or res["ok"] != "accepted", "observed": res, "required": "want(mk(3, True)) needs N = K with K = int and N = bool: no instantiation, must be rejected; want(mk(3, 4)) must be accepted"}
except Exception as ex:
    out = {"violates": False, "error": repr(ex)[:300]}
shutil.rmtree(d, ignore_errors=True)
print(json.dumps(out))
'''


def args_list_untouched(chk, tag=""):
    """type_check_args (checker/expr_checker.py) leaves the caller's argument list alone: it returns a new
    list of checked arguments and does not write into `inputs`.  The callers rely on it — check_call
    first synthesises the call and, when inference fails, checks THE SAME argument list again with the
    expected type; an overloaded call among the arguments must then be resolved afresh (a node kept from
    the first pass would stay bound to the variant chosen without the expected type).  Shared with C15."""
    EC = "guppylang_internals.checker.expr_checker"
    e = mk_engine(chk)
    e.func_info(EC, "type_check_args")
    m = e.module(EC)
    e.models[f"{EC}:check_num_args"] = lambda it, a, k: None
    for n in (1, 2, 3):
        def t(it, n=n):
            f = it.lookup_global(m, "type_check_args")
            IF = it.lookup_global(e.module(TY), "InputFlags")
            e.models[f"{EC}:ExprChecker.check"] = lambda it2, a, k: (("RESOLVED", a[1]), {})
            tys = [SObj(ClassVal("Ty", builtin=True), {"substitute": Builtin("substitute", lambda sub, i=i: f"t{i}"), "unsolved_vars": set()}) for i in range(n)]
            out = SObj(ClassVal("Ty", builtin=True), {"unsolved_vars": set()})
            fty = SObj(ClassVal("FunctionType", builtin=True), {"parametrized": False, "comptime_args": [], "output": out,
                                                               "inputs": [SObj(ClassVal("FuncInput", builtin=True), {"ty": tys[i], "flags": it.getattr(IF, "NoFlags")}) for i in range(n)]})
            ins = [f"el{i}" for i in range(n)]
            r = it.call(f, [ins, fty, {}, None, "NODE"], {})
            return r, ins
        paths = e.explore(t)

        def post(p, n=n):
            if p.kind != "return":
                return z3.BoolVal(False)
            (args, _), ins = p.value
            return z3.BoolVal(ins == [f"el{i}" for i in range(n)] and args is not ins and args == [("RESOLVED", f"el{i}") for i in range(n)])
        chk.prove_paths(f"{tag}type_check_args[{n}]:the-caller's-argument-list-is-not-written-to(the-checked-arguments-are-returned-in-a-new-list)", paths, post, func=f"{EC}:type_check_args",
                        replay=lambda m_: {"script": REPLAY_SECOND_PASS, "input": {}})
    e.models.pop(f"{EC}:ExprChecker.check", None)
    chk.use_engine(e)


REPLAY_SECOND_PASS = r'''
import tempfile, importlib.util, os, sys, shutil
from guppylang_internals.error import GuppyError
src = """from guppylang import guppy
from guppylang.std.option import Option, nothing
T = guppy.type_var("T", copyable=True, droppable=True)
S = guppy.type_var("S", copyable=True, droppable=True)
@guppy.declare
def to_int(x: int) -> int: ...
@guppy.declare
def to_bool(x: int) -> bool: ...
@guppy.overload(to_int, to_bool)
def conv(x): ...
@guppy.declare
def pick(x: T, y: Option[S]) -> tuple[T, Option[S]]: ...
@guppy
def main() -> None:
    r: tuple[bool, Option[int]] = pick(conv(1), nothing())
"""
d = tempfile.mkdtemp(dir=os.environ.get("TMPDIR", "/var/tmp")); fn = os.path.join(d, "replay_c12s.py"); open(fn, "w").write(src)
spec = importlib.util.spec_from_file_location("replay_c12s", fn); m = importlib.util.module_from_spec(spec); sys.modules["replay_c12s"] = m
try:
    spec.loader.exec_module(m)
    try:
        m.main.check(); out = {"violates": False, "observed": "accepted"}
    except GuppyError as ex:
        out = {"violates": True, "observed": "rejected: " + type(ex.error).__name__, "required": "conv(1) must resolve to to_bool once the expected type tuple[bool, Option[int]] is known"}
except Exception as ex:
    out = {"violates": False, "error": repr(ex)[:300]}
shutil.rmtree(d, ignore_errors=True)
print(json.dumps(out))
'''
