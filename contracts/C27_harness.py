"""Model-level bounded counterexample finder for C27 (NOT the deciding step).

The real source text of the Stack / PriorityQueue method bodies is taken from the files under
/repo on every run (decorators and annotations stripped mechanically, nothing else changed) and
executed under CPython against small Python models of the Guppy primitives the bodies use
(array of Option cells with take/swap/unwrap/unwrap_nothing, panic).  All push orders of up to 7
entries (distinct priorities and ties) followed by a full drain, interleaved push/pop/push/drain
histories over tied and rotated priorities, plus random interleavings, are
compared with a reference priority queue / list.  Used only to attach a concrete failing input
to an obligation the solver could not decide after a change of the code.
"""
SCRIPT = r'''
import ast, itertools, random
root = os.environ["VERIF_REPO"]
class Panic(Exception): pass
def panic(*a): raise Panic(*a)
class Opt:
    def __init__(s, v=None, some=False): s.v, s.some = v, some
    def unwrap(s):
        if not s.some: raise Panic("unwrap of nothing")
        return s.v
    def unwrap_nothing(s):
        if s.some: raise Panic("unwrap_nothing of some")
    def swap(s, o):
        old = Opt(s.v, s.some); s.v, s.some = o.v, o.some; return old
    def take(s): return s.swap(Opt())
def some(v): return Opt(v, True)
class _Nothing:
    def __call__(s): return Opt()
    def __getitem__(s, k): return s
nothing = _Nothing()
class Arr(list):
    def __getitem__(s, i):
        if not (0 <= i < len(s)): raise Panic("index out of bounds")
        return list.__getitem__(s, i)
def load(path, clsname, cap):
    tree = ast.parse(open(os.path.join(root, path)).read())
    cls = [n for n in tree.body if isinstance(n, ast.ClassDef) and n.name == clsname][0]
    fns = [n for n in cls.body if isinstance(n, ast.FunctionDef)]
    for f in fns:
        f.decorator_list = []; f.returns = None
        for a in f.args.args: a.annotation = None
    fields = [n.target.id for n in cls.body if isinstance(n, ast.AnnAssign)]
    ns = {"some": some, "nothing": nothing, "panic": panic, "MAX_SIZE": cap, "len": lambda x: x.__len__() if hasattr(x, "__len__") else len(x)}
    def init(s, *a):
        for k, v in zip(fields, a): setattr(s, k, v)
    K = type(clsname, (), {"__init__": init})
    ns[clsname] = K
    exec(compile(ast.Module(fns, []), path, "exec"), ns)
    for f in fns: setattr(K, f.name, ns[f.name])
    return K
I = INPUT
cap = I.get("cap", 7)
PQ = load("guppylang/src/guppylang/std/collections/priority_queue.py", "PriorityQueue", cap)
ST = load("guppylang/src/guppylang/std/collections/stack.py", "Stack", cap)
def fresh(K): return K(Arr(Opt() for _ in range(cap)), 0)
bad = None
def run_pq(ops):
    q, ref, n = fresh(PQ), [], 0
    for op in ops:
        try:
            if op[0] == "push":
                q2 = q.push(("v", n), op[1]); ok = len(ref) < cap
                if not ok: return f"push beyond capacity did not panic: {ops}"
                ref.append((op[1], ("v", n))); n += 1; q = q2
            elif op[0] == "pop":
                p, v, q = q.pop()
                if not ref: return f"pop on empty did not panic: {ops}"
                if p != min(r[0] for r in ref) or (p, v) not in ref: return f"pop returned ({p},{v}) but entries are {sorted(ref)}: {ops}"
                ref.remove((p, v))
            else:
                p, v, q = q.peek()
                if not ref: return f"peek on empty did not panic: {ops}"
                if p != min(r[0] for r in ref) or (p, v) not in ref: return f"peek returned ({p},{v}); entries {sorted(ref)}: {ops}"
            if q.size != len(ref): return f"len {q.size} != {len(ref)}: {ops}"
        except Panic as ex:
            legit = (op[0] == "push" and len(ref) >= cap) or (op[0] in ("pop", "peek") and not ref)
            if not legit: return f"spurious panic {ex} at {op} after {ops}"
            return None
    return None
def run_st(ops):
    s, ref, n = fresh(ST), [], 0
    for op in ops:
        try:
            if op[0] == "push":
                s2 = s.push(("v", n))
                if len(ref) >= cap: return f"push beyond capacity did not panic: {ops}"
                ref.append(("v", n)); n += 1; s = s2
            elif op[0] == "pop":
                v, s = s.pop()
                if not ref: return f"pop on empty did not panic: {ops}"
                if v != ref.pop(): return f"pop returned {v}: {ops}"
            else:
                v, s = s.peek()
                if not ref: return f"peek on empty did not panic: {ops}"
                if v != ref[-1]: return f"peek returned {v}: {ops}"
            if s.end != len(ref): return f"len {s.end} != {len(ref)}: {ops}"
        except Panic as ex:
            legit = (op[0] == "push" and len(ref) >= cap) or (op[0] in ("pop", "peek") and not ref)
            if not legit: return f"spurious panic {ex} at {op} after {ops}"
            return None
    return None
count = 0
def seqs():
    for n in range(1, cap + 1):
        for perm in (itertools.permutations(range(n)) if n <= 7 else []):
            yield [("push", p) for p in perm] + [("pop",)] * (n + 1)
    for n in range(1, cap + 1):
        for tie in itertools.product(range(3), repeat=n):
            yield [("push", p) for p in tie] + [("peek",)] + [("pop",)] * n
    # interleaved histories: push a entries, pop b of them, push c more, drain — all priority
    # vectors over {0, 1} (ties) and over a rotation of distinct values
    for a in range(1, 6):
        for b in range(1, min(a, 2) + 1):
            for c in range(1, min(cap - (a - b), 4) + 1):
                for pr in itertools.product(range(2), repeat=a + c):
                    yield [("push", p) for p in pr[:a]] + [("pop",)] * b + [("push", p) for p in pr[a:]] + [("pop",)] * (a - b + c + 1)
                base = list(range(a + c))
                for rot in range(a + c):
                    for rev in (False, True):
                        pr = base[rot:] + base[:rot]
                        if rev: pr = pr[::-1]
                        yield [("push", p) for p in pr[:a]] + [("pop",)] * b + [("push", p) for p in pr[a:]] + [("pop",)] * (a - b + c + 1)
    rnd = random.Random(I.get("seed", 0))
    for _ in range(12000):
        yield [rnd.choice([("push", rnd.randrange(5)), ("push", rnd.randrange(5)), ("pop",), ("peek",)]) for _ in range(rnd.randrange(1, 20))]
which = I.get("which", "both")
for ops in seqs():
    count += 1
    if which in ("both", "pq"):
        bad = run_pq(ops)
        if bad: break
    if which in ("both", "stack"):
        bad = run_st(ops)
        if bad: break
print(json.dumps({"violates": bad is not None, "witness": bad, "sequences_tried": count, "level": "model-level execution of the real method bodies"}))
'''
