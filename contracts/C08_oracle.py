"""Native whole-program oracle for C08 (bounded stand-in and counterexample finder).

Enumerates Guppy function bodies over two variables under nested if/while/break/continue/return
and nested function definitions, runs the real `check()` on each and compares accept/reject and
the error title with a REFERENCE that is independent of guppylang's CFG/dataflow code: a
collecting semantics on the Python AST over abstract states  var -> {Undefined, int, float}
that follows every branch both ways (branch conditions are ignored, as Python does for scoping).

Reference verdicts for a program:
  "undef"  some path reaches a read of a LOCAL variable (a name assigned anywhere in the function
           body, reachable or not) in a state where it is unassigned;
  "types"  at a control-flow join a variable that is read afterwards (before being reassigned)
           arrives with two different types.
The real checker must accept iff no verdict applies, and when it rejects its error title must be
one of the applicable ones ("Variable not defined" / "Different types").
"""
ORACLE = r'''
import itertools, os, sys, tempfile, importlib.util, shutil, json
from guppylang_internals.error import GuppyError

U, I, F, G = "U", "int", "float", "fn"
# Code after a statement that always jumps away (return / break / continue) is reached by no path.
# The property's "iff some path reaches it" then says: never rejected because of it.  guppylang checks
# such code as if it were entered from the jump.  The same question arises after `while True:` without
# break and under `if False:` ("ignoring branch condition values" vs. folded constants).  The oracle
# does not take sides: for a program that CONTAINS such dead code the reference is computed under BOTH
# readings — FALL[0] False: such code is ignored, constant conditions are folded; True: a jump may also
# fall through, `while True` may exit, `if False` may be entered — and the program is judged only when
# both give the same verdicts.  Programs without dead code are judged by the first reading alone
# (constant conditions folded: `while True` is left through `break` only).
FALL = [False]
VARS = ("x", "h")          # `h` is ALSO a module-level Guppy function: local only if assigned somewhere

# ---- program representation: nested tuples
#   ("asg", v, ty) | ("use", v) | ("if", then, else_or_None) | ("while", body) | ("whiletrue", body)
#   ("iffalse", then) | ("break",) | ("continue",) | ("return",) | ("def", v)   nested def reading v

def render(stmts, ind=1, counter=None):
    counter = counter if counter is not None else [0]
    out = []
    pad = "    " * ind
    for s in stmts:
        k = s[0]
        if k == "asg": out.append(f"{pad}{s[1]} = {'1' if s[2] == I else '1.5'}")
        elif k == "use": out.append(f"{pad}use({s[1]})")
        elif k == "if":
            out.append(f"{pad}if b:"); out += render(s[1], ind + 1, counter)
            if s[2] is not None:
                out.append(f"{pad}else:"); out += render(s[2], ind + 1, counter)
        elif k == "while": out.append(f"{pad}while b:"); out += render(s[1], ind + 1, counter)
        elif k == "whiletrue": out.append(f"{pad}while True:"); out += render(s[1], ind + 1, counter)
        elif k == "for": out.append(f"{pad}for _i in range(3):"); out += render(s[1], ind + 1, counter)
        elif k == "iffalse": out.append(f"{pad}if False:"); out += render(s[1], ind + 1, counter)
        elif k == "def":
            counter[0] += 1
            out.append(f"{pad}def inner{counter[0]}() -> None:"); out.append(f"{pad}    use({s[1]})")
        else: out.append(pad + k)
    return out or [pad + "pass"]

def assigned_anywhere(stmts, acc=None):
    acc = set() if acc is None else acc
    for s in stmts:
        if s[0] == "asg": acc.add(s[1])
        elif s[0] in ("if",):
            assigned_anywhere(s[1], acc)
            if s[2]: assigned_anywhere(s[2], acc)
        elif s[0] in ("while", "whiletrue", "iffalse", "for"): assigned_anywhere(s[1], acc)
    return acc

# ---- liveness on the AST (may-use before reassignment), needed to decide which variables matter at a join
def live_before(stmts, live_after, loop_ctx):
    """loop_ctx = (live at loop header, live after loop) for break/continue."""
    live = set(live_after)
    for s in reversed(stmts):
        k = s[0]
        if k == "asg": live.discard(s[1])
        elif k in ("use", "def"): live.add(s[1])
        elif k == "if":
            a = live_before(s[1], live, loop_ctx)
            b = live_before(s[2], live, loop_ctx) if s[2] is not None else set(live)
            live = a | b
        elif k == "iffalse":
            if FALL[0]:               # second reading: the condition is ignored like any other
                live = live_before(s[1], live, loop_ctx) | live
            # first reading: constant-false branch, its body is dead code
        elif k in ("while", "whiletrue", "for"):
            # `while True` is left through `break` only (constant conditions are folded) — first reading
            head = set(live) if (k != "whiletrue" or FALL[0]) else set()
            while True:
                nb = live_before(s[1], head, (head, live))
                new = head | nb
                if new == head: break
                head = new
            live = head
        elif k == "break": live = set(loop_ctx[1]) | (live if FALL[0] else set())
        elif k == "continue": live = set(loop_ctx[0]) | (live if FALL[0] else set())
        elif k == "return": live = set(live) if FALL[0] else set()
    return live

class Ref:
    def __init__(self, prog):
        self.prog = prog
        self.locals = assigned_anywhere(prog)
        self.verdicts = set()
        self.dead = False
        self.saw_dead = False
    def read(self, states, v):
        if v not in self.locals:
            if v != "h" and states:   # neither a local nor a global (`h` is the only global)
                self.verdicts.add("undef")
            return
        if any(dict(st)[v] == U for st in states): self.verdicts.add("undef")
    def join(self, groups, live):
        """groups: list of state sets arriving over different edges; live: variables read later."""
        allst = set().union(*groups) if groups else set()
        for v in live:
            if v not in self.locals: continue
            tys = {dict(st)[v] for st in allst} - {U}
            if len(tys) > 1: self.verdicts.add("types")
        return allst
    def run(self, stmts, states, live_after, loop_ctx):
        """returns (normal exit states, break states, continue states)"""
        brk, cont = set(), set()
        for idx, s in enumerate(stmts):
            if not states:
                # statically dead code (every path before it jumps away): ignored under this reading
                self.saw_dead = True
                break
            rest = stmts[idx + 1:]
            la = live_before(rest, live_after, loop_ctx)
            k = s[0]
            if k == "asg":
                states = {tuple(sorted({**dict(st), s[1]: s[2]}.items())) for st in states}
            elif k in ("use", "def"):
                self.read(states, s[1])
                if k == "def" and s[1] in self.locals:
                    # guppylang 0.21 rejects closures that capture a local ("Unsupported"); the
                    # read still takes part in the definedness analysis
                    self.verdicts.add("closure")
            elif k == "iffalse" and not FALL[0]:
                # dead body: its assignments only make names local (Python scoping)
                if any(x[0] not in ("asg",) for x in s[1]):
                    self.saw_dead = True
            elif k in ("if", "iffalse"):
                t, b1, c1 = self.run(s[1], states, la, loop_ctx)
                if k == "if" and s[2] is not None:
                    e, b2, c2 = self.run(s[2], states, la, loop_ctx)
                else:
                    e, b2, c2 = set(states), set(), set()
                brk |= b1 | b2; cont |= c1 | c2
                states = self.join([t, e], la)
            elif k in ("while", "whiletrue", "for"):
                head_live = live_before([s], la, loop_ctx)
                seen = set(states)
                frontier = set(states)
                exits = set()
                while True:
                    body_out, b1, c1 = self.run(s[1], seen, head_live, (head_live, la))
                    back = body_out | c1
                    exits |= b1
                    new = seen | back
                    self.join([seen, back], head_live)
                    if new == seen: break
                    seen = new
                # condition-false exit + breaks; a `while True` is left through breaks only
                states = self.join([seen, exits], la) if (k != "whiletrue" or FALL[0]) else self.join([exits], la)
            elif k == "break": brk |= states; states = set() if not FALL[0] else states
            elif k == "continue": cont |= states; states = set() if not FALL[0] else states
            elif k == "return": states = set() if not FALL[0] else states
        return states, brk, cont

def _reference(prog, fall):
    FALL[0] = fall
    try:
        r = Ref(prog)
        init = tuple(sorted({v: U for v in VARS}.items()))
        r.run(prog, {init}, set(), (set(), set()))
    finally:
        FALL[0] = False
    if r.dead:
        r.verdicts.add("DEAD")
    return r.verdicts, r.saw_dead

def has_dead(stmts):
    for i, s_ in enumerate(stmts):
        if s_[0] in ("return", "break", "continue") and i + 1 < len(stmts): return True
        if s_[0] == "if" and (has_dead(s_[1]) or (s_[2] is not None and has_dead(s_[2]))): return True
        if s_[0] in ("while", "whiletrue", "for", "iffalse") and has_dead(s_[1]): return True
    return False

def reference(prog):
    va, dead = _reference(prog, False)
    if not dead:
        return va                          # no statically dead code: one reading
    vb, _ = _reference(prog, True)
    if va != vb:
        return va | vb | {"DEAD"}          # the two readings of dead code disagree: not judged
    return va

HEADER = """from guppylang import guppy
from typing import Generic
T = guppy.type_var("T")
@guppy.declare
def use(x: T) -> None: ...
@guppy
def h() -> None:
    pass
"""

def run_programs(progs):
    """check() every program with the real compiler; returns list of (accepted, title)."""
    src = [HEADER]
    for i, p in enumerate(progs):
        src.append(f"@guppy\ndef f{i}(b: bool) -> None:")
        src += render(p)
    d = tempfile.mkdtemp(dir=os.environ.get("TMPDIR", "/var/tmp")); fn = os.path.join(d, "c08_progs.py")
    open(fn, "w").write("\n".join(src) + "\n")
    spec = importlib.util.spec_from_file_location("c08_progs", fn); m = importlib.util.module_from_spec(spec); sys.modules["c08_progs"] = m
    out = []
    try:
        spec.loader.exec_module(m)
        for i in range(len(progs)):
            try:
                getattr(m, f"f{i}").check(); out.append((True, None))
            except GuppyError as e:
                out.append((False, type(e.error).title if isinstance(type(e.error).title, str) else str(e.error.rendered_title)))
            except Exception as ex:
                out.append((False, "EXC " + repr(ex)[:200]))
    finally:
        shutil.rmtree(d, ignore_errors=True); sys.modules.pop("c08_progs", None)
    return out

TITLES = {"undef": "Variable not defined", "types": "Different types", "closure": "Unsupported"}

def judge(prog, got):
    want = reference(prog)
    if "DEAD" in want:
        return None
    accepted, title = got
    # "closure" (capturing closures are unsupported) is outside C08: it permits a rejection with
    # that title where the definition is type-checked, but never requires one
    if accepted and (want - {"closure"}): return f"accepted, but the reference finds {sorted(want)}"
    if not accepted and not want: return f"rejected with {title!r}, but no path is bad"
    if not accepted and title not in {TITLES[w] for w in want}: return f"rejected with {title!r}, applicable: {sorted(want)}"
    return None

def atoms(vars_):
    out = [("use", v) for v in vars_] + [("asg", v, I) for v in vars_] + [("asg", "x", F)] + [("def", "x")]
    return out

def gen(depth, length, in_loop):
    """all statement lists of at most `length` statements and nesting depth `depth`"""
    simple = atoms(VARS) + [("return",)] + ([("break",), ("continue",)] if in_loop else [])
    if length == 0: yield []; return
    for n in range(1, length + 1):
        yield from _gen_n(depth, n, in_loop, simple)

def _gen_n(depth, n, in_loop, simple):
    if n == 0: yield []; return
    firsts = list(simple)
    if depth > 0:
        for body in _bodies(depth - 1, in_loop): firsts.append(("if", body, None))
        for body in _bodies(depth - 1, in_loop):
            for els in _bodies(depth - 1, in_loop, small=True): firsts.append(("if", body, els))
        for body in _bodies(depth - 1, True): firsts.append(("while", body))
        for body in _bodies(depth - 1, True, small=True): firsts.append(("whiletrue", body))
        for body in _bodies(depth - 1, in_loop, small=True): firsts.append(("iffalse", body))
    for f in firsts:
        if f[0] in ("return", "break", "continue") and n > 1: continue     # no statically dead code
        for rest in _gen_n(depth, n - 1, in_loop, simple): yield [f] + rest

_cache = {}
def _bodies(depth, in_loop, small=False):
    key = (depth, in_loop, small)
    if key not in _cache:
        _cache[key] = list(gen(depth, 1 if small else 2, in_loop))
    return _cache[key]
'''

DRIVER = r'''
def has_const(p):
    for s in p:
        if s[0] in ("whiletrue", "iffalse"): return True
        if s[0] == "if" and (has_const(s[1]) or (s[2] is not None and has_const(s[2]))): return True
        if s[0] == "while" and has_const(s[1]): return True
    return False

def programs(tier):
    S = atoms(VARS) + [("return",)]
    SL = S + [("break",), ("continue",)]
    uses = [("use", "x"), ("use", "h"), ("def", "x")]
    asgs = [("asg", "x", I), ("asg", "x", F), ("asg", "h", I)]
    out = []
    def term(s): return s[0] in ("return", "break", "continue")
    def lists(pool, n):
        res = [[]]
        allr = []
        for _ in range(n):
            res = [l + [s] for l in res if not (l and term(l[-1])) for s in pool]
            allr += res
        return allr
    out += lists(S, 3)
    def compounds(bodies_plain, bodies_loop, small_plain, small_loop):
        cs = []
        for b in bodies_plain: cs.append(("if", b, None))
        for b in bodies_plain:
            for e in small_plain: cs.append(("if", b, e))
        for b in bodies_loop: cs.append(("while", b))
        # `while True` bodies of up to two statements, so that "assign, then break" shapes occur
        for b in (bodies_loop if len(bodies_loop) < 200 else small_loop): cs.append(("whiletrue", b))
        for b in small_loop: cs.append(("for", b))
        for b in small_plain: cs.append(("iffalse", b))
        return cs
    c1 = compounds(lists(S, 2), lists(SL, 2), lists(S, 1), lists(SL, 1))
    def wrap(cs):
        for c in cs:
            yield [c]
            for u in uses: yield [c, u]
            for a in asgs:
                yield [a, c]
                for u in uses: yield [a, c, u]
    out += list(wrap(c1))
    # depth 2: a compound whose body contains a depth-1 compound with one-statement bodies
    inner_plain = compounds(lists(S, 1), lists(SL, 1), lists(S, 1), lists(SL, 1))
    inner_loop = compounds(lists(SL, 1), lists(SL, 1), lists(SL, 1), lists(SL, 1))
    def bodies2(inner, pool):
        for c in inner:
            yield [c]
            for s in pool:
                if not term(s): yield [s, c]
                yield [c, s]
    c2 = []
    for b in bodies2(inner_plain, S):
        c2.append(("if", b, None)); c2.append(("if", b, [("asg", "x", F)])); c2.append(("if", [("asg", "x", I)], b))
    for b in bodies2(inner_loop, SL):
        c2.append(("while", b))
    d2 = list(wrap(c2))
    if tier != "thorough":
        d2 = d2[::23]
    out += d2
    # statements after a jump (judged only where both readings of dead code agree): a prefix that may
    # split the block, an assignment, a jump, then reads / assignments
    tails = [[u] for u in uses[:2]] + [[a, u] for a in asgs[:2] for u in uses[:1]] + [[("asg", "x", I)]]
    pre_plain = [[]] + [[c] for c in compounds(lists(S, 1), lists(SL, 1), lists(S, 1), lists(SL, 1))]
    dead = []
    for pre in pre_plain:
        for mid in ([], [("asg", "x", I)], [("asg", "x", F)], [("asg", "h", I)]):
            for t_ in tails:
                dead.append(pre + mid + [("return",)] + t_)
    for pre in ([], [("asg", "x", I)], [("if", [("asg", "x", I)], None)], [("if", [("asg", "x", I)], [("asg", "x", I)])]):
        for jump in (("break",), ("continue",), ("return",)):
            for t_ in tails:
                for loop in ("while", "for"):
                    dead.append([(loop, pre + [("asg", "h", I)] + [jump] + t_)])
                    dead.append([("asg", "x", F), (loop, pre + [jump] + t_), ("use", "x")])
    if tier != "thorough":
        dead = dead[::3]
    out += dead
    return out

I_ = INPUT
progs = programs(I_["tier"])
mine = progs[I_["chunk"]::I_["nchunks"]]
bad = None; judged = 0; skipped = 0
B = 400
for i in range(0, len(mine), B):
    batch = mine[i:i + B]
    res = run_programs(batch)
    for p, got in zip(batch, res):
        ref_ = reference(p)
        if "DEAD" in ref_:
            skipped += 1; continue
        judged += 1
        r = judge(p, got)
        if r is not None and bad is None:
            bad = {"program": "def f(b: bool) -> None:\n" + "\n".join(render(p)), "detail": r, "prog": p}
    if bad: break
print(json.dumps({"violates": bad is not None, "evaluations": judged, "skipped": skipped, "total": len(progs), "witness": bad, "detail": bad and bad["detail"]}))
'''

REPLAY_ONE = r'''
I_ = INPUT
p = json.loads(json.dumps(I_["prog"]))
def tup(x): return tuple(tup(y) if isinstance(y, list) and y and isinstance(y[0], str) else ([tup(z) for z in y] if isinstance(y, list) else y) for y in x)
prog = [tup(s) for s in p]
got = run_programs([prog])[0]
r = judge(prog, got)
print(json.dumps({"violates": r is not None, "detail": r, "observed": got, "reference": sorted(reference(prog)), "program": "\n".join(render(prog))}))
'''
