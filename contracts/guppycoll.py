"""Guppy mode for the std collections (Stack, PriorityQueue): mathematical-integer view of `int`
with a no-overflow obligation on every arithmetic result, arrays of Option cells with the
borrow-style cell methods take/swap/unwrap/unwrap_nothing, panic as an exceptional exit, and a
ghost multiset ("bag") of the entries currently stored, maintained by the cell primitives.

ASSUMED (external to the functions under contract):
  * on values that stay inside int64, Guppy's int operators + - * comparisons and // by a
    positive divisor agree with mathematical integers (this is what C04 proves for the bound
    ops); every arithmetic result produced here carries an explicit in-range obligation;
  * array[Option[T], N]: `a[i]` panics unless 0 <= i < N, otherwise denotes cell i;
    cell.take() empties the cell and returns its old content, cell.swap(o) stores o and returns
    the old content, Option.unwrap() panics on nothing, Option.unwrap_nothing() panics on some
    (guppylang/std/option.py, std/array.py);
  * the bag is the multiset of entries held in `some` cells: each primitive updates it by the
    point-update law  bag(a[i := e]) = bag(a) - {a[i]} + {e}.
"""
import ast

import z3

from pyvc import Sym, SObj, SInt, SBool, ClassVal, Builtin, PyRaise, Unsupported, lift

IMIN, IMAX = -(1 << 63), (1 << 63) - 1
PANIC = ClassVal("GuppyPanic", [], builtin=True)


def panic(it, msg):
    ex = SObj(PANIC, {"args": (msg,)})
    raise PyRaise(ex)


class MInt(Sym):
    """Guppy int viewed as a mathematical integer (with in-range obligations)."""

    def __init__(self, t):
        self.t = t if isinstance(t, z3.ExprRef) else z3.IntVal(t)

    @staticmethod
    def of(v):
        if isinstance(v, MInt):
            return v
        if isinstance(v, bool):
            raise Unsupported("bool used as int")
        if isinstance(v, int):
            return MInt(z3.IntVal(v))
        if isinstance(v, SInt):
            return MInt(v.t)
        raise Unsupported(f"not an int: {v!r}")

    def _res(self, it, t, what):
        t = z3.simplify(t)
        if not z3.is_int_value(t):
            it.ctx.obligate(f"int64-no-overflow({what})", z3.And(t >= IMIN, t <= IMAX))
        return MInt(t)

    def binop(self, it, op, other, reflected):
        try:
            o = MInt.of(other)
        except Unsupported:
            return NotImplemented
        a, b = (o, self) if reflected else (self, o)
        if op == "+":
            return self._res(it, a.t + b.t, "+")
        if op == "-":
            return self._res(it, a.t - b.t, "-")
        if op == "*":
            return self._res(it, a.t * b.t, "*")
        if op == "//":
            it.ctx.obligate("floor-division-by-positive-divisor(idiv_s reads the divisor as unsigned)", b.t > 0)
            return self._res(it, a.t / b.t, "//")
        if op == "%":
            it.ctx.obligate("modulo-by-positive-divisor", b.t > 0)
            return self._res(it, a.t % b.t, "%")
        raise Unsupported(f"Guppy int operator {op} in math mode")

    def cmp(self, it, op, other):
        try:
            o = MInt.of(other)
        except Unsupported:
            return NotImplemented
        f = {"==": lambda a, b: a == b, "!=": lambda a, b: a != b, "<": lambda a, b: a < b,
             "<=": lambda a, b: a <= b, ">": lambda a, b: a > b, ">=": lambda a, b: a >= b}[op]
        return lift(f(self.t, o.t))

    def unop(self, it, op):
        if op is ast.USub:
            return self._res(it, -self.t, "neg")
        if op is ast.UAdd:
            return self
        return NotImplemented

    def truth(self, it):
        return lift(self.t != 0)

    def __repr__(self):
        return f"MInt({self.t})"


class GOpt(Sym):
    """Option value: is_some (z3 Bool or python bool) + payload (interpreter value)."""

    def __init__(self, some, payload):
        self.some = some if isinstance(some, z3.ExprRef) else z3.BoolVal(bool(some))
        self.payload = payload
        self.t = self.some

    def getattr(self, it, name):
        if name == "unwrap":
            def unwrap():
                if it.ctx.branch(z3.Not(self.some)):
                    panic(it, "Option.unwrap: value is `nothing`")
                return self.payload
            return Builtin("Option.unwrap", unwrap)
        if name == "unwrap_nothing":
            def un():
                if it.ctx.branch(self.some):
                    panic(it, "Option.unwrap_nothing: value is `some`")
                return None
            return Builtin("Option.unwrap_nothing", un)
        if name == "is_some":
            return Builtin("is_some", lambda: lift(self.some))
        if name == "is_nothing":
            return Builtin("is_nothing", lambda: lift(z3.Not(self.some)))
        raise Unsupported(f"Option.{name}")


class Payload:
    """payload value <-> list of z3 terms <-> bag entry term"""

    def __init__(self, sorts, wrap, unwrap, entry):
        self.sorts, self.wrap, self.unwrap, self.entry = sorts, wrap, unwrap, entry


class GArray(Sym):
    def __init__(self, n, some, cols, pl: Payload, bag):
        self.n, self.some, self.cols, self.pl, self.bag = n, some, list(cols), pl, bag
        self.t = some

    def snapshot(self):
        return GArray(self.n, self.some, list(self.cols), self.pl, self.bag)

    def opt_at(self, i):
        return GOpt(z3.Select(self.some, i), self.pl.wrap([z3.Select(c, i) for c in self.cols]))

    def entry_at(self, i):
        return self.pl.entry([z3.Select(c, i) for c in self.cols])

    def set(self, i, opt: GOpt):
        old_some, old_entry = z3.Select(self.some, i), self.entry_at(i)
        bag = z3.If(old_some, z3.Store(self.bag, old_entry, z3.Select(self.bag, old_entry) - 1), self.bag)
        terms = self.pl.unwrap(opt.payload) if opt.payload is not None else [z3.Select(c, i) for c in self.cols]
        new_entry = self.pl.entry(terms)
        bag = z3.If(opt.some, z3.Store(bag, new_entry, z3.Select(bag, new_entry) + 1), bag)
        self.some = z3.Store(self.some, i, opt.some)
        self.cols = [z3.Store(c, i, z3.If(opt.some, t, z3.Select(c, i))) for c, t in zip(self.cols, terms)]
        self.bag = bag

    def getitem(self, it, k):
        i = MInt.of(k).t
        if it.ctx.branch(z3.Not(z3.And(i >= 0, i < self.n))):
            panic(it, "array index out of bounds")
        return OptCell(self, i)

    def length(self, it):
        return MInt(self.n)

    # indexed iteration (exec_for with a loop contract)
    def seq_len(self, it):
        return self.n

    def seq_item(self, it, i):
        return self.opt_at(i)

    def iterate(self, it):
        raise Unsupported("iteration over a symbolic-length array needs a loop contract")


class OptCell(Sym):
    """`a[i]` for an array of options: a place; the borrow is returned at once."""

    def __init__(self, arr: GArray, i):
        self.arr, self.i = arr, i
        self.t = i

    def getattr(self, it, name):
        a, i = self.arr, self.i
        if name == "take":
            def take():
                old = a.opt_at(i)
                a.set(i, GOpt(False, None))
                return old
            return Builtin("Option.take", take)
        if name == "swap":
            def swap(new):
                if not isinstance(new, GOpt):
                    raise Unsupported("swap with a non-option")
                old = a.opt_at(i)
                a.set(i, new)
                return old
            return Builtin("Option.swap", swap)
        if name in ("unwrap", "unwrap_nothing", "is_some", "is_nothing"):
            return a.opt_at(i).getattr(it, name)   # copy out of the cell (copyable element types)
        raise Unsupported(f"cell.{name}")


def install(e, modules):
    """Models of the std names the collection bodies use, per module."""
    e.guppy_generic_subscript = True
    e.global_presets = getattr(e, "global_presets", {})
    some = Builtin("some", lambda v: GOpt(True, v))
    nothing = Builtin("nothing", lambda: GOpt(False, None))
    pan = Builtin("panic", lambda *a: (_ for _ in ()).throw(PyRaise(SObj(PANIC, {"args": tuple(a)}))))
    tv = SObj(ClassVal("guppy", builtin=True), {
        "type_var": Builtin("type_var", lambda *a, **k: ClassVal("T", builtin=True)),
        "nat_var": Builtin("nat_var", lambda *a, **k: None)})
    for m in modules:
        e.global_presets[(m, "some")] = some
        e.global_presets[(m, "nothing")] = nothing
        e.global_presets[(m, "panic")] = pan
        e.global_presets[(m, "guppy")] = tv
        e.global_presets[(m, "Generic")] = e.bclasses["Generic"]
        e.global_presets[(m, "Option")] = ClassVal("Option", builtin=True)
        e.global_presets[(m, "owned")] = None
